/-
Lemmas about the Python primitives of `Model/PyArith.lean` (used by the `Props/*Gen.lean` proofs that
a hand-written model equals the function generated from the source text).  Not trusted: only
consequences of the definitions.
-/
import CtrlVerif.Model.PyArith
import Mathlib.Tactic.Ring
import Mathlib.Tactic.Linarith
import Mathlib.Tactic.Push

namespace CtrlVerif.PyArith

theorem range_zero (m : Int) : range 0 m = (List.range m.toNat).map (fun (i : Nat) => (i : Int)) := by
  simp [range]

theorem range_length (a b : Int) : (range a b).length = (b - a).toNat := by simp [range]

/-- `[c for i in range(m)]` -/
theorem map_const_range (a b : Int) {α : Type} (c : α) :
    (range a b).map (fun _ => c) = List.replicate (b - a).toNat c := by
  unfold range
  rw [List.map_map]
  apply List.ext_getElem <;> simp

/-- `range(1, p+1)` is `1, …, p` -/
theorem range_one_succ (p : Nat) :
    range 1 ((p : Int) + 1) = (List.range p).map (fun (j : Nat) => (j : Int) + 1) := by
  simp [range, add_comm]

theorem range_nat (a b : Nat) :
    range (a : Int) (b : Int) = (List.range' a (b - a)).map (fun (j : Nat) => (j : Int)) := by
  unfold range
  have h : ((b : Int) - (a : Int)).toNat = b - a := by omega
  rw [h, List.range_eq_range']
  apply List.ext_getElem <;> simp

theorem normIdx_nat {len i : Nat} (h : i < len) : normIdx len (i : Int) = .ok i := by
  have : (i : Int) < len := by exact_mod_cast h
  simp [normIdx, this]

theorem normIdx_neg_one {len : Nat} (h : 0 < len) : normIdx len (-1) = .ok (len - 1) := by
  have h1 : ¬ ((0 : Int) ≤ -1 ∧ (-1 : Int) < len) := by omega
  have h2 : ((-1 : Int) < 0 ∧ -(len : Int) ≤ -1) := by omega
  have h3 : ((-1 : Int) + len).toNat = len - 1 := by omega
  simp only [normIdx, h1, h2, if_true, if_false, and_self, h3]

theorem setItem_nat {α : Type} (xs : List α) {i : Nat} (h : i < xs.length) (v : α) :
    setItem xs (i : Int) v = .ok (xs.set i v) := by
  simp [setItem, normIdx_nat h]

theorem setItem_neg_one {α : Type} (xs : List α) (h : 0 < xs.length) (v : α) :
    setItem xs (-1) v = .ok (xs.set (xs.length - 1) v) := by
  simp [setItem, normIdx_neg_one h]

theorem getItem_nat {α : Type} (xs : List α) {i : Nat} (h : i < xs.length) :
    getItem xs (i : Int) = .ok xs[i] := by
  simp [getItem, normIdx_nat h, List.getElem?_eq_getElem h]

theorem getItem_zero {α : Type} (xs : List α) (h : 0 < xs.length) :
    getItem xs 0 = .ok xs[0] := by
  have := getItem_nat xs h
  simpa using this

section field
variable {K : Type} [Field K] [DecidableEq K]

theorem div_ok (a : K) {b : K} (h : b ≠ 0) : div a b = .ok (a / b) := by simp [div, h]

theorem div_zero (a : K) : div a (0 : K) = .error .zeroDen := by simp [div]

theorem pow_nat (x : K) (e : Nat) : pow x (e : Int) = .ok (x ^ e) := by simp [pow]

theorem factorial_nat (n : Nat) : (factorial (n : Int) : K) = (n.factorial : K) := by
  simp [factorial]

theorem binom_nat (n k : Nat) : (binom (n : Int) (k : Int) : Except Err K) = .ok (n.choose k : K) := by
  have h1 : ¬ ((n : Int) < 0) := by omega
  have h2 : ¬ ((k : Int) < 0) := by omega
  simp [binom, h1, h2]

end field

theorem ok_bind {ε α β : Type} (a : α) (f : α → Except ε β) : (Except.ok a >>= f) = f a := rfl

theorem pure_bind {ε α β : Type} (a : α) (f : α → Except ε β) : ((pure a : Except ε α) >>= f) = f a := rfl

theorem pure_eq_ok {ε α : Type} (a : α) : (pure a : Except ε α) = .ok a := rfl

theorem error_bind {ε α β : Type} (e : ε) (f : α → Except ε β) : (Except.error e >>= f) = .error e := rfl

/-- `mapM` of a total function in `Except` -/
theorem mapM_ok {ε α β : Type} (f : α → β) (l : List α) :
    List.mapM (fun x => (Except.ok (f x) : Except ε β)) l = .ok (l.map f) := by
  induction l with
  | nil => rfl
  | cons a l ih => simp [List.mapM_cons, ih, bind, Except.bind, pure, Except.pure]

theorem mapM_congr_ok {ε α β : Type} (g : α → Except ε β) (f : α → β) (l : List α)
    (h : ∀ x ∈ l, g x = .ok (f x)) : List.mapM g l = .ok (l.map f) := by
  induction l with
  | nil => rfl
  | cons a l ih =>
    have ha := h a (by simp)
    have hl := ih (fun x hx => h x (by simp [hx]))
    simp [List.mapM_cons, ha, hl, bind, Except.bind, pure, Except.pure]

theorem mapM_map_congr_ok {ε α β γ : Type} (g : γ → Except ε β) (c : α → γ) (f : α → β) (l : List α)
    (h : ∀ x ∈ l, g (c x) = .ok (f x)) : List.mapM g (l.map c) = .ok (l.map f) := by
  induction l with
  | nil => rfl
  | cons a l ih =>
    have ha := h a (by simp)
    have hl := ih (fun x hx => h x (by simp [hx]))
    simp [List.mapM_cons, ha, hl, bind, Except.bind, pure, Except.pure]

/-- `[g(j) for j in range(a, b)]` with natural bounds, when `g` succeeds on the range. -/
theorem mapM_range_nat {ε β : Type} (a b : Nat) (g : Int → Except ε β) (f : Nat → β)
    (h : ∀ j : Nat, a ≤ j → j < b → g (j : Int) = .ok (f j)) :
    List.mapM g (range (a : Int) (b : Int)) = .ok ((List.range' a (b - a)).map f) := by
  rw [range_nat]
  apply mapM_map_congr_ok
  intro x hx
  rw [List.mem_range'_1] at hx
  exact h x hx.1 (by omega)

end CtrlVerif.PyArith
