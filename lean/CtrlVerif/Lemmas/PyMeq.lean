/-
Symbolic evaluation of the primitives of `Model/PyMeq.lean` on arrays that passed `_check_shape`:
an argument array accepted with expected shape `n × m` IS the typed matrix the model's `checkShape`
returned (`checkShape_toP`), the solver wrappers applied to arrays in constructor form with fitting
sizes are the `Solvers` entries applied to the typed call records.  Rewriting rules of the equality
proofs `Props/C10GenLyap.lean`, `C10GenCare.lean`, `C10GenDare.lean`; helper lemmas, free to change.
-/
import CtrlVerif.Model.PyMeq
import CtrlVerif.Lemmas.PyMat
import CtrlVerif.Props.C10Gen

namespace CtrlVerif.PyMeq

open CtrlVerif MatEqn Matrix

variable {K : Type} [Field K] [LinearOrder K]

/-! ### `Except` plumbing -/

theorem map_bind {ε α β γ : Type} (x : Except ε α) (f : α → β) (g : β → Except ε γ) :
    (x.map f) >>= g = x >>= fun a => g (f a) := by
  cases x <;> rfl

theorem ok_bind {ε α β : Type} (a : α) (f : α → Except ε β) : (Except.ok a : Except ε α) >>= f = f a := rfl

theorem error_bind {ε α β : Type} (e : ε) (f : α → Except ε β) :
    (Except.error e : Except ε α) >>= f = .error e := rfl

theorem map_eq_bind {ε α β : Type} (x : Except ε α) (f : α → β) : x.map f = x >>= fun a => pure (f a) := by
  cases x <;> rfl

theorem bind_congr_ok {ε α β : Type} {x : Except ε α} {f g : α → Except ε β}
    (h : ∀ a, x = .ok a → f a = g a) : x >>= f = x >>= g := by
  cases x with
  | error e => rfl
  | ok a => exact h a rfl

/-! ### arrays accepted by `_check_shape` -/

theorem cast_rfl {p q : Nat} (M : Matrix (Fin p) (Fin q) K) (tol : Option K) (h1 : p = p) (h2 : q = q) :
    (DMat.mk p q M tol).cast h1 h2 = M := by
  ext i j; rfl

theorem toP_cast (M : DMat K) {n m : Nat} (h1 : M.p = n) (h2 : M.q = m) :
    toP M = ⟨n, m, M.cast h1 h2⟩ := by
  obtain ⟨p, q, M, tol⟩ := M
  simp only at h1 h2
  subst h1 h2
  simp only [toP, cast_rfl]

/-- what the model's `checkShape` returns is the array, typed. -/
theorem checkShape_cast {M : DMat K} {n m : Nat} {sq sy : Bool} {M' : Matrix (Fin n) (Fin m) K}
    (h : checkShape M n m sq sy = .ok M') : ∃ (h1 : M.p = n) (h2 : M.q = m), M' = M.cast h1 h2 := by
  unfold checkShape at h
  simp only [bind, Except.bind, throw, throwThe, MonadExceptOf.throw, pure, Except.pure] at h
  by_cases hs : M.p = n ∧ M.q = m
  · refine ⟨hs.1, hs.2, ?_⟩
    simp only [hs, and_self, dite_true] at h
    repeat' split at h
    all_goals cases h
    all_goals simp_all
  · simp only [hs, dite_false] at h
    repeat' split at h
    all_goals cases h

theorem checkShape_toP {M : DMat K} {n m : Nat} {sq sy : Bool} {M' : Matrix (Fin n) (Fin m) K}
    (h : checkShape M n m sq sy = .ok M') : toP M = ⟨n, m, M'⟩ := by
  obtain ⟨h1, h2, rfl⟩ := checkShape_cast h
  exact toP_cast M h1 h2

/-- the generated `_check_shape` in front of a continuation: the model's, and the continuation gets
the array back. -/
theorem gcs_bind {β : Type} (M : DMat K) (n m : Nat) (sq sy : Bool) (name : String)
    (hne : ¬ (sy = true ∧ M.p = 0 ∧ M.q = 0)) (f : DMat K → Except Err β) :
    Generated.checkShape M (n : Int) (m : Int) sq sy name >>= f
      = checkShape M n m sq sy >>= fun _ => f M := by
  rw [C10Gen.generated_checkShape_eq M n m sq sy name hne, map_bind]

/-- the generated `_check_shape` is the model's, whatever the `name`. -/
theorem gcs (M : DMat K) (n m : Nat) (sq sy : Bool) (hne : ¬ (sy = true ∧ M.p = 0 ∧ M.q = 0)) (name : String) :
    Generated.checkShape M (n : Int) (m : Int) sq sy name = (checkShape M n m sq sy).map fun _ => M :=
  C10Gen.generated_checkShape_eq M n m sq sy name hne

/-- a correctly shaped (typed) array that is symmetric where required is accepted unchanged
(`C10.checkShape_of` without the ordered-ring instance of its section). -/
theorem checkShape_of' {n m : Nat} (M : Matrix (Fin n) (Fin m) K) (tol : Option K) (sq sym : Bool)
    (hsq : (sq || sym) = true → n = m)
    (hsym : sym = true → isSymD (DMat.of M tol) = .ok true) :
    checkShape (DMat.of M tol) n m sq sym = .ok M := by
  have hc : ∀ (h1 : (DMat.of M tol).p = n) (h2 : (DMat.of M tol).q = m),
      (DMat.of M tol).cast h1 h2 = M := by
    intro h1 h2; ext i j; rfl
  have hp : (DMat.of M tol).p = n := rfl
  have hq' : (DMat.of M tol).q = m := rfl
  unfold checkShape
  cases sym
  · cases sq
    · simp [hp, hq', hc, bind, Except.bind, pure, Except.pure]
    · have := hsq rfl
      subst this
      simp [hp, hq', hc, bind, Except.bind, pure, Except.pure]
  · have := hsq (by simp)
    subst this
    simp [hsym rfl, hp, hq', hc, bind, Except.bind, pure, Except.pure]

/-- exactly symmetric integer-dtype arrays pass `_is_symmetric`. -/
theorem isSymD_of_transpose_eq {n : Nat} (M : Matrix (Fin n) (Fin n) K) (h : Mᵀ = M) :
    isSymD (DMat.of M none) = .ok true := by
  have h2 : ∀ i j, M i j = M j i := fun i j => by
    have := congrFun (congrFun h j) i
    rwa [Matrix.transpose_apply] at this
  have hq : (DMat.of M none).q = (DMat.of M none).p := rfl
  have h3 : IsSym (DMat.of M none).tol ((DMat.of M none).cast rfl hq) := fun i j => h2 i j
  unfold isSymD
  rw [dif_pos hq]
  exact congrArg Except.ok (decide_eq_true h3)

/-- the error an `Except` value carries, if any (for concrete instances). -/
def errOf {α : Type} : Except Err α → Option Err
  | .error e => some e
  | .ok _ => none

/-- a square array passes the squareness-only check against its own size. -/
theorem checkShape_square (M : DMat K) (h : M.q = M.p) :
    checkShape M M.p M.p true false = .ok (M.cast rfl h) := by
  simp [checkShape, h, bind, Except.bind, pure, Except.pure]

/-- an array of the expected shape passes the plain shape check. -/
theorem checkShape_plain (M : DMat K) {n m : Nat} (h1 : M.p = n) (h2 : M.q = m) :
    checkShape M n m false false = .ok (M.cast h1 h2) := by
  simp [checkShape, h1, h2, bind, Except.bind, pure, Except.pure]

theorem gcs_bind_false {β : Type} (M : DMat K) (n m : Nat) (sq : Bool) (name : String)
    (f : DMat K → Except Err β) :
    Generated.checkShape M (n : Int) (m : Int) sq false name >>= f
      = checkShape M n m sq false >>= fun _ => f M :=
  gcs_bind M n m sq false name (by simp) f

/-- float64 identity / zeros pass their own shape checks. -/
theorem checkShape_eye (eps : K) (n : Nat) :
    checkShape (eye eps n) n n true false = .ok (1 : Matrix (Fin n) (Fin n) K) :=
  by simp [checkShape, eye, bind, Except.bind, pure, Except.pure]; exact cast_rfl _ _ _ _

theorem checkShape_zeros (eps : K) (n m : Nat) :
    checkShape (zeros eps n m) n m false false = .ok (0 : Matrix (Fin n) (Fin m) K) :=
  by simp [checkShape, zeros, bind, Except.bind, pure, Except.pure]; exact cast_rfl _ _ _ _

theorem toP_eye (eps : K) (n : Nat) : toP (eye eps n) = ⟨n, n, 1⟩ := rfl

theorem toP_zeros (eps : K) (n m : Nat) : toP (zeros eps n m) = ⟨n, m, 0⟩ := rfl

/-! ### the solver wrappers on arrays in constructor form -/

@[simp] theorem optTyped_none (r c : Nat) : optTyped r c (none : Option (PMat K)) = .ok none := rfl

@[simp] theorem optTyped_some (r c : Nat) (M : Matrix (Fin r) (Fin c) K) :
    optTyped r c (some (⟨r, c, M⟩ : PMat K)) = .ok (some M) := by
  simp [optTyped]

theorem solveContinuousLyapunov_mk (Sv : Solvers K) (n : Nat) (a q : Matrix (Fin n) (Fin n) K) :
    solveContinuousLyapunov Sv ⟨n, n, a⟩ ⟨n, n, q⟩ = .ok ⟨n, n, Sv.clyap n ⟨a, q⟩⟩ := by
  simp [solveContinuousLyapunov]

theorem solveDiscreteLyapunov_mk (Sv : Solvers K) (n : Nat) (a q : Matrix (Fin n) (Fin n) K) :
    solveDiscreteLyapunov Sv ⟨n, n, a⟩ ⟨n, n, q⟩ = .ok ⟨n, n, Sv.dlyap n ⟨a, q⟩⟩ := by
  simp [solveDiscreteLyapunov]

theorem solveSylvester_mk (Sv : Solvers K) (n m : Nat) (a : Matrix (Fin n) (Fin n) K)
    (b : Matrix (Fin m) (Fin m) K) (q : Matrix (Fin n) (Fin m) K) :
    solveSylvester Sv ⟨n, n, a⟩ ⟨m, m, b⟩ ⟨n, m, q⟩ = .ok ⟨n, m, Sv.sylv n m ⟨a, b, q⟩⟩ := by
  simp [solveSylvester]

/-- an optional typed array as SciPy sees it. -/
def optP {r c : Nat} : Option (Matrix (Fin r) (Fin c) K) → Option (PMat K)
  | none => none
  | some M => some ⟨r, c, M⟩

@[simp] theorem optTyped_optP (r c : Nat) (M : Option (Matrix (Fin r) (Fin c) K)) :
    optTyped r c (optP M) = .ok M := by
  cases M <;> simp [optP]

theorem areCall_mk' (n m : Nat) (a : Matrix (Fin n) (Fin n) K) (b : Matrix (Fin n) (Fin m) K)
    (q : Matrix (Fin n) (Fin n) K) (r : Matrix (Fin m) (Fin m) K) (e s : Option (PMat K)) :
    areCall ⟨n, n, a⟩ ⟨n, m, b⟩ ⟨n, n, q⟩ ⟨m, m, r⟩ e s
      = match optTyped n n e, optTyped n m s with
        | .ok e', .ok s' => .ok ⟨a, b, q, r, e', s'⟩
        | _, _ => .error .shape := by
  simp only [areCall, and_self, dite_true, PMat.retype_rfl]
  cases optTyped n n e <;> cases optTyped n m s <;> rfl

theorem areCall_mk (n m : Nat) (a : Matrix (Fin n) (Fin n) K) (b : Matrix (Fin n) (Fin m) K)
    (q : Matrix (Fin n) (Fin n) K) (r : Matrix (Fin m) (Fin m) K)
    (e : Option (Matrix (Fin n) (Fin n) K)) (s : Option (Matrix (Fin n) (Fin m) K)) :
    areCall ⟨n, n, a⟩ ⟨n, m, b⟩ ⟨n, n, q⟩ ⟨m, m, r⟩ (optP e) (optP s) = .ok ⟨a, b, q, r, e, s⟩ := by
  simp [areCall]

theorem solveContinuousAre_mk (Sv : Solvers K) (n m : Nat) (a : Matrix (Fin n) (Fin n) K)
    (b : Matrix (Fin n) (Fin m) K) (q : Matrix (Fin n) (Fin n) K) (r : Matrix (Fin m) (Fin m) K)
    (e : Option (Matrix (Fin n) (Fin n) K)) (s : Option (Matrix (Fin n) (Fin m) K)) :
    solveContinuousAre Sv ⟨n, n, a⟩ ⟨n, m, b⟩ ⟨n, n, q⟩ ⟨m, m, r⟩ (optP e) (optP s)
      = .ok ⟨n, n, Sv.care n m ⟨a, b, q, r, e, s⟩⟩ := by
  simp only [solveContinuousAre, areCall_mk]; rfl

theorem solveDiscreteAre_mk (Sv : Solvers K) (n m : Nat) (a : Matrix (Fin n) (Fin n) K)
    (b : Matrix (Fin n) (Fin m) K) (q : Matrix (Fin n) (Fin n) K) (r : Matrix (Fin m) (Fin m) K)
    (e : Option (Matrix (Fin n) (Fin n) K)) (s : Option (Matrix (Fin n) (Fin m) K)) :
    solveDiscreteAre Sv ⟨n, n, a⟩ ⟨n, m, b⟩ ⟨n, n, q⟩ ⟨m, m, r⟩ (optP e) (optP s)
      = .ok ⟨n, n, Sv.dare n m ⟨a, b, q, r, e, s⟩⟩ := by
  simp only [solveDiscreteAre, areCall_mk]; rfl

/-- the three shapes in which the generated code hands optional arrays to SciPy. -/
theorem solveContinuousAre_mk' (Sv : Solvers K) (n m : Nat) (a : Matrix (Fin n) (Fin n) K)
    (b : Matrix (Fin n) (Fin m) K) (q : Matrix (Fin n) (Fin n) K) (r : Matrix (Fin m) (Fin m) K)
    (e s : Option (PMat K)) (e' : Option (Matrix (Fin n) (Fin n) K)) (s' : Option (Matrix (Fin n) (Fin m) K))
    (he : optTyped n n e = .ok e') (hs : optTyped n m s = .ok s') :
    solveContinuousAre Sv ⟨n, n, a⟩ ⟨n, m, b⟩ ⟨n, n, q⟩ ⟨m, m, r⟩ e s
      = .ok ⟨n, n, Sv.care n m ⟨a, b, q, r, e', s'⟩⟩ := by
  simp only [solveContinuousAre, areCall_mk', he, hs]; rfl

theorem solveDiscreteAre_mk' (Sv : Solvers K) (n m : Nat) (a : Matrix (Fin n) (Fin n) K)
    (b : Matrix (Fin n) (Fin m) K) (q : Matrix (Fin n) (Fin n) K) (r : Matrix (Fin m) (Fin m) K)
    (e s : Option (PMat K)) (e' : Option (Matrix (Fin n) (Fin n) K)) (s' : Option (Matrix (Fin n) (Fin m) K))
    (he : optTyped n n e = .ok e') (hs : optTyped n m s = .ok s') :
    solveDiscreteAre Sv ⟨n, n, a⟩ ⟨n, m, b⟩ ⟨n, n, q⟩ ⟨m, m, r⟩ e s
      = .ok ⟨n, n, Sv.dare n m ⟨a, b, q, r, e', s'⟩⟩ := by
  simp only [solveDiscreteAre, areCall_mk', he, hs]; rfl

theorem eig_mk' {L : Type} (ev : EigFun K L) (n : Nat) (M : Matrix (Fin n) (Fin n) K)
    (E : Option (PMat K)) (E' : Option (Matrix (Fin n) (Fin n) K)) (hE : optTyped n n E = .ok E') :
    eig ev ⟨n, n, M⟩ E = .ok (ev n M E') := by
  simp [eig, hE]

/-- `R = np.eye(B.shape[1]) if R is None else np.array(R, ndmin=2)` is the model's `rOf`. -/
theorem ifNone_rOf (B : DMat K) (eps : K) (R : Option (DMat K)) :
    ifNone R (eye eps B.q) (fun R => R) = rOf B eps R := by
  cases R <;> rfl

@[simp] theorem ifNone_none {α β : Type} (a : β) (f : α → β) : ifNone none a f = a := rfl
@[simp] theorem ifNone_some {α β : Type} (v : α) (a : β) (f : α → β) : ifNone (some v) a f = f v := rfl

theorem eig_mk {L : Type} (ev : EigFun K L) (n : Nat) (M : Matrix (Fin n) (Fin n) K)
    (E : Option (Matrix (Fin n) (Fin n) K)) : eig ev ⟨n, n, M⟩ (optP E) = .ok (ev n M E) := by
  simp [eig]

end CtrlVerif.PyMeq
