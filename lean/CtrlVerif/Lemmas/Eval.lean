/-
Helper lemmas for the evaluation model (property C04).
-/
import CtrlVerif.Model.Eval
import CtrlVerif.Lemmas.SS
import CtrlVerif.Lemmas.Poly
import Mathlib.LinearAlgebra.Matrix.NonsingularInverse
import Mathlib.LinearAlgebra.Matrix.Charpoly.Coeff
import Mathlib.LinearAlgebra.Lagrange

namespace CtrlVerif

open Matrix Polynomial

namespace Eval

variable {K : Type} [Field K] [DecidableEq K]

/-! ### the executed determinant is the determinant -/

theorem detFin_eq_det : ∀ {n : Nat} (M : Matrix (Fin n) (Fin n) K), detFin M = M.det
  | 0, M => by simp [detFin]
  | n + 1, M => by
    rw [det_succ_row_zero, detFin]
    refine Finset.sum_congr rfl fun j _ => ?_
    by_cases h : M 0 j = 0
    · simp [h]
    · rw [if_neg h, detFin_eq_det]

theorem detFin_resolv_eq_zero_iff {n : Nat} (A : Matrix (Fin n) (Fin n) K) (x : K) :
    detFin (resolv A x) = 0 ↔ ¬ IsUnit (x • (1 : Matrix (Fin n) (Fin n) K) - A) := by
  rw [detFin_eq_det, Matrix.isUnit_iff_isUnit_det, isUnit_iff_ne_zero, not_not]
  rfl

/-- `det⁻¹ • adjugate` is the two-sided inverse of a matrix with non-zero determinant. -/
theorem invQ_spec {n : Type*} [Fintype n] [DecidableEq n] (F : Matrix n n K) (h : F.det ≠ 0) :
    SS.invQ F * F = 1 ∧ F * SS.invQ F = 1 := by
  unfold SS.invQ
  constructor
  · rw [Matrix.smul_mul, Matrix.adjugate_mul, smul_smul, inv_mul_cancel₀ h, one_smul]
  · rw [Matrix.mul_smul, Matrix.mul_adjugate, smul_smul, inv_mul_cancel₀ h, one_smul]

/-! ### 1 × 1 resolvents -/

theorem resolv_one_apply (A : Matrix (Fin 1) (Fin 1) K) (x : K) :
    resolv A x = Matrix.of fun _ _ => x - A 0 0 := by
  ext i j
  have hi : i = 0 := Subsingleton.elim _ _
  have hj : j = 0 := Subsingleton.elim _ _
  subst hi hj
  simp [resolv]

theorem det_resolv_one (A : Matrix (Fin 1) (Fin 1) K) (x : K) :
    (resolv A x).det = x - A 0 0 := by
  rw [resolv_one_apply]; simp [Matrix.det_fin_one]

/-! ### certificates -/

theorem polyval_eq_eval' (p : List K) (x : K) : polyval p x = (toPoly p).eval x :=
  polyval_eq_eval p x

/-- a coefficient list of length `n + 1` with head `1` denotes a monic polynomial of degree `n`. -/
theorem toPoly_monic_of_head {d : List K} {n : Nat} (hl : d.length = n + 1)
    (hh : d.head? = some 1) : (toPoly d).Monic ∧ (toPoly d).natDegree = n := by
  match d, hl, hh with
  | a :: t, hl, hh =>
    simp only [List.head?_cons, Option.some.injEq] at hh
    subst hh
    simp only [List.length_cons, Nat.add_right_cancel_iff] at hl
    rw [toPoly_cons]
    simp only [map_one, one_mul]
    have hdeg : (toPoly t).degree < ((X : K[X]) ^ t.length).degree := by
      rw [degree_X_pow]; exact toPoly_degree_lt t
    constructor
    · exact (monic_X_pow t.length).add_of_left hdeg
    · rw [natDegree_add_eq_left_of_degree_lt hdeg, natDegree_X_pow, hl]

omit [DecidableEq K] in
/-- the determinant of a linear matrix pencil is a polynomial of degree ≤ size in the point. -/
theorem pencil_det_poly {N : Nat} (L M : Matrix (Fin N) (Fin N) K) :
    ∃ P : K[X], P.natDegree ≤ N ∧ ∀ x : K, P.eval x = (L - x • M).det := by
  refine ⟨det ((X : K[X]) • (-M).map C + L.map C), ?_, fun x => ?_⟩
  · simpa using Polynomial.natDegree_det_X_add_C_le (-M) L
  · rw [← Polynomial.coe_evalRingHom, RingHom.map_det]
    congr 1
    ext i j
    simp [Matrix.sub_apply, Matrix.add_apply, Matrix.smul_apply, sub_eq_neg_add]
    exact mul_comm _ _

end Eval

end CtrlVerif
