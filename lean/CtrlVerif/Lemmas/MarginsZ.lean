/-
Discrete-time lemmas for `Model/Margins.lean`: reversed coefficient lists (`num[::-1]` is
`z^p·num(1/z)`), the `_poly_z_*` test polynomials on the unit circle.
-/
import CtrlVerif.Lemmas.Margins

namespace CtrlVerif.Margins

open CtrlVerif Polynomial

variable {K : Type*} [Field K]

theorem polyval_cons' {R : Type*} [CommSemiring R] (c : R) (t : List R) (x : R) :
    polyval (c :: t) x = c * x ^ t.length + polyval t x := by
  simp only [polyval, List.foldl_cons]
  rw [polyval_foldl]; simp [polyval]

/-- reversed list, evaluated at `z`, is `z^(len-1)` times the list evaluated at `1/z`. -/
theorem lowEval_cons_eq {R : Type*} [CommRing R] (z zi : R) (h : z * zi = 1) (t : List R) (c : R) :
    lowEval (c :: t) z = z ^ t.length * polyval (c :: t) zi := by
  induction t generalizing c with
  | nil => simp [polyval]
  | cons d t' ih =>
    rw [lowEval_cons, ih d, polyval_cons' c, List.length_cons, mul_add]
    have h1 : z ^ (t'.length + 1) * (c * zi ^ (t'.length + 1)) = c := by
      rw [mul_comm c, ← mul_assoc, ← mul_pow, h, one_pow, one_mul]
    rw [h1, pow_succ]; ring

theorem evalC_reverse_cons (z zi : Cx K) (h : z * zi = 1) (c : K) (t : List K) :
    evalC (c :: t).reverse z = z ^ t.length * evalC (c :: t) zi := by
  unfold evalC
  rw [List.map_reverse, polyval_reverse, List.map_cons, lowEval_cons_eq z zi h]
  simp

theorem evalC_npmul [DecidableEq K] (p q : List K) (z : Cx K) :
    evalC (npmul p q) z = evalC p z * evalC q z := by
  simp [evalC_eq_aeval, toPoly_npmul]

theorem evalC_npsub (p q : List K) (z : Cx K) : evalC (npsub p q) z = evalC p z - evalC q z := by
  simp [evalC_eq_aeval, toPoly_npsub]

theorem evalC_shiftPoly (k : Nat) (z : Cx K) : evalC (shiftPoly k : List K) z = z ^ k := by
  rw [evalC_eq_aeval, shiftPoly, toPoly_cons]
  simp

/-- `_poly_z_real_crossing`: for `z·zi = 1` and a proper transfer function the test polynomial is
`z^q·(N(z)D(1/z) − N(1/z)D(z))`, `q = len(den) − 1`. -/
theorem evalC_zRealCrossingPoly [DecidableEq K] (z zi : Cx K) (h : z * zi = 1) (a b : K)
    (nt dt : List K) (hpq : nt.length ≤ dt.length) :
    evalC (zRealCrossingPoly (a :: nt) (b :: dt)) z =
      z ^ dt.length * (evalC (a :: nt) z * evalC (b :: dt) zi - evalC (a :: nt) zi * evalC (b :: dt) z) := by
  have hp2 : evalC (zRealP2 (a :: nt) (b :: dt)) z =
      z ^ dt.length * (evalC (a :: nt) zi * evalC (b :: dt) z) := by
    unfold zRealP2
    by_cases hlt : nt.length < dt.length
    · have hlt' : (a :: nt).length < (b :: dt).length := by simpa using hlt
      rw [if_pos hlt', evalC_npmul, evalC_npmul, evalC_shiftPoly, evalC_reverse_cons z zi h]
      have : dt.length = nt.length + ((b :: dt).length - (a :: nt).length) := by
        simp only [List.length_cons]; omega
      rw [this, pow_add]; ring
    · have hlt' : ¬ (a :: nt).length < (b :: dt).length := by simpa using hlt
      rw [if_neg hlt', evalC_npmul, evalC_reverse_cons z zi h]
      have : dt.length = nt.length := by omega
      rw [this]; ring
  unfold zRealCrossingPoly
  rw [evalC_npsub, evalC_npmul, hp2, evalC_reverse_cons z zi h]
  ring

/-- `_poly_z_mag1_crossing`: the test polynomial is `z^q·(N(z)N(1/z) − D(z)D(1/z))`. -/
theorem evalC_zMag1Poly [DecidableEq K] (z zi : Cx K) (h : z * zi = 1) (a b : K)
    (nt dt : List K) (hpq : nt.length ≤ dt.length) :
    evalC (zMag1Poly (a :: nt) (b :: dt)) z =
      z ^ dt.length * (evalC (a :: nt) z * evalC (a :: nt) zi - evalC (b :: dt) z * evalC (b :: dt) zi) := by
  have hp1 : evalC (zMag1P1 (a :: nt) (b :: dt)) z =
      z ^ dt.length * (evalC (a :: nt) z * evalC (a :: nt) zi) := by
    unfold zMag1P1
    by_cases hlt : nt.length < dt.length
    · have hlt' : (a :: nt).length < (b :: dt).length := by simpa using hlt
      rw [if_pos hlt', evalC_npmul, evalC_npmul, evalC_shiftPoly, evalC_reverse_cons z zi h]
      have : dt.length = nt.length + ((b :: dt).length - (a :: nt).length) := by
        simp only [List.length_cons]; omega
      rw [this, pow_add]; ring
    · have hlt' : ¬ (a :: nt).length < (b :: dt).length := by simpa using hlt
      rw [if_neg hlt', evalC_npmul, evalC_reverse_cons z zi h]
      have : dt.length = nt.length := by omega
      rw [this]; ring
  unfold zMag1Poly zMag1P2
  rw [evalC_npsub, hp1, evalC_npmul, evalC_reverse_cons z zi h]
  ring

/-! ### on the unit circle -/

theorem mul_conj_of_normSq_one (z : Cx K) (h : normSq z = 1) : z * conj z = 1 := by
  rw [mul_conj, h]; rfl

theorem pow_mul_eq_zero_iff_of_unit (z zi x : Cx K) (h : z * zi = 1) (n : Nat) :
    z ^ n * x = 0 ↔ x = 0 := by
  constructor
  · intro hx
    have : zi ^ n * (z ^ n * x) = 0 := by rw [hx, mul_zero]
    rwa [← mul_assoc, ← mul_pow, mul_comm zi, h, one_pow, one_mul] at this
  · rintro rfl; simp

theorem sub_conj_swap (N D : Cx K) :
    N * conj D - conj N * D = (⟨0, 2 * (N * conj D).im⟩ : Cx K) := by
  ext <;> simp [conj] <;> ring

theorem mul_conj_sub (N D : Cx K) :
    N * conj N - D * conj D = QuadraticAlgebra.C (normSq N - normSq D) := by
  rw [mul_conj, mul_conj, QuadraticAlgebra.C_sub]

end CtrlVerif.Margins
