/-
The two coefficient loops of `pade` (control/delay.py) as the source text writes them: the state
after `m` rounds (`loopList`), the loop invariant (`coef_loop`) for ANY step function that does what
one round of the source does, and one round of the generated code (`step_num`).  Helper lemmas for
`Props/C14Gen.lean`; nothing here mentions the generated file.
-/
import CtrlVerif.Model.Discretize
import CtrlVerif.Lemmas.PyArith

namespace CtrlVerif.C14Gen
open CtrlVerif

section
variable {K : Type} [Field K]

def loopList (c : K) (p q m : Nat) : List K :=
  List.replicate (p - m) 0 ++ ((List.range (m + 1)).map (padeCoef c p q)).reverse

theorem loopList_getElem? (c : K) (p q m i : Nat) (h : m ≤ p) :
    (loopList c p q m)[i]? = if i < p - m then some 0 else if i ≤ p then some (padeCoef c p q (p - i)) else none := by
  unfold loopList
  rw [List.getElem?_append]
  simp only [List.length_replicate]
  split_ifs with h1 h2
  · simp [h1]
  · rw [List.getElem?_reverse (by simp; omega)]
    simp
    congr 1; omega
  · simp; omega

theorem loopList_length (c : K) (p q m : Nat) (h : m ≤ p) : (loopList c p q m).length = p + 1 := by
  simp [loopList]; omega

theorem loopList_zero (c : K) (p q : Nat) :
    loopList c p q 0 = (List.replicate (p + 1) (0 : K)).set p 1 := by
  apply List.ext_getElem?
  intro i
  rw [loopList_getElem? c p q 0 i (by omega), List.getElem?_set]
  simp only [List.length_replicate, List.getElem?_replicate]
  split_ifs with h1 h2 h3 h4 h5 h6 <;> first | rfl | omega | skip
  · rename_i h6 _; subst h6; simp [padeCoef]

theorem loopList_full (c : K) (p q : Nat) : loopList c p q p = padeList c p q := by
  simp [loopList, padeList]

theorem loopList_succ (c : K) (p q m : Nat) (h : m < p) :
    (loopList c p q m).set (p - (m + 1)) (padeCoef c p q (m + 1)) = loopList c p q (m + 1) := by
  apply List.ext_getElem?
  intro i
  rw [List.getElem?_set, loopList_getElem? c p q (m + 1) i (by omega),
    loopList_getElem? c p q m i (by omega), loopList_length c p q m (by omega)]
  split_ifs <;> first | rfl | omega | skip
  · congr 2; omega

/-- a coefficient loop of `pade`, for any step function that does what the source text does. -/
theorem coef_loop (c : K) (p q : Nat) (step : K × List K → Int → Except Err (K × List K))
    (hstep : ∀ j, j < p → ∀ l : List K, l.length = p + 1 →
      step (padeCoef c p q j, l) ((j : Int) + 1)
        = .ok (padeCoef c p q (j + 1), l.set (p - (j + 1)) (padeCoef c p q (j + 1)))) :
    List.foldlM step ((1 : K), (List.replicate (p + 1) (0 : K)).set p 1) (PyArith.range 1 ((p : Int) + 1))
      = .ok (padeCoef c p q p, padeList c p q) := by
  rw [PyArith.range_one_succ, ← loopList_zero c p q, ← loopList_full c p q]
  have key : ∀ m, m ≤ p →
      List.foldlM step ((1 : K), loopList c p q 0) ((List.range m).map (fun (j : Nat) => (j : Int) + 1))
        = .ok (padeCoef c p q m, loopList c p q m) := by
    intro m
    induction m with
    | zero => intro _; simp [padeCoef, pure, Except.pure]
    | succ m ih =>
      intro hm
      rw [List.range_succ, List.map_append, List.foldlM_append, ih (by omega)]
      simp only [List.map_cons, List.map_nil, List.foldlM_cons, List.foldlM_nil, bind, Except.bind]
      rw [hstep m (by omega) _ (loopList_length c p q m (by omega)), loopList_succ c p q m (by omega)]
      rfl
  exact key p le_rfl
end

section
variable {K : Type} [Field K] [LinearOrder K] [IsStrictOrderedRing K]

/-- one round of a coefficient loop as generated from the source text
(`c *= c0 * (a - k + 1)/(s - k + 1)/k; xs[a-k] = c` at `k = j + 1`). -/
theorem step_num (p q : Nat) (c : K) (a s : Int) (ha : a = p) (hb : s = p + q)
    (j : Nat) (hj : j < p) (l : List K) (hl : l.length = p + 1) (cn : K) :
    ((do
      let t3 ← PyArith.div (c * (((a - ((j : Int) + 1)) + 1 : Int) : K)) (((s - ((j : Int) + 1)) + 1 : Int) : K)
      let t4 ← PyArith.div t3 ((((j : Int) + 1 : Int)) : K)
      let cn : K := (cn * t4)
      let num ← PyArith.setItem l (a - ((j : Int) + 1)) cn
      pure (cn, num)) : Except Err (K × List K))
    = .ok (cn * (c * ((p - j : Nat) : K) / ((p + q - j : Nat) : K) / ((j + 1 : Nat) : K)),
        l.set (p - (j + 1)) (cn * (c * ((p - j : Nat) : K) / ((p + q - j : Nat) : K) / ((j + 1 : Nat) : K)))) := by
  subst ha hb
  have e1 : ((p : Int) - ((j : Int) + 1)) + 1 = ((p - j : Nat) : Int) := by omega
  have e2 : (((p : Int) + q) - ((j : Int) + 1)) + 1 = ((p + q - j : Nat) : Int) := by omega
  have e3 : ((j : Int) + 1) = ((j + 1 : Nat) : Int) := by omega
  have e4 : (p : Int) - ((j + 1 : Nat) : Int) = ((p - (j + 1) : Nat) : Int) := by omega
  have n1 : (((p + q - j : Nat) : Int) : K) ≠ 0 := by
    have : 0 < p + q - j := by omega
    exact_mod_cast this.ne'
  have n2 : (((j + 1 : Nat) : Int) : K) ≠ 0 := by exact_mod_cast (Nat.succ_ne_zero j)
  rw [e1, e2, e3, e4, PyArith.div_ok _ n1, PyArith.ok_bind, PyArith.div_ok _ n2, PyArith.ok_bind]
  dsimp only
  rw [PyArith.setItem_nat l (by omega), PyArith.ok_bind]
  simp only [Int.cast_natCast]
  rfl

end

end CtrlVerif.C14Gen
