/-
Lemmas for C11: Krylov rows, the cyclic-vector characterisation of the characteristic
polynomial, the Hankel matrix of Markov parameters, Ackermann's formula.
-/
import CtrlVerif.Model.StateFbk
import CtrlVerif.Lemmas.Poly
import Mathlib.LinearAlgebra.Matrix.Charpoly.Coeff
import Mathlib.LinearAlgebra.Matrix.Nondegenerate
import Mathlib.LinearAlgebra.Matrix.NonsingularInverse
import Mathlib.LinearAlgebra.Matrix.Block
import Mathlib.Algebra.Polynomial.AlgebraMap
import Mathlib.Algebra.Polynomial.Roots
import Mathlib.Algebra.Polynomial.FieldDivision
import Mathlib.Tactic.Abel
import Mathlib.Tactic.Ring

namespace CtrlVerif.StateFbk

open Matrix Polynomial

variable {K : Type*} [Field K] {N : ℕ}

/-- certified inverse. -/
theorem invQ_mul {n : Type*} [Fintype n] [DecidableEq n] (F : Matrix n n K) (h : F.det ≠ 0) :
    SS.invQ F * F = 1 := by
  unfold SS.invQ
  rw [Matrix.smul_mul, Matrix.adjugate_mul, smul_smul, inv_mul_cancel₀ h, one_smul]

/-! ### blocks are powers -/

theorem ctrbBlock_eq_pow {n m : Type*} [Fintype n] [DecidableEq n] (A : Matrix n n K)
    (B : Matrix n m K) (k : ℕ) : ctrbBlock A B k = A ^ k * B := by
  induction k with
  | zero => simp [ctrbBlock]
  | succ k ih => rw [ctrbBlock, ih, pow_succ', Matrix.mul_assoc]

theorem obsvBlock_eq_pow {n p : Type*} [Fintype n] [DecidableEq n] (A : Matrix n n K)
    (C : Matrix p n K) (k : ℕ) : obsvBlock A C k = C * A ^ k := by
  induction k with
  | zero => simp [obsvBlock]
  | succ k ih => rw [obsvBlock, ih, pow_succ, Matrix.mul_assoc]

theorem ctrbVec_apply (A : Matrix (Fin N) (Fin N) K) (b : Fin N → K) (i k : Fin N) :
    ctrbVec A b i k = ((A ^ (k : ℕ)) *ᵥ b) i := by
  simp [ctrbVec, ctrbBlock_eq_pow, Matrix.mul_apply, Matrix.mulVec, dotProduct]

/-! ### Krylov rows and the cyclic-vector lemma -/

/-- the matrix with rows `q, qM, …, qM^{N-1}`. -/
def krylovRows (M : Matrix (Fin N) (Fin N) K) (q : Fin N → K) : Matrix (Fin N) (Fin N) K :=
  of fun k => q ᵥ* M ^ (k : ℕ)

theorem vecMul_aeval (M : Matrix (Fin N) (Fin N) K) (q : Fin N → K) (r : K[X])
    (hr : r.natDegree < N) :
    q ᵥ* (aeval M r) = (fun k : Fin N => r.coeff k) ᵥ* krylovRows M q := by
  rw [aeval_eq_sum_range' hr]
  ext j
  simp only [Matrix.vecMul, dotProduct, krylovRows, Matrix.of_apply, Matrix.sum_apply,
    Matrix.smul_apply, smul_eq_mul, Finset.mul_sum]
  rw [Finset.sum_comm, Fin.sum_univ_eq_sum_range (fun k => ∑ i, r.coeff k * (q i * (M ^ k) i j)) N]
  refine Finset.sum_congr rfl fun k _ => Finset.sum_congr rfl fun i _ => by ring

/-- **cyclic-vector lemma.**  If the rows `q, qM, …, qM^{N-1}` are independent and the monic
polynomial `p` of degree `N` satisfies `q p(M) = 0`, then `p` is the characteristic polynomial
of `M`. -/
theorem charpoly_eq_of_cyclic (M : Matrix (Fin N) (Fin N) K) (q : Fin N → K) (p : K[X])
    (hp : p.Monic) (hdeg : p.natDegree = N) (hdet : (krylovRows M q).det ≠ 0)
    (hq : q ᵥ* (aeval M p) = 0) : M.charpoly = p := by
  by_contra hne
  have hr0 : M.charpoly - p ≠ 0 := sub_ne_zero.mpr hne
  have hdegc : M.charpoly.natDegree = N := by simp
  have hlt : (M.charpoly - p).degree < p.degree := by
    have h1 : M.charpoly.degree = p.degree := by
      rw [degree_eq_natDegree (charpoly_monic M).ne_zero, degree_eq_natDegree hp.ne_zero, hdegc,
        hdeg]
    have := degree_sub_lt_left h1 (charpoly_monic M).ne_zero
      (by rw [(charpoly_monic M).leadingCoeff, hp.leadingCoeff])
    rwa [h1] at this
  have hnat : (M.charpoly - p).natDegree < N := by
    exact lt_of_lt_of_eq (natDegree_lt_natDegree hr0 hlt) hdeg
  have hz : q ᵥ* (aeval M (M.charpoly - p)) = 0 := by
    rw [map_sub, aeval_self_charpoly, zero_sub, Matrix.vecMul_neg, hq, neg_zero]
  rw [vecMul_aeval M q _ hnat] at hz
  have hc := Matrix.eq_zero_of_vecMul_eq_zero hdet hz
  apply hr0
  ext k
  by_cases hk : k < N
  · simpa using congrFun hc ⟨k, hk⟩
  · rw [coeff_eq_zero_of_natDegree_lt (lt_of_lt_of_le hnat (not_lt.mp hk))]; simp

/-! ### products of linear factors -/

theorem listProd_monic (l : List K) : ((l.map fun r => X - C r).prod).Monic := by
  induction l with
  | nil => simp
  | cons a l ih =>
    simp only [List.map_cons, List.prod_cons]
    exact (monic_X_sub_C a).mul ih

theorem listProd_natDegree (l : List K) : ((l.map fun r => X - C r).prod).natDegree = l.length := by
  induction l with
  | nil => simp
  | cons a l ih =>
    simp only [List.map_cons, List.prod_cons, List.length_cons]
    rw [(monic_X_sub_C a).natDegree_mul (listProd_monic l), ih, natDegree_X_sub_C]
    omega

theorem listProd_roots (l : List K) : ((l.map fun r => X - C r).prod).roots = (l : Multiset K) := by
  have : (l.map fun r => X - C r).prod = ((l : Multiset K).map fun a => X - C a).prod := by
    rw [Multiset.map_coe, Multiset.prod_coe]
  rw [this, roots_multiset_prod_X_sub_C]

/-! ### Ackermann's formula -/

section Acker
variable (A : Matrix (Fin N) (Fin N) K) (b k q : Fin N → K)

theorem vecMul_cl (v : Fin N → K) :
    v ᵥ* (A - vecMulVec b k) = v ᵥ* A - (v ⬝ᵥ b) • k := by
  rw [Matrix.vecMul_sub, Matrix.vecMul_vecMulVec]

/-- `q (A - b k)^j = q A^j` as long as the Markov parameters `q A^i b`, `i < j`, vanish. -/
theorem q_pow_cl (h0 : ∀ j, j + 1 < N → (q ᵥ* A ^ j) ⬝ᵥ b = 0) :
    ∀ j, j < N → q ᵥ* (A - vecMulVec b k) ^ j = q ᵥ* A ^ j := by
  intro j
  induction j with
  | zero => intro _; simp
  | succ j ih =>
    intro hj
    rw [pow_succ, ← Matrix.vecMul_vecMul, ih (by omega), vecMul_cl, h0 j hj, zero_smul, sub_zero,
      Matrix.vecMul_vecMul, ← pow_succ]

theorem krylovRows_cl (h0 : ∀ j, j + 1 < N → (q ᵥ* A ^ j) ⬝ᵥ b = 0) :
    krylovRows (A - vecMulVec b k) q = krylovRows A q := by
  ext i j
  simp only [krylovRows, Matrix.of_apply]
  rw [q_pow_cl A b k q h0 i i.2]

end Acker

section Acker1
variable (A : Matrix (Fin (N + 1)) (Fin (N + 1)) K) (b k q : Fin (N + 1) → K)

theorem q_pow_top (h0 : ∀ j, j + 1 < N + 1 → (q ᵥ* A ^ j) ⬝ᵥ b = 0)
    (h1 : (q ᵥ* A ^ N) ⬝ᵥ b = 1) :
    q ᵥ* (A - vecMulVec b k) ^ (N + 1) = q ᵥ* A ^ (N + 1) - k := by
  rw [pow_succ, ← Matrix.vecMul_vecMul, q_pow_cl A b k q h0 N (by omega), vecMul_cl, h1, one_smul,
    Matrix.vecMul_vecMul, ← pow_succ]

/-- a monic polynomial of degree `N + 1` is `X^(N+1)` plus a remainder of degree `≤ N`. -/
theorem monic_remainder (p : K[X]) (hp : p.Monic) (hdeg : p.natDegree = N + 1) :
    (p - X ^ (N + 1)).natDegree < N + 1 := by
  by_cases hr : p - X ^ (N + 1) = 0
  · rw [hr]; simp
  · have h1 : p.degree = (X ^ (N + 1) : K[X]).degree := by
      rw [degree_eq_natDegree hp.ne_zero, hdeg, degree_X_pow]
    have := degree_sub_lt_left h1 hp.ne_zero
      (by rw [hp.leadingCoeff, (monic_X_pow (N + 1)).leadingCoeff])
    exact lt_of_lt_of_eq (natDegree_lt_natDegree hr this) hdeg

/-- the identity behind Ackermann's formula: with `q A^j b = 0` (`j < N`), `q A^N b = 1`, for *any*
gain `k`: `q p(A - b k) = q p(A) - k`. -/
theorem acker_identity (p : K[X]) (hp : p.Monic) (hdeg : p.natDegree = N + 1)
    (h0 : ∀ j, j + 1 < N + 1 → (q ᵥ* A ^ j) ⬝ᵥ b = 0) (h1 : (q ᵥ* A ^ N) ⬝ᵥ b = 1) :
    q ᵥ* (aeval (A - vecMulVec b k) p) = q ᵥ* (aeval A p) - k := by
  have hr := monic_remainder p hp hdeg
  have hsplit : ∀ M : Matrix (Fin (N + 1)) (Fin (N + 1)) K,
      aeval M p = M ^ (N + 1) + aeval M (p - X ^ (N + 1)) := by
    intro M; simp
  rw [hsplit (A - vecMulVec b k), Matrix.vecMul_add, q_pow_top A b k q h0 h1,
    vecMul_aeval _ q _ hr, krylovRows_cl A b k q h0, ← vecMul_aeval _ q _ hr, hsplit A,
    Matrix.vecMul_add]
  abel

/-- **Ackermann.**  With the gain `k = q p(A)` the closed loop satisfies `q p(A - b k) = 0`. -/
theorem acker_annihilates (p : K[X]) (hp : p.Monic) (hdeg : p.natDegree = N + 1)
    (h0 : ∀ j, j + 1 < N + 1 → (q ᵥ* A ^ j) ⬝ᵥ b = 0) (h1 : (q ᵥ* A ^ N) ⬝ᵥ b = 1)
    (hk : k = q ᵥ* (aeval A p)) :
    q ᵥ* (aeval (A - vecMulVec b k) p) = 0 := by
  rw [acker_identity A b k q p hp hdeg h0 h1, ← hk, sub_self]

/-- the product of the Krylov rows of `q` and the controllability matrix is the Hankel matrix of
the Markov parameters `q A^(i+j) b`. -/
theorem krylov_mul_ctrb (i j : Fin (N + 1)) :
    (krylovRows A q * ctrbVec A b) i j = (q ᵥ* A ^ ((i : ℕ) + j)) ⬝ᵥ b := by
  have hcol : (fun l => ctrbVec A b l j) = (A ^ (j : ℕ)) *ᵥ b := by
    ext l; rw [ctrbVec_apply]
  have : (krylovRows A q * ctrbVec A b) i j = (q ᵥ* A ^ (i : ℕ)) ⬝ᵥ ((A ^ (j : ℕ)) *ᵥ b) := by
    rw [← hcol]; simp [Matrix.mul_apply, krylovRows, dotProduct]
  rw [this, Matrix.dotProduct_mulVec, Matrix.vecMul_vecMul, ← pow_add]

/-- an anti-triangular Hankel matrix with unit anti-diagonal is invertible; hence so are the
Krylov rows of `q`. -/
theorem krylovRows_det_ne_zero
    (h0 : ∀ j, j + 1 < N + 1 → (q ᵥ* A ^ j) ⬝ᵥ b = 0) (h1 : (q ᵥ* A ^ N) ⬝ᵥ b = 1) :
    (krylovRows A q).det ≠ 0 := by
  set H := krylovRows A q * ctrbVec A b with hH
  have htri : (H.submatrix id (Fin.revPerm : Equiv.Perm (Fin (N + 1)))).BlockTriangular
      OrderDual.toDual := by
    intro i j hij
    have hij' : i < j := hij
    simp only [Matrix.submatrix_apply, id, Fin.revPerm_apply, hH, krylov_mul_ctrb]
    apply h0
    have : (i : ℕ) < j := hij'
    simp only [Fin.val_rev]
    omega
  have hdet : (H.submatrix id (Fin.revPerm : Equiv.Perm (Fin (N + 1)))).det = 1 := by
    rw [Matrix.det_of_isLowerTriangular _ htri]
    apply Finset.prod_eq_one
    intro i _
    simp only [Matrix.submatrix_apply, id, Fin.revPerm_apply, hH, krylov_mul_ctrb, Fin.val_rev]
    have : (i : ℕ) + (N + 1 - ((i : ℕ) + 1)) = N := by omega
    rw [this, h1]
  rw [Matrix.det_permute', hH, Matrix.det_mul] at hdet
  intro hz
  rw [hz] at hdet
  simp at hdet

end Acker1

end CtrlVerif.StateFbk
