/-
Helper lemmas for `Props/C12GenSmTop.lean`: under the contracts of `np.abs`, `np.angle(·, deg=True)`,
`np.log` the floating-point quantities the code compares (`|log GM|`, `|PM|`, `SM`) order as the
exact keys of the hand-written model (`gmKey`, `pmKey`, `smKey`); `argminBy` on a list from which
the entries with key `⊤` have been removed.  Free to change.
-/
import CtrlVerif.Lemmas.PyMarg

namespace CtrlVerif.PyMarg

open CtrlVerif CtrlVerif.Margins

section keys
variable {K : Type} [Field K] [LinearOrder K] [IsStrictOrderedRing K]

theorem max_sq_inv {c : K} (hc : 0 < c) : max (c * c) (c * c)⁻¹ = max c c⁻¹ * max c c⁻¹ := by
  have hci : 0 < c⁻¹ := inv_pos.mpr hc
  rcases le_total c⁻¹ c with h | h
  · have h2 : (c * c)⁻¹ ≤ c * c := by
      rw [mul_inv]; exact mul_le_mul h h (le_of_lt hci) (le_of_lt hc)
    rw [max_eq_left h, max_eq_left h2]
  · have h2 : c * c ≤ (c * c)⁻¹ := by
      rw [mul_inv]; exact mul_le_mul h h (le_of_lt hc) (le_of_lt hci)
    rw [max_eq_right h, max_eq_right h2, mul_inv]

theorem max_inv_le_iff {c d : K} (hc : 0 < c) (hd : 0 < d) :
    max c c⁻¹ ≤ max d d⁻¹ ↔ max (c * c) (c * c)⁻¹ ≤ max (d * d) (d * d)⁻¹ := by
  rw [max_sq_inv hc, max_sq_inv hd]
  have h1 : 0 ≤ max c c⁻¹ := le_trans (le_of_lt hc) (le_max_left _ _)
  have h2 : 0 ≤ max d d⁻¹ := le_trans (le_of_lt hd) (le_max_left _ _)
  exact (mul_self_le_mul_self_iff h1 h2)

end keys

/-- `argminBy` ignores entries with key `⊤` as long as some entry has a smaller key. -/
theorem argminBy_filter_top {α β : Type} [LinearOrder β] [OrderTop β] (key : α → β) (L : List α) (a : α)
    (h : argminBy key (L.filter fun c => decide (key c ≠ ⊤)) = some a) :
    argminBy key L = some a := by
  obtain ⟨l₁', l₂', hl, h1, h2⟩ := argminBy_spec key _ a h
  obtain ⟨m₁, m₂, hL, hm₁, hm₂⟩ := List.filter_eq_append_iff.mp hl
  obtain ⟨n₁, n₂, hm2, hn₁, hpa, hn₂⟩ := List.filter_eq_cons_iff.mp hm₂
  have hatop : key a ≠ ⊤ := by simpa using hpa
  have hlt : key a < ⊤ := lt_top_iff_ne_top.mpr hatop
  subst hL hm2
  have e : m₁ ++ (n₁ ++ a :: n₂) = (m₁ ++ n₁) ++ a :: n₂ := by simp
  rw [e]
  apply argminBy_of_spec
  · intro b hb
    rcases List.mem_append.mp hb with hb | hb
    · by_cases hbt : key b = ⊤
      · rw [hbt]; exact hlt
      · exact h1 b (by rw [← hm₁]; exact List.mem_filter.mpr ⟨hb, by simpa using hbt⟩)
    · have := hn₁ b hb
      have hbt : key b = ⊤ := by simpa using this
      rw [hbt]; exact hlt
  · intro b hb
    by_cases hbt : key b = ⊤
    · rw [hbt]; exact le_top
    · exact h2 b (by rw [← hn₂]; exact List.mem_filter.mpr ⟨hb, by simpa using hbt⟩)

end CtrlVerif.PyMarg
