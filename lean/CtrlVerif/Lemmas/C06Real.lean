/-
Helper lemmas for Props/C06Real.lean: realisations of one transfer function have the same
Markov parameters, and what that means for the discrete-time response from rest.

Route: with `x = 1/s`, `q = det(1 − x A)` (`Matrix.charpolyRev`) and `P = adj(1 − x A)` the identity
`(1 − x A) P = q I` holds in matrices of polynomials; comparing coefficients gives
`P_k = Σ_{i ≤ k} q_i A^(k-i)`, i.e. `q · (D + Σ_j C A^j B x^(j+1)) = q D + x C P B` as formal power
series (`charpolyRev_mul_markovSeries`).  Evaluated at a point `x ≠ 0` with `q(x) ≠ 0` the right
side over `q(x)` is the (unique) value of the transfer matrix at `s = 1/x` (`resp_revNum`).  Two
rational functions that agree at infinitely many points are equal as polynomials identities, hence
as power series, and `K⟦X⟧` is a domain (`series_of_resp`).
-/
import CtrlVerif.Lemmas.SS
import CtrlVerif.Lemmas.TimeResp
import Mathlib.LinearAlgebra.Matrix.Charpoly.Coeff
import Mathlib.RingTheory.PowerSeries.Basic
import Mathlib.RingTheory.PowerSeries.NoZeroDivisors
import Mathlib.Algebra.Polynomial.Roots
import Mathlib.Algebra.BigOperators.Intervals
import CtrlVerif.Lemmas.Convert
import Mathlib.LinearAlgebra.Matrix.Charpoly.Basic

namespace CtrlVerif.C06Real

open Matrix Polynomial TimeResp

variable {K : Type*} [Field K] {σ ι o : Type*} [Fintype σ] [DecidableEq σ]

/-- `adj(1 − X A)`, a matrix of polynomials. -/
noncomputable def revAdj (A : Matrix σ σ K) : Matrix σ σ K[X] :=
  adjugate (1 - (X : K[X]) • A.map C)

theorem revAdj_spec (A : Matrix σ σ K) :
    (1 - (X : K[X]) • A.map C) * revAdj A = A.charpolyRev • (1 : Matrix σ σ K[X]) :=
  mul_adjugate _

/-- the `k`-th coefficient matrix of a matrix of polynomials. -/
noncomputable def coeffMat (P : Matrix σ σ K[X]) (k : ℕ) : Matrix σ σ K := P.map (fun p => p.coeff k)

theorem coeffMat_revAdj_zero (A : Matrix σ σ K) : coeffMat (revAdj A) 0 = 1 := by
  ext i j
  have h := congrArg (fun p : K[X] => p.coeff 0) (congrFun (congrFun (revAdj_spec A) i) j)
  simp only [Matrix.mul_apply, Matrix.sub_apply, Matrix.smul_apply, Matrix.map_apply, smul_eq_mul,
    sub_mul, Matrix.one_apply, ite_mul, one_mul, zero_mul, Finset.sum_sub_distrib,
    Finset.sum_ite_eq, Finset.mem_univ, if_true, coeff_sub, finsetSum_coeff, mul_assoc,
    coeff_X_mul_zero, Finset.sum_const_zero, sub_zero, mul_ite, mul_one, mul_zero] at h
  rw [coeffMat, Matrix.map_apply, h]
  split <;> simp [Matrix.one_apply, *, coeff_zero_eq_eval_zero]

theorem coeffMat_revAdj_succ (A : Matrix σ σ K) (k : ℕ) :
    coeffMat (revAdj A) (k + 1) = A * coeffMat (revAdj A) k + A.charpolyRev.coeff (k + 1) • 1 := by
  ext i j
  have h := congrArg (fun p : K[X] => p.coeff (k + 1)) (congrFun (congrFun (revAdj_spec A) i) j)
  simp only [Matrix.mul_apply, Matrix.sub_apply, Matrix.smul_apply, Matrix.map_apply, smul_eq_mul,
    sub_mul, Matrix.one_apply, ite_mul, one_mul, zero_mul, Finset.sum_sub_distrib,
    Finset.sum_ite_eq, Finset.mem_univ, if_true, coeff_sub, finsetSum_coeff, mul_assoc,
    coeff_X_mul, coeff_C_mul, mul_ite, mul_one, mul_zero] at h
  simp only [coeffMat, Matrix.map_apply, Matrix.add_apply, Matrix.mul_apply, Matrix.smul_apply,
    Matrix.one_apply, smul_eq_mul, mul_ite, mul_one, mul_zero]
  rw [sub_eq_iff_eq_add] at h
  rw [h]
  split <;> simp [add_comm]


theorem coeffMat_revAdj (A : Matrix σ σ K) (k : ℕ) :
    coeffMat (revAdj A) k = ∑ i ∈ Finset.range (k + 1), A.charpolyRev.coeff i • A ^ (k - i) := by
  induction k with
  | zero => simp [coeffMat_revAdj_zero, coeff_zero_eq_eval_zero]
  | succ k ih =>
    rw [coeffMat_revAdj_succ, ih, Finset.sum_range_succ _ (k + 1), Finset.mul_sum]
    simp only [Nat.sub_self, pow_zero]
    congr 1
    apply Finset.sum_congr rfl
    intro i hi
    have : k + 1 - i = (k - i) + 1 := by have := Finset.mem_range.mp hi; omega
    rw [this, pow_succ', Matrix.mul_smul]

variable [Fintype ι]

/-- the Markov parameters of a system, the direct term in front: `D, C B, C A B, C A² B, …`. -/
def markov (G : SS σ ι o K) : ℕ → Matrix o ι K
  | 0 => G.D
  | j + 1 => G.C * G.A ^ j * G.B

/-- entry `(a, b)` of the polynomial matrix `q D + X C adj(1 − X A) B`, `q = det(1 − X A)`. -/
noncomputable def revNum (G : SS σ ι o K) (a : o) (b : ι) : K[X] :=
  G.A.charpolyRev * C (G.D a b) + X * (G.C.map C * revAdj G.A * G.B.map C) a b

/-- entry `(a, b)` of the formal series `D + Σ_j C A^j B X^(j+1)`. -/
noncomputable def markovSeries (G : SS σ ι o K) (a : o) (b : ι) : PowerSeries K :=
  PowerSeries.mk fun k => markov G k a b

theorem coeff_sandwich (Cm : Matrix o σ K) (P : Matrix σ σ K[X]) (Bm : Matrix σ ι K) (a : o) (b : ι)
    (k : ℕ) : ((Cm.map C * P * Bm.map C) a b).coeff k = (Cm * coeffMat P k * Bm) a b := by
  simp only [Matrix.mul_apply, Matrix.map_apply, finsetSum_coeff, coeff_mul_C, coeff_C_mul,
    Finset.sum_mul, coeffMat]

theorem charpolyRev_mul_markovSeries (G : SS σ ι o K) (a : o) (b : ι) :
    (G.A.charpolyRev : PowerSeries K) * markovSeries G a b = (revNum G a b : PowerSeries K) := by
  ext k
  rw [PowerSeries.coeff_mul, Polynomial.coeff_coe, Finset.Nat.sum_antidiagonal_eq_sum_range_succ
    (fun i j => (PowerSeries.coeff i) (G.A.charpolyRev : PowerSeries K) *
      (PowerSeries.coeff j) (markovSeries G a b))]
  simp only [Polynomial.coeff_coe, markovSeries, PowerSeries.coeff_mk, revNum, coeff_add,
    coeff_mul_C]
  cases k with
  | zero => simp [markov, coeff_zero_eq_eval_zero]
  | succ k =>
    rw [Finset.sum_range_succ, Nat.sub_self, coeff_X_mul, coeff_sandwich, coeffMat_revAdj, add_comm]
    congr 1
    simp only [Matrix.mul_sum, Matrix.sum_mul, Matrix.sum_apply, Matrix.mul_smul, Matrix.smul_mul,
      Matrix.smul_apply, smul_eq_mul]
    apply Finset.sum_congr rfl
    intro i hi
    have : k + 1 - i = (k - i) + 1 := by have := Finset.mem_range.mp hi; omega
    rw [this]
    rfl


theorem revAdj_eval (A : Matrix σ σ K) (x : K) :
    (1 - x • A) * (revAdj A).map (eval x) = eval x A.charpolyRev • (1 : Matrix σ σ K) := by
  have h := congrArg (fun M : Matrix σ σ K[X] => M.map (evalRingHom x)) (revAdj_spec A)
  simp only [Matrix.map_mul] at h
  rw [show (A.charpolyRev • (1 : Matrix σ σ K[X])).map (evalRingHom x)
      = eval x A.charpolyRev • (1 : Matrix σ σ K) by
    ext i j; by_cases hij : i = j <;> simp [Matrix.one_apply, hij]] at h
  rw [← h]
  congr 1
  ext i j
  by_cases hij : i = j <;> simp [Matrix.one_apply, hij, mul_comm x]

/-- off the zeros of `x · det(1 − x A)` the point `s = 1/x` is not an eigenvalue of `A` … -/
theorem isUnit_of_charpolyRev (A : Matrix σ σ K) (x : K) (hx : x ≠ 0)
    (hq : eval x A.charpolyRev ≠ 0) : IsUnit (x⁻¹ • (1 : Matrix σ σ K) - A) := by
  rw [Matrix.isUnit_iff_isUnit_det]
  apply Matrix.isUnit_det_of_right_inverse
    (B := (x / eval x A.charpolyRev) • (revAdj A).map (eval x))
  have : x⁻¹ • (1 : Matrix σ σ K) - A = x⁻¹ • (1 - x • A) := by
    rw [smul_sub, smul_smul, inv_mul_cancel₀ hx, one_smul]
  rw [this, Matrix.smul_mul, Matrix.mul_smul, revAdj_eval, smul_smul, smul_smul]
  have : x⁻¹ * (x / eval x A.charpolyRev) * eval x A.charpolyRev = 1 := by field_simp
  rw [this, one_smul]

/-- … and the system responds there with `(q D + x C adj(1 − x A) B)(x) / q(x)`. -/
theorem resp_revNum (G : SS σ ι o K) (x : K) (hx : x ≠ 0) (hq : eval x G.A.charpolyRev ≠ 0) :
    G.Resp x⁻¹ (fun a b => eval x (revNum G a b) / eval x G.A.charpolyRev) := by
  refine ⟨(x / eval x G.A.charpolyRev) • ((revAdj G.A).map (eval x) * G.B), ?_, ?_⟩
  · have : x⁻¹ • (1 : Matrix σ σ K) - G.A = x⁻¹ • (1 - x • G.A) := by
      rw [smul_sub, smul_smul, inv_mul_cancel₀ hx, one_smul]
    rw [this, Matrix.smul_mul, Matrix.mul_smul, ← Matrix.mul_assoc, revAdj_eval, smul_smul,
      Matrix.smul_mul, smul_smul, Matrix.one_mul]
    have : x⁻¹ * (x / eval x G.A.charpolyRev) * eval x G.A.charpolyRev = 1 := by field_simp
    rw [this, one_smul]
  · ext a b
    have hN : eval x ((G.C.map C * revAdj G.A * G.B.map C) a b)
        = (G.C * (revAdj G.A).map (eval x) * G.B) a b := by
      simp only [Matrix.mul_apply, Matrix.map_apply, eval_finsetSum, eval_mul, eval_C,
        Finset.sum_mul]
    simp only [revNum, eval_add, eval_mul, eval_C, eval_X, hN, Matrix.add_apply, Matrix.mul_smul,
      Matrix.smul_apply, smul_eq_mul, ← Matrix.mul_assoc]
    field_simp
    ring


theorem charpolyRev_ne_zero (A : Matrix σ σ K) : A.charpolyRev ≠ 0 := by
  intro h
  have := Matrix.eval_charpolyRev (M := A)
  rw [h] at this
  simp at this

/-- **identification of a rational function with a realisation.**  If off a finite set `S` the entry
`(a, b)` of the transfer matrix of `G` at `s = 1/x` is `nt(x)/dt(x)` (`nt, dt` polynomials in
`x = 1/s`), then `dt · (D + Σ_j C A^j B x^(j+1))_{ab} = nt` as formal power series. -/
theorem series_of_resp [Infinite K] (G : SS σ ι o K) (a : o) (b : ι) (nt dt : K[X]) (hdt : dt ≠ 0)
    (S : Set K) (hS : S.Finite)
    (h : ∀ x, x ∉ S → x ≠ 0 → eval x G.A.charpolyRev ≠ 0 → eval x dt ≠ 0 →
      ∃ Y, G.Resp x⁻¹ Y ∧ Y a b * eval x dt = eval x nt) :
    (dt : PowerSeries K) * markovSeries G a b = (nt : PowerSeries K) := by
  have hq0 : G.A.charpolyRev ≠ 0 := charpolyRev_ne_zero G.A
  have hbad : (S ∪ {x | IsRoot (X * G.A.charpolyRev * dt) x}).Finite :=
    hS.union (Polynomial.finite_setOfPred_isRoot (mul_ne_zero (mul_ne_zero X_ne_zero hq0) hdt))
  have hF : dt * revNum G a b - G.A.charpolyRev * nt = 0 := by
    apply Polynomial.eq_zero_of_infinite_isRoot
    refine hbad.infinite_compl.mono ?_
    intro x hx
    simp only [Set.mem_compl_iff, Set.mem_union, Set.mem_ofPred_eq, IsRoot.def, eval_mul, eval_X,
      mul_eq_zero, not_or] at hx
    obtain ⟨hxS, ⟨hx0, hxq⟩, hxd⟩ := hx
    obtain ⟨Y, hY, hYab⟩ := h x hxS hx0 hxq hxd
    have hYe := SS.Resp.unique (isUnit_of_charpolyRev G.A x hx0 hxq) hY (resp_revNum G x hx0 hxq)
    rw [hYe] at hYab
    simp only [Set.mem_ofPred_eq, IsRoot.def, eval_sub, eval_mul]
    rw [← hYab]
    field_simp
    ring
  have hF' : dt * revNum G a b = G.A.charpolyRev * nt := sub_eq_zero.mp hF
  have hqs : (G.A.charpolyRev : PowerSeries K) ≠ 0 := by
    intro h0
    exact hq0 (Polynomial.coe_injective K (by simpa using h0))
  apply mul_left_cancel₀ hqs
  rw [← mul_assoc, mul_comm (G.A.charpolyRev : PowerSeries K), mul_assoc,
    charpolyRev_mul_markovSeries, ← Polynomial.coe_mul, ← Polynomial.coe_mul, hF']


theorem coe_charpolyRev_ne_zero (A : Matrix σ σ K) : (A.charpolyRev : PowerSeries K) ≠ 0 := by
  intro h0
  exact charpolyRev_ne_zero A (Polynomial.coe_injective K (by simpa using h0))

/-- two systems whose transfer matrices agree off a finite set (where both are defined) have the
same direct term and the same Markov parameters. -/
theorem markov_eq_of_resp [Infinite K] {σ' : Type*} [Fintype σ'] [DecidableEq σ']
    (G : SS σ ι o K) (G' : SS σ' ι o K) (S : Set K) (hS : S.Finite)
    (h : ∀ s, s ∉ S → IsUnit (s • (1 : Matrix σ σ K) - G.A) →
      IsUnit (s • (1 : Matrix σ' σ' K) - G'.A) → ∃ Y, G.Resp s Y ∧ G'.Resp s Y) (k : ℕ) :
    markov G k = markov G' k := by
  ext a b
  have h1 := series_of_resp G a b (revNum G' a b) G'.A.charpolyRev (charpolyRev_ne_zero _)
    ((fun x : K => x⁻¹) ⁻¹' S) (hS.preimage (inv_injective.injOn)) (by
      intro x hxS hx0 hxq hxq'
      obtain ⟨Y, hY, hY'⟩ := h x⁻¹ hxS (isUnit_of_charpolyRev G.A x hx0 hxq)
        (isUnit_of_charpolyRev G'.A x hx0 hxq')
      refine ⟨Y, hY, ?_⟩
      rw [SS.Resp.unique (isUnit_of_charpolyRev G'.A x hx0 hxq') hY' (resp_revNum G' x hx0 hxq')]
      field_simp)
  rw [← charpolyRev_mul_markovSeries] at h1
  have h2 := mul_left_cancel₀ (coe_charpolyRev_ne_zero G'.A) h1
  have h3 := congrArg (PowerSeries.coeff k) h2
  simpa [markovSeries] using h3

/-! ### time domain -/

/-- variation of constants: `x[k] = A^k x0 + Σ_{j<k} A^j B u[k-1-j]`. -/
theorem dStates_conv (G : SS σ ι o K) (x0 : σ → K) (us : List (ι → K)) (k : ℕ)
    (hk : k < us.length) :
    (dStates G x0 us)[k]? = some ((G.A ^ k) *ᵥ x0 +
      ∑ j ∈ Finset.range k, (G.A ^ j * G.B) *ᵥ us.getD (k - 1 - j) 0) := by
  induction us generalizing x0 k with
  | nil => simp at hk
  | cons u us ih =>
    cases k with
    | zero => simp [dStates]
    | succ k =>
      simp only [dStates, List.getElem?_cons_succ]
      rw [ih _ k (by simpa using hk), Finset.sum_range_succ]
      simp only [next, Matrix.mulVec_add, Matrix.mulVec_mulVec, ← pow_succ, Nat.add_sub_cancel,
        Nat.sub_self, List.getD_cons_zero, ← Matrix.mul_assoc]
      rw [add_assoc, add_comm ((G.A ^ k * G.B) *ᵥ u)]
      congr 2
      congr 1
      apply Finset.sum_congr rfl
      intro j hj
      have : k - j = (k - 1 - j) + 1 := by have := Finset.mem_range.mp hj; omega
      rw [this, List.getD_cons_succ]

/-- the output from rest is the convolution of the input with `D, C B, C A B, …`. -/
theorem outputs_conv (G : SS σ ι o K) (us : List (ι → K)) (k : ℕ) (hk : k < us.length) :
    (outputs G (dStates G 0 us) us)[k]? =
      some (∑ j ∈ Finset.range (k + 1), markov G j *ᵥ us.getD (k - j) 0) := by
  rw [outputs, List.getElem?_zipWith, dStates_conv G 0 us k hk, List.getElem?_eq_getElem hk]
  simp only [Option.map₂_some_some, out, Matrix.mulVec_zero, zero_add, Matrix.mulVec_sum,
    Matrix.mulVec_mulVec]
  rw [Finset.sum_range_succ']
  simp only [markov, Nat.sub_zero, Option.some.injEq]
  congr 1
  · apply Finset.sum_congr rfl
    intro j hj
    rw [← Matrix.mul_assoc, Nat.sub_sub, add_comm 1 j]
  · simp [List.getD_eq_getElem?_getD, List.getElem?_eq_getElem hk]

end CtrlVerif.C06Real

/-! ### long division, realisations of `b/a` -/

namespace CtrlVerif.C06Real

open Matrix Polynomial TimeResp

section LongDivision

variable {K : Type*} [Field K]

/-- the first `k` terms, newest first, of the impulse-response sequence of `b/a` obtained by long
division in `1/s`: `a₀ h_k = b_k − Σ_{i=1..k} a_i h_{k-i}`. -/
def impulseList (a b : ℕ → K) : ℕ → List K
  | 0 => []
  | k + 1 =>
    let l := impulseList a b k
    (b k - ((List.range k).map fun i => a (i + 1) * l.getD i 0).sum) / a 0 :: l

/-- the `k`-th term of the long division of `b` by `a`. -/
def impulseSeq (a b : ℕ → K) (k : ℕ) : K := (impulseList a b (k + 1)).headD 0

theorem list_range_sum {M : Type*} [AddCommMonoid M] (f : ℕ → M) (k : ℕ) :
    ((List.range k).map f).sum = ∑ i ∈ Finset.range k, f i := by
  induction k with
  | zero => simp
  | succ k ih => simp [List.range_succ, Finset.sum_range_succ, ih]

theorem impulseList_getD (a b : ℕ → K) (k i : ℕ) (hi : i < k) :
    (impulseList a b k).getD i 0 = impulseSeq a b (k - 1 - i) := by
  induction k generalizing i with
  | zero => omega
  | succ k ih =>
    cases i with
    | zero => simp [impulseSeq, impulseList]
    | succ i =>
      rw [impulseList]
      simp only [List.getD_cons_succ]
      rw [ih i (by omega)]
      congr 1
      omega

theorem impulseSeq_eq (a b : ℕ → K) (k : ℕ) :
    impulseSeq a b k =
      (b k - ∑ i ∈ Finset.range k, a (i + 1) * impulseSeq a b (k - 1 - i)) / a 0 := by
  rw [impulseSeq, impulseList]
  simp only [List.headD_cons, list_range_sum]
  congr 2
  apply Finset.sum_congr rfl
  intro i hi
  rw [impulseList_getD a b k i (Finset.mem_range.mp hi)]

theorem impulseSeq_spec (a b : ℕ → K) (ha : a 0 ≠ 0) (k : ℕ) :
    ∑ i ∈ Finset.range (k + 1), a i * impulseSeq a b (k - i) = b k := by
  rw [Finset.sum_range_succ', Nat.sub_zero]
  conv_lhs => rw [impulseSeq_eq]
  have e : ∑ i ∈ Finset.range k, a (i + 1) * impulseSeq a b (k - (i + 1))
      = ∑ i ∈ Finset.range k, a (i + 1) * impulseSeq a b (k - 1 - i) :=
    Finset.sum_congr rfl fun i _ => by rw [show k - (i + 1) = k - 1 - i by omega]
  rw [e]
  field_simp
  ring

theorem impulseSeq_unique (a b : ℕ → K) (ha : a 0 ≠ 0) (h : ℕ → K)
    (hs : ∀ k, ∑ i ∈ Finset.range (k + 1), a i * h (k - i) = b k) (k : ℕ) :
    h k = impulseSeq a b k := by
  induction k using Nat.strong_induction_on with
  | _ k ih =>
    have h1 := hs k
    have h2 := impulseSeq_spec a b ha k
    rw [Finset.sum_range_succ', Nat.sub_zero] at h1 h2
    have h3 : ∑ i ∈ Finset.range k, a (i + 1) * h (k - (i + 1))
        = ∑ i ∈ Finset.range k, a (i + 1) * impulseSeq a b (k - (i + 1)) := by
      apply Finset.sum_congr rfl
      intro i hi
      rw [ih (k - (i + 1)) (by have := Finset.mem_range.mp hi; omega)]
    rw [h3] at h1
    have : a 0 * h k = a 0 * impulseSeq a b k := by
      rw [← add_right_inj (∑ i ∈ Finset.range k, a (i + 1) * impulseSeq a b (k - (i + 1)))]
      rw [h1, h2]
    exact mul_left_cancel₀ ha this


/-- `Σ_{k ≤ n} a_k s^(n-k)`: the polynomial with coefficients `a₀ … a_n`, highest power first
(the same expression as `Convert.psum`). -/
def pval (a : ℕ → K) (n : ℕ) (s : K) : K := ∑ k ∈ Finset.range (n + 1), a k * s ^ (n - k)

/-- the same coefficients read as a polynomial in `x = 1/s`: `Σ_{k ≤ n} a_k x^k`. -/
noncomputable def revPoly (a : ℕ → K) (n : ℕ) : K[X] :=
  ∑ k ∈ Finset.range (n + 1), C (a k) * X ^ k

theorem coeff_revPoly (a : ℕ → K) (n i : ℕ) :
    (revPoly a n).coeff i = if i ≤ n then a i else 0 := by
  simp only [revPoly, finsetSum_coeff, coeff_C_mul, coeff_X_pow, mul_ite, mul_one, mul_zero,
    Finset.sum_ite_eq, Finset.mem_range, Nat.lt_succ_iff]

theorem eval_revPoly (a : ℕ → K) (n : ℕ) (x : K) (hx : x ≠ 0) :
    eval x (revPoly a n) = x ^ n * pval a n x⁻¹ := by
  simp only [revPoly, pval, eval_finsetSum, eval_mul, eval_C, eval_pow, eval_X, Finset.mul_sum]
  apply Finset.sum_congr rfl
  intro k hk
  have hk' : k ≤ n := Nat.lt_succ_iff.mp (Finset.mem_range.mp hk)
  have : x ^ n = x ^ k * x ^ (n - k) := by rw [← pow_add]; congr 1; omega
  rw [this, inv_pow]
  field_simp


variable {σ ι o : Type*} [Fintype σ] [DecidableEq σ] [Fintype ι]

/-- **Markov parameters of a realisation of `b/a`.**  If off a finite set of points the entry
`(i, j)` of the transfer matrix of `G` is `b(s)/a(s)` (coefficients `a₀ … a_n`, `b₀ … b_n`, highest
power first, `a₀ ≠ 0`), then `D_ij, (C B)_ij, (C A B)_ij, …` is the long-division sequence. -/
theorem markov_of_tf [Infinite K] (G : SS σ ι o K) (i : o) (j : ι) (a b : ℕ → K) (n : ℕ)
    (ha0 : a 0 ≠ 0) (ha : ∀ k, n < k → a k = 0) (hb : ∀ k, n < k → b k = 0)
    (S : Set K) (hS : S.Finite)
    (hreal : ∀ s, s ∉ S → pval a n s ≠ 0 → IsUnit (s • (1 : Matrix σ σ K) - G.A) →
      ∃ Y, G.Resp s Y ∧ Y i j = pval b n s / pval a n s) (k : ℕ) :
    markov G k i j = impulseSeq a b k := by
  have hca : ∀ m, (revPoly a n).coeff m = a m := fun m => by
    rw [coeff_revPoly]; split
    · rfl
    · exact (ha m (by omega)).symm
  have hcb : ∀ m, (revPoly b n).coeff m = b m := fun m => by
    rw [coeff_revPoly]; split
    · rfl
    · exact (hb m (by omega)).symm
  have hne : revPoly a n ≠ 0 := by
    intro h0
    have := hca 0
    rw [h0] at this
    exact ha0 (by simpa using this.symm)
  have h1 := series_of_resp G i j (revPoly b n) (revPoly a n) hne
    ((fun x : K => x⁻¹) ⁻¹' S) (hS.preimage (inv_injective.injOn)) (by
      intro x hxS hx0 hxq hxa
      have hpa : pval a n x⁻¹ ≠ 0 := by
        intro h0
        apply hxa
        rw [eval_revPoly a n x hx0, h0, mul_zero]
      obtain ⟨Y, hY, hYij⟩ := hreal x⁻¹ hxS hpa (isUnit_of_charpolyRev G.A x hx0 hxq)
      refine ⟨Y, hY, ?_⟩
      rw [hYij, eval_revPoly a n x hx0, eval_revPoly b n x hx0, div_mul_eq_mul_div,
        div_eq_iff hpa]
      ring)
  refine impulseSeq_unique a b ha0 (fun m => markov G m i j) (fun m => ?_) k
  have h2 := congrArg (PowerSeries.coeff m) h1
  rw [PowerSeries.coeff_mul, Finset.Nat.sum_antidiagonal_eq_sum_range_succ
    (fun p q => (PowerSeries.coeff p) (revPoly a n : PowerSeries K) *
      (PowerSeries.coeff q) (markovSeries G i j))] at h2
  simpa [Polynomial.coeff_coe, hca, hcb, markovSeries] using h2


omit [Fintype σ] [DecidableEq σ] [Fintype ι] in
/-- associativity of the convolution of sequences (through `K⟦X⟧`). -/
theorem conv_assoc (a h b u : ℕ → K)
    (hs : ∀ k, ∑ i ∈ Finset.range (k + 1), a i * h (k - i) = b k) (k : ℕ) :
    ∑ i ∈ Finset.range (k + 1), a i * (∑ j ∈ Finset.range (k - i + 1), h j * u (k - i - j))
      = ∑ i ∈ Finset.range (k + 1), b i * u (k - i) := by
  have hmul : ∀ (f g : ℕ → K) (m : ℕ), PowerSeries.coeff m (PowerSeries.mk f * PowerSeries.mk g)
      = ∑ i ∈ Finset.range (m + 1), f i * g (m - i) := fun f g m => by
    rw [PowerSeries.coeff_mul, Finset.Nat.sum_antidiagonal_eq_sum_range_succ
      (fun p q => (PowerSeries.coeff p) (PowerSeries.mk f) * (PowerSeries.coeff q) (PowerSeries.mk g))]
    simp
  have h1 : PowerSeries.mk a * PowerSeries.mk h = PowerSeries.mk b := by
    ext m; rw [hmul, hs]; simp
  have h2 : PowerSeries.mk h * PowerSeries.mk u
      = PowerSeries.mk fun m => ∑ j ∈ Finset.range (m + 1), h j * u (m - j) := by
    ext m; rw [hmul]; simp
  have h3 := hmul a (fun m => ∑ j ∈ Finset.range (m + 1), h j * u (m - j)) k
  rw [← h2, ← mul_assoc, h1, hmul] at h3
  exact h3.symm

/-- a SISO system: the output from rest is the convolution of the input with the scalar sequence
`D, C B, C A B, …`. -/
theorem siso_outputs_conv (G : SS σ (Fin 1) (Fin 1) K) (us : List (Fin 1 → K)) (k : ℕ)
    (hk : k < us.length) :
    (outputs G (dStates G 0 us) us)[k]? =
      some (fun _ => ∑ j ∈ Finset.range (k + 1), markov G j 0 0 * us.getD (k - j) 0 0) := by
  rw [outputs_conv G us k hk]
  congr 1
  ext r
  have hr : r = 0 := Subsingleton.elim _ _
  subst hr
  simp [Matrix.mulVec, dotProduct]


end LongDivision

section Ops

variable {K : Type*} [Field K] {σ σ₁ σ₂ ι ι₁ o : Type*} [Fintype σ] [Fintype σ₁] [Fintype σ₂]
  [Fintype ι] [Fintype ι₁]

/-! ### time invariance, causality -/

theorem dStates_shift (G : SS σ ι o K) (d : ℕ) (us : List (ι → K)) :
    dStates G 0 (List.replicate d 0 ++ us) = List.replicate d 0 ++ dStates G 0 us := by
  induction d with
  | zero => simp
  | succ d ih =>
    have h0 : next G 0 0 = 0 := by simp [next]
    simp only [List.replicate_succ, List.cons_append, dStates, h0, ih]

theorem outputs_shift (G : SS σ ι o K) (d : ℕ) (us : List (ι → K)) :
    outputs G (dStates G 0 (List.replicate d 0 ++ us)) (List.replicate d 0 ++ us)
      = List.replicate d 0 ++ outputs G (dStates G 0 us) us := by
  rw [dStates_shift]
  induction d with
  | zero => simp
  | succ d ih =>
    have h0 : out G 0 0 = 0 := by simp [out]
    simp only [List.replicate_succ, List.cons_append, outputs, List.zipWith_cons_cons, h0] at ih ⊢
    rw [ih]

theorem dStates_take (G : SS σ ι o K) (x : σ → K) (us : List (ι → K)) (m : ℕ) :
    dStates G x (us.take m) = (dStates G x us).take m := by
  induction us generalizing x m with
  | nil => simp [dStates]
  | cons u us ih =>
    cases m with
    | zero => simp [dStates]
    | succ m => simp [dStates, ih]

theorem outputs_take (G : SS σ ι o K) (x : σ → K) (us : List (ι → K)) (m : ℕ) :
    outputs G (dStates G x (us.take m)) (us.take m) = (outputs G (dStates G x us) us).take m := by
  rw [dStates_take, outputs, outputs, List.take_zipWith]

/-! ### series connection -/

theorem next_mul (G₁ : SS σ₁ ι₁ o K) (G₂ : SS σ₂ ι ι₁ K) (x₁ : σ₁ → K) (x₂ : σ₂ → K) (u : ι → K) :
    next (SS.mul G₁ G₂) (Sum.elim x₂ x₁) u
      = Sum.elim (next G₂ x₂ u) (next G₁ x₁ (out G₂ x₂ u)) := by
  ext (s | s)
  · simp [next, SS.mul, fromBlocks_mulVec, fromRows_mulVec]
  · simp [next, out, SS.mul, fromBlocks_mulVec, fromRows_mulVec, Matrix.mulVec_add,
      Matrix.mulVec_mulVec, add_comm, add_assoc]

theorem out_mul (G₁ : SS σ₁ ι₁ o K) (G₂ : SS σ₂ ι ι₁ K) (x₁ : σ₁ → K) (x₂ : σ₂ → K) (u : ι → K) :
    out (SS.mul G₁ G₂) (Sum.elim x₂ x₁) u = out G₁ x₁ (out G₂ x₂ u) := by
  simp only [out, SS.mul, fromCols_mulVec_sumElim, Matrix.mulVec_add, Matrix.mulVec_mulVec]
  abel

theorem dStates_mul (G₁ : SS σ₁ ι₁ o K) (G₂ : SS σ₂ ι ι₁ K) (x₁ : σ₁ → K) (x₂ : σ₂ → K)
    (us : List (ι → K)) :
    dStates (SS.mul G₁ G₂) (Sum.elim x₂ x₁) us
      = List.zipWith Sum.elim (dStates G₂ x₂ us)
          (dStates G₁ x₁ (outputs G₂ (dStates G₂ x₂ us) us)) := by
  induction us generalizing x₁ x₂ with
  | nil => rfl
  | cons u us ih =>
    simp only [dStates, outputs, List.zipWith_cons_cons, next_mul, ih]

theorem outputs_mul (G₁ : SS σ₁ ι₁ o K) (G₂ : SS σ₂ ι ι₁ K) (x₁ : σ₁ → K) (x₂ : σ₂ → K)
    (us : List (ι → K)) :
    outputs (SS.mul G₁ G₂) (dStates (SS.mul G₁ G₂) (Sum.elim x₂ x₁) us) us
      = outputs G₁ (dStates G₁ x₁ (outputs G₂ (dStates G₂ x₂ us) us))
          (outputs G₂ (dStates G₂ x₂ us) us) := by
  induction us generalizing x₁ x₂ with
  | nil => rfl
  | cons u us ih =>
    simp only [dStates, outputs, List.zipWith_cons_cons, next_mul, out_mul] at ih ⊢
    rw [ih]


end Ops

section StepImpulse

variable {K : Type*} [Field K] {σ ι o : Type*} [Fintype σ] [DecidableEq σ] [Fintype ι]

/-- from rest, input `v, 0, 0, …`: the outputs are `D v, C B v, C A B v, …`. -/
theorem impulse_outputs (G : SS σ ι o K) (v : ι → K) (N k : ℕ) (hk : k < N + 1) :
    (outputs G (dStates G 0 (v :: List.replicate N 0)) (v :: List.replicate N 0))[k]?
      = some (markov G k *ᵥ v) := by
  rw [outputs_conv G _ k (by simpa using hk), Finset.sum_eq_single k]
  · simp
  · intro j hj hne
    have hj' : j < k := by have := Finset.mem_range.mp hj; omega
    obtain ⟨m, hm⟩ : ∃ m, k - j = m + 1 := ⟨k - j - 1, by omega⟩
    rw [hm, List.getD_cons_succ]
    have : (List.replicate N (0 : ι → K)).getD m 0 = 0 := by
      rw [List.getD_eq_getElem?_getD, List.getElem?_replicate]
      split <;> rfl
    rw [this, Matrix.mulVec_zero]
  · intro h; exact absurd (Finset.mem_range.mpr (Nat.lt_succ_self k)) h

/-- from rest, constant input `v`: the outputs are the partial sums `Σ_{j ≤ k} H_j v`. -/
theorem step_outputs (G : SS σ ι o K) (v : ι → K) (N k : ℕ) (hk : k < N) :
    (outputs G (dStates G 0 (List.replicate N v)) (List.replicate N v))[k]?
      = some (∑ j ∈ Finset.range (k + 1), markov G j *ᵥ v) := by
  rw [outputs_conv G _ k (by simpa using hk)]
  congr 1
  apply Finset.sum_congr rfl
  intro j hj
  have : (List.replicate N v).getD (k - j) 0 = v := by
    rw [List.getD_eq_getElem?_getD, List.getElem?_replicate, if_pos (by omega)]
    rfl
  rw [this]

/-- partial sums of the impulse response. -/
theorem impulse_partial_sums (G : SS σ ι o K) (v : ι → K) (N k : ℕ) (hk : k < N + 1) :
    ((outputs G (dStates G 0 (v :: List.replicate N 0)) (v :: List.replicate N 0)).take (k + 1)).sum
      = ∑ j ∈ Finset.range (k + 1), markov G j *ᵥ v := by
  induction k with
  | zero =>
    have := impulse_outputs G v N 0 hk
    rw [List.take_add_one, this]
    simp
  | succ k ih =>
    rw [List.take_add_one, impulse_outputs G v N (k + 1) hk, List.sum_append, ih (by omega),
      Finset.sum_range_succ _ (k + 1)]
    simp


end StepImpulse

/-! ### coefficient lists of the code -/

section Lists

open CtrlVerif.Convert

variable {K : Type} [Field K] [DecidableEq K]

/-- the denominator coefficients as `scipy.signal.normalize` prepares them (leading zeros
stripped), highest power first, `0` beyond the end. -/
def denSeq (den : List K) : ℕ → K := fun k => (den.dropWhile (· = 0)).getD k 0

/-- the numerator coefficients left-padded to the length of the stripped denominator. -/
def numSeq (num den : List K) : ℕ → K :=
  fun k => (padLeft (den.dropWhile (· = 0)).length num).getD k 0

/-- the impulse-response sequence of the transfer function `num/den` (coefficient lists as in
the code): long division of `num` by `den`. -/
def tfImpulse (num den : List K) : ℕ → K := impulseSeq (denSeq den) (numSeq num den)

theorem pval_eq_psum (a : ℕ → K) (n : ℕ) (s : K) : pval a n s = psum a n s := rfl

theorem denSeq_zero (den : List K) (a0 : K) (ar : List K)
    (h : den.dropWhile (· = 0) = a0 :: ar) : denSeq den 0 = a0 ∧ a0 ≠ 0 := by
  refine ⟨by simp [denSeq, h], ?_⟩
  have hne : List.dropWhile (fun x => decide (x = 0)) den ≠ [] := by rw [h]; simp
  have := List.head_dropWhile_not (fun x : K => decide (x = 0)) hne
  simp only [h, List.head_cons, decide_eq_false_iff_not] at this
  exact this

theorem denSeq_high (den : List K) (a0 : K) (ar : List K)
    (h : den.dropWhile (· = 0) = a0 :: ar) (k : ℕ) (hk : ar.length < k) : denSeq den k = 0 := by
  simp only [denSeq, h]
  rw [List.getD_eq_getElem?_getD, List.getElem?_eq_none (by simp; omega)]
  rfl

theorem numSeq_high (num den : List K) (a0 : K) (ar : List K)
    (h : den.dropWhile (· = 0) = a0 :: ar) (hp : num.length ≤ ar.length + 1) (k : ℕ)
    (hk : ar.length < k) : numSeq num den k = 0 := by
  simp only [numSeq, h]
  rw [List.getD_eq_getElem?_getD, List.getElem?_eq_none (by rw [length_padLeft]; simp; omega)]
  rfl

theorem polyval_den (den : List K) (a0 : K) (ar : List K)
    (h : den.dropWhile (· = 0) = a0 :: ar) (s : K) :
    polyval den s = pval (denSeq den) ar.length s := by
  have e : denSeq den = fun k => (a0 :: ar).getD k 0 := by funext k; simp only [denSeq, h]
  rw [← polyval_dropWhile_zero, h, polyval_eq_psum, pval_eq_psum, e]

theorem polyval_num (num den : List K) (a0 : K) (ar : List K)
    (h : den.dropWhile (· = 0) = a0 :: ar) (hp : num.length ≤ ar.length + 1) (s : K) :
    polyval num s = pval (numSeq num den) ar.length s := by
  obtain ⟨c, p, hL⟩ := List.exists_cons_of_length_eq_add_one
    (l := padLeft (ar.length + 1) num) (n := ar.length) (by rw [length_padLeft]; omega)
  have hpl : p.length = ar.length := by
    have := congrArg List.length hL
    rw [length_padLeft] at this
    simp only [List.length_cons] at this
    omega
  have e : numSeq num den = fun k => (c :: p).getD k 0 := by
    funext k; simp only [numSeq, h, List.length_cons, hL]
  rw [← polyval_padLeft (ar.length + 1) num, hL, polyval_eq_psum, hpl, pval_eq_psum, e]

end Lists

/-! ### the executable model: unit-row inputs, decimation factor 1 -/

section ExecHelpers

variable {K : Type*} [Field K] {σ σ' ι o : Type*} [Fintype σ] [DecidableEq σ] [Fintype σ']
  [DecidableEq σ']

theorem resp_iff_of_common {K : Type*} [Field K] {σ σ' ι o : Type*} [Fintype σ] [DecidableEq σ]
    [Fintype σ'] [DecidableEq σ'] {G : SS σ ι o K} {G' : SS σ' ι o K} {s : K}
    (hu : IsUnit (s • (1 : Matrix σ σ K) - G.A)) (hu' : IsUnit (s • (1 : Matrix σ' σ' K) - G'.A))
    {Y0 : Matrix o ι K} (h : G.Resp s Y0) (h' : G'.Resp s Y0) (Y : Matrix o ι K) :
    G.Resp s Y ↔ G'.Resp s Y :=
  ⟨fun hY => by rw [SS.Resp.unique hu hY h]; exact h',
   fun hY => by rw [SS.Resp.unique hu' hY h']; exact h⟩


end ExecHelpers

/-- the input `forced_response` builds from `unitRow m N i c0 c`. -/
def unitInput (m N i : ℕ) (c0 c : ℚ) : List (Vector ℚ m) :=
  (List.range N).map fun j =>
    Vector.ofFn fun r : Fin m => if r.val = i then (if j = 0 then c0 else c) else 0

theorem forced_unitRow (G : DSS ℚ) (T : List ℚ) (i : ℕ) (c0 c dt : ℚ) (hg : gridStep T = .ok dt)
    (hd : G.dt ≠ .cont) (hinc : decimation G.dt dt = .ok 1) :
    forced G (some T) (unitRow G.m T.length i c0 c) (.scalar 0) none =
      .ok ⟨T, (simDiscreteV G.sys 1 (Vector.replicate G.n 0) (unitInput G.m T.length i c0 c)).1,
        (simDiscreteV G.sys 1 (Vector.replicate G.n 0) (unitInput G.m T.length i c0 c)).2,
        unitInput G.m T.length i c0 c⟩ := by
  obtain ⟨n, p, m, sys, d⟩ := G
  simp only at hd hinc ⊢
  have hu : convertU m T.length (unitRow m T.length i c0 c) = .ok (unitInput m T.length i c0 c) := by
    simp [convertU, unitRow, unitInput]
  cases d with
  | cont => exact absurd rfl hd
  | none => simp [forced, timeVector, hg, convertX0, hu, hinc, bind, Except.bind, pure, Except.pure]
  | dtrue => simp [forced, timeVector, hg, convertX0, hu, hinc, bind, Except.bind, pure, Except.pure]
  | disc h => simp [forced, timeVector, hg, convertX0, hu, hinc, bind, Except.bind, pure, Except.pure]


theorem unitInput_step (m N i : ℕ) :
    (unitInput m N i 1 1).map Vector.get
      = List.replicate N (fun r : Fin m => if r.val = i then (1 : ℚ) else 0) := by
  rw [unitInput, List.map_map, List.eq_replicate_iff]
  refine ⟨by simp, ?_⟩
  intro v hv
  obtain ⟨j, _, rfl⟩ := List.mem_map.mp hv
  funext r
  simp

theorem unitInput_impulse (m M i : ℕ) (c0 : ℚ) :
    (unitInput m (M + 1) i c0 0).map Vector.get
      = (c0 • fun r : Fin m => if r.val = i then (1 : ℚ) else 0) :: List.replicate M 0 := by
  rw [unitInput, List.range_succ_eq_map, List.map_cons, List.map_cons, List.map_map, List.map_map]
  congr 1
  · funext r; simp
  · rw [List.eq_replicate_iff]
    refine ⟨by simp, ?_⟩
    intro v hv
    obtain ⟨j, _, rfl⟩ := List.mem_map.mp hv
    funext r
    simp

theorem simDiscreteV_one_outputs {n m p : ℕ} (sys : SS (Fin n) (Fin m) (Fin p) ℚ)
    (us : List (Vector ℚ m)) :
    (simDiscreteV sys 1 (Vector.replicate n 0) us).2.map Vector.get
      = outputs sys (dStates sys 0 (us.map Vector.get)) (us.map Vector.get) := by
  have h := congrArg Prod.snd (simDiscreteV_refines sys 1 (Vector.replicate n 0) us)
  simp only [simDiscrete, interp_one, decimate_one] at h
  rw [h]
  have : (Vector.replicate n (0 : ℚ)).get = 0 := by funext r; simp [Vector.get]
  rw [this]


/-! ### the converse: the Markov parameters determine the transfer matrix (Cayley–Hamilton) -/

section Converse

open Polynomial

variable {K : Type*} [Field K] {σ σ' ι o : Type*} [Fintype σ] [DecidableEq σ] [Fintype σ']
  [DecidableEq σ'] [Fintype ι]

/-- an annihilating polynomial with non-zero constant term yields the inverse as a polynomial. -/
theorem mul_aeval_divX (M : Matrix σ σ K) (P : K[X]) (hP : aeval M P = 0) (h0 : P.coeff 0 ≠ 0) :
    M * aeval M (C (-(P.coeff 0)⁻¹) * divX P) = 1 := by
  have h := congrArg (aeval M) (X_mul_divX_add P)
  rw [hP, map_add, map_mul, aeval_X, aeval_C] at h
  rw [map_mul, aeval_C, Algebra.algebraMap_eq_smul_one, Matrix.smul_mul, Matrix.one_mul,
    Matrix.mul_smul]
  have h' : M * aeval M (divX P) = -(algebraMap K (Matrix σ σ K) (P.coeff 0)) :=
    eq_neg_of_add_eq_zero_left h
  rw [h', Algebra.algebraMap_eq_smul_one, smul_neg, smul_smul, neg_mul, inv_mul_cancel₀ h0]
  simp

theorem charpoly_coeff_zero_ne (M : Matrix σ σ K) (hM : IsUnit M) : M.charpoly.coeff 0 ≠ 0 := by
  intro h0
  have hd := (Matrix.isUnit_iff_isUnit_det M).mp hM
  rw [Matrix.det_eq_sign_charpoly_coeff, h0, mul_zero] at hd
  exact not_isUnit_zero hd

/-- two invertible matrices (of different sizes) have their inverses given by one polynomial. -/
theorem exists_common_inverse_poly (M : Matrix σ σ K) (M' : Matrix σ' σ' K) (hM : IsUnit M)
    (hM' : IsUnit M') : ∃ r : K[X], M * aeval M r = 1 ∧ M' * aeval M' r = 1 := by
  have hc : (M.charpoly * M'.charpoly).coeff 0 ≠ 0 := by
    rw [mul_coeff_zero]
    exact mul_ne_zero (charpoly_coeff_zero_ne M hM) (charpoly_coeff_zero_ne M' hM')
  refine ⟨_, mul_aeval_divX M (M.charpoly * M'.charpoly) ?_ hc,
    mul_aeval_divX M' (M.charpoly * M'.charpoly) ?_ hc⟩
  · rw [map_mul, Matrix.aeval_self_charpoly, zero_mul]
  · rw [map_mul, Matrix.aeval_self_charpoly, mul_zero]

/-- `C f(A) B` is determined by the Markov parameters. -/
theorem sandwich_aeval (G : SS σ ι o K) (G' : SS σ' ι o K)
    (hM : ∀ j : ℕ, G.C * G.A ^ j * G.B = G'.C * G'.A ^ j * G'.B) (f : K[X]) :
    G.C * aeval G.A f * G.B = G'.C * aeval G'.A f * G'.B := by
  rw [aeval_eq_sum_range, aeval_eq_sum_range]
  simp only [Matrix.mul_sum, Matrix.sum_mul, Matrix.mul_smul, Matrix.smul_mul, hM]

end Converse

end CtrlVerif.C06Real
