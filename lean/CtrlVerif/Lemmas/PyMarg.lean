/-
Helper lemmas for the source-text tie of the selection logic of C12 (`Props/C12GenSel*.lean`):
symbolic evaluation of the primitives of `Model/PyMarg.lean`, and the CONTRACTS of the transcendental
parameters (`CabsSpec`, `AngleSpec`, `AngleDegSpec`, `LogSpec`) under which the exact ordering keys of
the hand-written model (`Model/Margins.lean`) order as the floating-point quantities the code compares.
Free to change; the proof obligations are the theorems of the `Props` files.
-/
import CtrlVerif.Model.PyMarg
import CtrlVerif.Lemmas.Margins
import CtrlVerif.Lemmas.PyArith
import Mathlib.Order.WithBot

namespace CtrlVerif.PyMarg

open CtrlVerif CtrlVerif.Margins

/-! ### `Except` plumbing (deliberately not `rfl`-lemmas: see notes/NOTES-py2lean-ss.md) -/

theorem ok_bind' {ε α β : Type} (a : α) (f : α → Except ε β) : (Except.ok a >>= f) = f a := by
  simp only [bind, Except.bind]

theorem pure_bind' {ε α β : Type} (a : α) (f : α → Except ε β) :
    ((pure a : Except ε α) >>= f) = f a := by
  simp only [pure, Except.pure, bind, Except.bind]

theorem error_bind' {ε α β : Type} (e : ε) (f : α → Except ε β) :
    (Except.error e >>= f) = .error e := by
  simp only [bind, Except.bind]

theorem pure_eq_ok' {ε α : Type} (a : α) : (pure a : Except ε α) = .ok a := by
  simp only [pure, Except.pure]

/-! ### boolean masks -/

theorem mask_map_map {α β : Type} (xs : List α) (f : α → β) (p : α → Bool) :
    mask (xs.map f) (xs.map p) = .ok ((xs.filter p).map f) := by
  unfold mask
  simp only [List.length_map, if_true]
  congr 1
  induction xs with
  | nil => rfl
  | cons a l ih =>
    simp only [List.map_cons, List.zip_cons_cons, List.filterMap_cons, List.filter_cons]
    by_cases h : p a = true <;> simp [h, ih]

theorem mask_map {α : Type} (xs : List α) (p : α → Bool) :
    mask xs (xs.map p) = .ok (xs.filter p) := by
  have := mask_map_map xs id p
  simpa using this

theorem mask_length_ne {α : Type} (xs : List α) (bs : List Bool) (h : xs.length ≠ bs.length) :
    mask xs bs = .error .indexRange := by
  simp [mask, h]

/-! ### broadcasting -/

theorem zipB_map_map {α β γ δ : Type} (f : β → γ → δ) (g : α → β) (h : α → γ) (xs : List α) :
    zipB f (xs.map g) (xs.map h) = .ok (xs.map fun x => f (g x) (h x)) := by
  unfold zipB
  simp only [List.length_map, if_true]
  congr 1
  induction xs with
  | nil => rfl
  | cons a l ih => simp [ih]

/-! ### `array / scalar` -/

theorem mapM_div {K : Type} [Field K] [DecidableEq K] (xs : List K) (d : K) (hd : d ≠ 0) :
    xs.mapM (fun x => PyArith.div x d) = .ok (xs.map fun x => x / d) :=
  PyArith.mapM_congr_ok _ _ _ (fun x _ => by simp [PyArith.div, hd])

/-! ### argsort and gathering -/

section sort
variable {K : Type} [Field K] [LinearOrder K]

theorem take_map_zipIdx {β : Type} (ys : List β) (T : List (β × Nat))
    (h : ∀ t ∈ T, ys[t.2]? = some t.1) :
    take ys (T.map (·.2)) = .ok (T.map (·.1)) := by
  unfold take
  induction T with
  | nil => rfl
  | cons t T ih =>
    have h1 := h t (by simp)
    have h2 := ih (fun t' ht' => h t' (by simp [ht']))
    simp only [List.map_cons, List.mapM_cons, h1, h2]
    rfl

theorem mem_zipIdx_zip {β : Type} (xs : List K) (ys : List β) (t : (K × β) × Nat)
    (ht : t ∈ (xs.zip ys).zipIdx) : xs[t.2]? = some t.1.1 ∧ ys[t.2]? = some t.1.2 := by
  obtain ⟨⟨x, y⟩, i⟩ := t
  have := List.mem_zipIdx ht
  simp only [Nat.zero_le, Nat.sub_zero, true_and, zero_add] at this
  obtain ⟨hi, he⟩ := this
  simp only [List.length_zip, Nat.lt_min] at hi
  rw [List.getElem_zip] at he
  simp only [Prod.mk.injEq] at he
  constructor
  · rw [List.getElem?_eq_getElem hi.1]; simp [he.1]
  · rw [List.getElem?_eq_getElem hi.2]; simp [he.2]

/-- sorting two parallel arrays by `argsort` of the first one is the stable sort of the list of pairs. -/
theorem take_argsort {β : Type} (xs : List K) (ys : List β) (h : xs.length = ys.length) :
    take xs (argsort xs) = .ok ((sortByW (xs.zip ys)).map (·.1)) ∧
    take ys (argsort xs) = .ok ((sortByW (xs.zip ys)).map (·.2)) := by
  -- the sorted list of (value, payload, position)
  let T := (xs.zip ys).zipIdx
  let le3 : ((K × β) × Nat) → ((K × β) × Nat) → Bool := fun a b => decide (a.1.1 ≤ b.1.1)
  let Ts := T.mergeSort le3
  have hmem : ∀ t ∈ Ts, t ∈ T := fun t ht => (List.mergeSort_perm T le3).mem_iff.mp ht
  -- argsort
  have h1 : argsort xs = Ts.map (·.2) := by
    unfold argsort
    have e : xs.zipIdx = T.map fun t => (t.1.1, t.2) := by
      apply List.ext_getElem
      · simp [T, h]
      · intro i h1 h2
        simp [T]
    rw [e, ← List.map_mergeSort (r := le3) (f := fun t : (K × β) × Nat => (t.1.1, t.2))
      (fun a _ b _ => rfl)]
    simp [Ts]
  have h2 : sortByW (xs.zip ys) = Ts.map (·.1) := by
    unfold sortByW
    have e : xs.zip ys = T.map (·.1) := by simp [T]
    conv_lhs => rw [e]
    rw [← List.map_mergeSort (r := le3) (f := fun t : (K × β) × Nat => t.1) (fun a _ b _ => rfl)]
  rw [h1, h2]
  constructor
  · have := take_map_zipIdx xs (Ts.map fun t => (t.1.1, t.2)) (by
      intro t ht
      obtain ⟨t', ht', rfl⟩ := List.mem_map.mp ht
      exact (mem_zipIdx_zip xs ys t' (hmem t' ht')).1)
    simpa [List.map_map, Function.comp_def] using this
  · have := take_map_zipIdx ys (Ts.map fun t => (t.1.2, t.2)) (by
      intro t ht
      obtain ⟨t', ht', rfl⟩ := List.mem_map.mp ht
      exact (mem_zipIdx_zip xs ys t' (hmem t' ht')).2)
    simpa [List.map_map, Function.comp_def] using this

/-- gathering two arrays that are functions of one list by the `argsort` of the first. -/
theorem take_argsort_map {K : Type} [Field K] [LinearOrder K] {α β : Type} (C : List α) (g : α → K) (f : α → β) :
    take (C.map f) (argsort (C.map g)) =
      .ok ((C.mergeSort fun a b => decide (g a ≤ g b)).map f) := by
  have h := (take_argsort (C.map g) (C.map f) (by simp)).2
  rw [h]
  congr 1
  have e : (C.map g).zip (C.map f) = C.map fun c => (g c, f c) := by
    clear h
    induction C with
    | nil => rfl
    | cons a l ih => simp [ih]
  unfold sortByW
  rw [e, ← List.map_mergeSort (r := fun a b => decide (g a ≤ g b)) (f := fun c => (g c, f c))
    (fun a _ b _ => rfl)]
  simp [List.map_map, Function.comp_def]

end sort

/-! ### contracts of the transcendental parameters -/

section contracts
variable {K : Type} [Field K] [LinearOrder K] [IsStrictOrderedRing K]

/-- `np.abs` of a complex number: THE non-negative square root of `re² + im²`. -/
structure CabsSpec (P : Prims K) : Prop where
  nonneg : ∀ z, 0 ≤ P.cabs z
  sq : ∀ z, P.cabs z * P.cabs z = normSq z

/-- `np.angle` (radians) on the part of the plane `_z_filter` keeps: `0 ≤ angle z < π` exactly on
the half plane `im > 0` together with the positive real axis; there it increases as `re/|z|`
decreases (`angKey`), and it is `0` exactly on the positive real axis. -/
structure AngleSpec (P : Prims K) : Prop where
  upper : ∀ z, z ≠ 0 → ((0 ≤ P.angle z ∧ P.angle z < P.pi) ↔ upperHalf z = true)
  mono : ∀ z z', upperHalf z = true → upperHalf z' = true →
    (P.angle z ≤ P.angle z' ↔ angKey z ≤ angKey z')
  pos : ∀ z, upperHalf z = true → (0 < P.angle z ↔ 0 < z.im)

/-- `np.angle(·, deg=True)`: values in `(-180, 180]`; `|angle|` decreases as `pmKey = re·|re|/|z|²`
increases (`arg 0 = 0`). -/
structure AngleDegSpec (P : Prims K) : Prop where
  range : ∀ z, -180 < P.angleDeg z ∧ P.angleDeg z ≤ 180
  abs_anti : ∀ z z', (|P.angleDeg z'| ≤ |P.angleDeg z| ↔ pmKey z ≤ pmKey z')

/-- `np.log` on positive floats: `|log x|` orders as `max x x⁻¹`. -/
structure LogSpec (P : Prims K) : Prop where
  abs_le : ∀ x y, 0 < x → 0 < y → (|P.log x| ≤ |P.log y| ↔ max x x⁻¹ ≤ max y y⁻¹)

theorem CabsSpec.le_iff {P : Prims K} (h : CabsSpec P) (z z' : Cx K) :
    P.cabs z ≤ P.cabs z' ↔ normSq z ≤ normSq z' := by
  rw [← h.sq z, ← h.sq z']
  exact (mul_self_le_mul_self_iff (h.nonneg z) (h.nonneg z'))

theorem CabsSpec.eq_zero_iff {P : Prims K} (h : CabsSpec P) (z : Cx K) :
    P.cabs z = 0 ↔ normSq z = 0 := by
  rw [← h.sq z]; simp

theorem CabsSpec.lt_iff {P : Prims K} (h : CabsSpec P) (z : Cx K) (t : K) (ht : 0 ≤ t) :
    P.cabs z < t ↔ normSq z < t * t := by
  rw [← h.sq z]
  exact (mul_self_lt_mul_self_iff (h.nonneg z) ht)

/-- `abs(abs(z) - 1) < eps` is the model's `inBand`. -/
theorem CabsSpec.inBand_iff {P : Prims K} (h : CabsSpec P) (eps : K) (z : Cx K) :
    decide (|P.cabs z - 1| < eps) = inBand eps z := by
  have h0 := h.nonneg z
  have hs := h.sq z
  unfold inBand
  rw [Bool.eq_iff_iff]
  simp only [decide_eq_true_eq, Bool.and_eq_true, Bool.or_eq_true, abs_lt]
  constructor
  · rintro ⟨h1, h2⟩
    have he : 0 < eps := by linarith
    refine ⟨⟨he, ?_⟩, ?_⟩
    · rw [← hs]; nlinarith
    · by_cases h3 : 1 - eps < 0
      · exact Or.inl h3
      · right; rw [← hs]; nlinarith
  · rintro ⟨⟨he, h2⟩, h3⟩
    constructor
    · rcases h3 with h3 | h3
      · linarith
      · rw [← hs] at h3
        by_contra hc
        have : P.cabs z ≤ 1 - eps := by linarith
        nlinarith
    · rw [← hs] at h2
      by_contra hc
      have : 1 + eps ≤ P.cabs z := by linarith
      nlinarith

end contracts

/-! ### gathering at the `True` positions is masking -/

theorem take_whereTrue_aux {α β : Type} (xs : List α) (v : α → β) (p : α → Bool) (n : Nat)
    (ys : List β) (hys : ∀ i (h : i < xs.length), ys[n + i]? = some (v xs[i])) :
    List.mapM (fun i => match ys[i]? with
        | some v => Except.ok v
        | none => .error Err.indexRange) ((((xs.map p).zipIdx n).filter (·.1)).map (·.2))
      = .ok ((xs.filter p).map v) := by
  induction xs generalizing n with
  | nil => rfl
  | cons a l ih =>
    have h0 := hys 0 (by simp)
    simp only [Nat.add_zero, List.getElem_cons_zero] at h0
    have ih' := ih (n + 1) (fun i h => by
      have := hys (i + 1) (by simpa using h)
      simpa [Nat.add_assoc, Nat.add_comm 1 i] using this)
    simp only [List.map_cons, List.zipIdx_cons, List.filter_cons]
    by_cases hp : p a = true
    · simp only [hp, if_true, List.map_cons, List.mapM_cons, h0, ih']
      rfl
    · simp only [hp, Bool.false_eq_true, if_false, ih']

theorem take_whereTrue_map {α β : Type} (xs : List α) (v : α → β) (p : α → Bool) :
    take (xs.map v) (whereTrue (xs.map p)) = .ok ((xs.filter p).map v) := by
  unfold take whereTrue
  exact take_whereTrue_aux xs v p 0 (xs.map v) (fun i h => by simp [h])


namespace XF
variable {K : Type} [Field K] [LinearOrder K]

/-- the position of a non-`nan` value in the order `-inf < finite < inf`. -/
def toOrd : XF K → WithBot (WithTop K)
  | fin x => ((x : WithTop K) : WithBot (WithTop K))
  | pinf => ((⊤ : WithTop K) : WithBot (WithTop K))
  | ninf => ⊥
  | nan => ⊥

theorem le_iff {a b : XF K} (ha : isNan a = false) (hb : isNan b = false) :
    le a b = true ↔ toOrd a ≤ toOrd b := by
  cases a <;> cases b <;> simp_all [le, toOrd, isNan]

theorem beq_iff {a b : XF K} (ha : isNan a = false) (hb : isNan b = false) :
    beq a b = true ↔ toOrd a = toOrd b := by
  cases a <;> cases b <;> simp_all [beq, toOrd, isNan]

theorem toOrd_inj {a b : XF K} (ha : isNan a = false) (hb : isNan b = false)
    (h : toOrd a = toOrd b) : a = b := by
  cases a <;> cases b <;> simp_all [toOrd, isNan]

theorem min_isNan {a b : XF K} (ha : isNan a = false) (hb : isNan b = false) :
    isNan (min a b) = false := by
  unfold min; simp only [ha, hb, Bool.or_self, Bool.false_eq_true, if_false]
  split <;> assumption

theorem toOrd_min {a b : XF K} (ha : isNan a = false) (hb : isNan b = false) :
    toOrd (min a b) = Min.min (toOrd a) (toOrd b) := by
  unfold min; simp only [ha, hb, Bool.or_self, Bool.false_eq_true, if_false]
  by_cases h : le a b = true
  · simp only [h, if_true]; exact (min_eq_left ((le_iff ha hb).mp h)).symm
  · simp only [h, if_false]
    have : ¬ toOrd a ≤ toOrd b := fun h' => h ((le_iff ha hb).mpr h')
    exact (min_eq_right (le_of_lt (lt_of_not_ge this))).symm

theorem min_mem {a b : XF K} (ha : isNan a = false) (hb : isNan b = false) :
    min a b = a ∨ min a b = b := by
  unfold min; simp only [ha, hb, Bool.or_self, Bool.false_eq_true, if_false]
  split <;> simp

end XF

section amin
variable {K : Type} [Field K] [LinearOrder K]

theorem foldl_min_spec (l : List (XF K)) (a : XF K) (ha : XF.isNan a = false)
    (hl : ∀ x ∈ l, XF.isNan x = false) :
    XF.isNan (l.foldl XF.min a) = false ∧ (l.foldl XF.min a) ∈ a :: l ∧
      ∀ x ∈ a :: l, XF.toOrd (l.foldl XF.min a) ≤ XF.toOrd x := by
  induction l generalizing a with
  | nil => simp [ha]
  | cons b l ih =>
    have hb := hl b (by simp)
    have hm := XF.min_isNan ha hb
    obtain ⟨h1, h2, h3⟩ := ih (XF.min a b) hm (fun x hx => hl x (by simp [hx]))
    rw [List.foldl_cons]
    refine ⟨h1, ?_, ?_⟩
    · rcases List.mem_cons.mp h2 with h | h
      · rw [h]
        rcases XF.min_mem ha hb with h' | h' <;> rw [h'] <;> simp
      · simp [h]
    · intro x hx
      have hmin := h3 (XF.min a b) (by simp)
      rw [XF.toOrd_min ha hb] at hmin
      rcases List.mem_cons.mp hx with rfl | hx
      · exact le_trans hmin (min_le_left _ _)
      · rcases List.mem_cons.mp hx with rfl | hx
        · exact le_trans hmin (min_le_right _ _)
        · exact h3 x (by simp [hx])

/-- `np.amin` of a non-empty array without `nan`: an entry that is `≤` every entry. -/
theorem amin_spec (l : List (XF K)) (hne : l ≠ []) (hl : ∀ x ∈ l, XF.isNan x = false) :
    ∃ m, amin l = .ok m ∧ XF.isNan m = false ∧ m ∈ l ∧ ∀ x ∈ l, XF.toOrd m ≤ XF.toOrd x := by
  cases l with
  | nil => exact absurd rfl hne
  | cons a l =>
    obtain ⟨h1, h2, h3⟩ := foldl_min_spec l a (hl a (by simp)) (fun x hx => hl x (by simp [hx]))
    exact ⟨_, rfl, h1, h2, h3⟩

end amin

/-- converse of `argminBy_spec`. -/
theorem argminBy_of_spec {α β : Type*} [LinearOrder β] (key : α → β) (l₁ : List α) (a : α) (l₂ : List α)
    (h1 : ∀ b ∈ l₁, key a < key b) (h2 : ∀ b ∈ l₂, key a ≤ key b) :
    argminBy key (l₁ ++ a :: l₂) = some a := by
  induction l₁ with
  | nil =>
    simp only [List.nil_append, argminBy]
    cases hm : argminBy key l₂ with
    | none => rfl
    | some b =>
      have hb := (argminBy_min key l₂ b hm).1
      simp [h2 b hb]
  | cons c l₁ ih =>
    have := ih (fun b hb => h1 b (by simp [hb]))
    simp only [List.cons_append, argminBy, this]
    have hc := h1 c (by simp)
    simp [not_le.mpr hc]

/-- the first entry whose key equals the minimum is the model's `argminBy`, for any key into a linear
order that compares as the code's key on the list. -/
theorem find_min_eq_argminBy {K : Type} [Field K] [LinearOrder K] {α β : Type} [LinearOrder β]
    (L : List α) (k : α → XF K) (k' : α → β)
    (hnan : ∀ a ∈ L, XF.isNan (k a) = false)
    (hcompat : ∀ a ∈ L, ∀ b ∈ L, (XF.toOrd (k a) ≤ XF.toOrd (k b) ↔ k' a ≤ k' b))
    (a : α) (ha : argminBy k' L = some a) :
    amin (L.map k) = .ok (k a) ∧ L.find? (fun b => XF.beq (k b) (k a)) = some a := by
  obtain ⟨l₁, l₂, rfl, h1, h2⟩ := argminBy_spec k' L a ha
  have haL : a ∈ l₁ ++ a :: l₂ := by simp
  have hmin : ∀ b ∈ l₁ ++ a :: l₂, XF.toOrd (k a) ≤ XF.toOrd (k b) := by
    intro b hb
    rw [hcompat a haL b hb]
    rcases List.mem_append.mp hb with hb | hb
    · exact le_of_lt (h1 b hb)
    · rcases List.mem_cons.mp hb with rfl | hb
      · exact le_refl _
      · exact h2 b hb
  constructor
  · obtain ⟨m, hm, hmn, hmem, hle⟩ := amin_spec ((l₁ ++ a :: l₂).map k) (by simp)
      (fun x hx => by obtain ⟨b, hb, rfl⟩ := List.mem_map.mp hx; exact hnan b hb)
    rw [hm]
    congr 1
    obtain ⟨b, hb, rfl⟩ := List.mem_map.mp hmem
    apply XF.toOrd_inj hmn (hnan a haL)
    exact le_antisymm (hle (k a) (List.mem_map.mpr ⟨a, haL, rfl⟩)) (hmin b hb)
  · rw [List.find?_append]
    have hnone : l₁.find? (fun b => XF.beq (k b) (k a)) = none := by
      rw [List.find?_eq_none]
      intro b hb hbeq
      have hbL : b ∈ l₁ ++ a :: l₂ := by simp [hb]
      have := (XF.beq_iff (hnan b hbL) (hnan a haL)).mp hbeq
      have hle : k' b ≤ k' a := (hcompat b hbL a haL).mp (le_of_eq this)
      exact absurd (h1 b hb) (not_lt.mpr hle)
    rw [hnone]
    simp [(XF.beq_iff (hnan a haL) (hnan a haL)).mpr rfl]


/-! ### pieces of the default (minimum) selection -/

theorem len_ne_zero_iff {β : Type} (L : List β) : (((L.length : Nat) : Int) ≠ 0) ↔ L ≠ [] := by
  cases L with
  | nil => simp
  | cons a l => simp only [List.length_cons, ne_eq, reduceCtorEq, not_false_eq_true, iff_true]; omega

theorem gm_cond_iff {K : Type} [Field K] [LinearOrder K] (L : List (XF K)) :
    ((((L.length : Nat) : Int) ≠ 0) ∧ ¬ ((L.map XF.isInf).all id = true)) ↔
      ∃ x ∈ L, XF.isInf x = false := by
  constructor
  · rintro ⟨_, h⟩
    simp only [List.all_eq_true, List.mem_map, id, forall_exists_index, and_imp,
      forall_apply_eq_imp_iff₂, not_forall] at h
    obtain ⟨x, hx, hn⟩ := h
    exact ⟨x, hx, by simpa using hn⟩
  · rintro ⟨x, hx, hn⟩
    refine ⟨(len_ne_zero_iff L).mpr (by rintro rfl; simp at hx), ?_⟩
    simp only [List.all_eq_true, List.mem_map, id, forall_exists_index, and_imp,
      forall_apply_eq_imp_iff₂, not_forall]
    exact ⟨x, hx, by simp [hn]⟩

theorem first_filter_map_of_find {α β : Type} (L : List α) (p : α → Bool) (v : α → β) (a : α)
    (h : L.find? p = some a) : first ((L.filter p).map v) = .ok (v a) := by
  induction L with
  | nil => simp at h
  | cons b l ih =>
    rw [List.find?_cons] at h
    by_cases hb : p b = true
    · simp only [hb] at h
      cases h
      simp [List.filter_cons, hb, first]
    · simp only [hb] at h
      simp only [List.filter_cons, hb, Bool.false_eq_true, if_false]
      exact ih h

theorem itemW0_tup_where {α β : Type} (L : List α) (p : α → Bool) (v : α → β) :
    itemW0 (L.map v) (.tup (whereTrue (L.map p))) = first ((L.filter p).map v) := by
  simp only [itemW0, take_whereTrue_map]
  rfl

theorem first_filter_map {α β : Type} (L : List α) (p : α → Bool) (v : α → β) :
    first ((L.filter p).map v) =
      (L.find? p).elim (.error .indexRange) (fun a => .ok (v a)) := by
  cases h : L.find? p with
  | some a => simpa using first_filter_map_of_find L p v a h
  | none =>
    rw [List.find?_eq_none] at h
    have : L.filter p = [] := by
      rw [List.filter_eq_nil_iff]; exact h
    simp [this, first]

@[simp] theorem neInt_tup (l : List Nat) (c : Int) : WIdx.neInt (.tup l) c = true := rfl
@[simp] theorem neInt_int (i c : Int) : WIdx.neInt (.int i) c = decide (i ≠ c) := rfl
theorem bound_some {α : Type} (a : α) : bound (some a) = .ok a := rfl
theorem bound_none {α : Type} : bound (none : Option α) = .error .unknownName := rfl

end CtrlVerif.PyMarg
