/-
Helper lemmas for `Props/C07Gen*.lean` (generated function = model): symbolic evaluation of the
primitives of `Model/PyIC.lean` on constructor-form values, inversion of the tokenisation, the
dictionary `{sys.name: i}` as the model's `sysIndex`.  Free to change.
-/
import CtrlVerif.Model.PyIC

namespace CtrlVerif.PyIC

open IC

variable {K : Type}

/-! ### `Except` plumbing -/

@[simp] theorem ok_bind {ε α β : Type} (a : α) (f : α → Except ε β) : (Except.ok a >>= f) = f a := rfl
@[simp] theorem error_bind {ε α β : Type} (e : ε) (f : α → Except ε β) :
    ((Except.error e : Except ε α) >>= f) = Except.error e := rfl
@[simp] theorem pure_eq_ok {ε α : Type} (a : α) : (pure a : Except ε α) = Except.ok a := rfl
@[simp] theorem throw_eq_error {ε α : Type} (e : ε) : (throw e : Except ε α) = Except.error e := rfl
@[simp] theorem map_ok {ε α β : Type} (f : α → β) (a : α) :
    Except.map f (Except.ok a : Except ε α) = Except.ok (f a) := rfl
@[simp] theorem map_error {ε α β : Type} (f : α → β) (e : ε) :
    Except.map f (Except.error e : Except ε α) = Except.error e := rfl

@[simp] theorem mapM_ok {α β : Type} (f : α → β) (l : List α) :
    l.mapM (fun x => (Except.ok (f x) : Except Err β)) = .ok (l.map f) := by
  induction l with
  | nil => rfl
  | cons a l ih => simp [List.mapM_cons, ih]

/-! ### sequences -/

@[simp] theorem seqGet_zero {α : Type} (x : α) (xs : List α) : seqGet (x :: xs) 0 = .ok x := by
  simp [seqGet]

@[simp] theorem seqGet_one {α : Type} (x y : α) (xs : List α) : seqGet (x :: y :: xs) 1 = .ok y := by
  simp [seqGet]

@[simp] theorem seqGet_two {α : Type} (x y z : α) (xs : List α) :
    seqGet (x :: y :: z :: xs) 2 = .ok z := by
  simp [seqGet]

theorem seqGet_ok {α : Type} (xs : List α) (i : Int) (h : ¬(i < 0 ∨ (xs.length : Int) ≤ i)) :
    ∃ x, xs[i.toNat]? = some x ∧ seqGet xs i = .ok x := by
  have h0 : 0 ≤ i := by omega
  have h1 : i.toNat < xs.length := by omega
  refine ⟨xs[i.toNat], by simp [h1], ?_⟩
  have : ¬ i < 0 := by omega
  simp [seqGet, this, h0, h1]

theorem seqGet_natCast {α : Type} (xs : List α) (k : Nat) (x : α) (h : xs[k]? = some x) :
    seqGet xs (k : Int) = .ok x := by
  have : ¬ ((k : Int) < 0) := by omega
  simp [seqGet, this, h]

/-! ### values in constructor form -/

@[simp] theorem isinstance_nil (v : Val K) : isinstance v [] = false := rfl

@[simp] theorem isinstance_int_int (i : Int) (cs : List Cls) :
    isinstance (.int i : Val K) (.int :: cs) = true := by simp [isinstance, isinstance1]
@[simp] theorem isinstance_str_str (s : Str) (cs : List Cls) :
    isinstance (.str s : Val K) (.str :: cs) = true := by simp [isinstance, isinstance1]
@[simp] theorem isinstance_list_list (l : List (Val K)) (cs : List Cls) :
    isinstance (.list l : Val K) (.list :: cs) = true := by simp [isinstance, isinstance1]
@[simp] theorem isinstance_tuple_tuple (l : List (Val K)) (cs : List Cls) :
    isinstance (.tuple l : Val K) (.tuple :: cs) = true := by simp [isinstance, isinstance1]

theorem isinstance_cons (v : Val K) (c : Cls) (cs : List Cls) :
    isinstance v (c :: cs) = (isinstance1 v c || isinstance v cs) := by simp [isinstance]

@[simp] theorem isinstance_none (cs : List Cls) : isinstance (.none : Val K) cs = false := by
  induction cs with
  | nil => rfl
  | cons c cs ih => rw [isinstance_cons, ih]; cases c <;> rfl
@[simp] theorem isinstance_num (x : K) (cs : List Cls) : isinstance (.num x : Val K) cs = false := by
  induction cs with
  | nil => rfl
  | cons c cs ih => rw [isinstance_cons, ih]; cases c <;> rfl
@[simp] theorem isinstance_other (cs : List Cls) : isinstance (.other : Val K) cs = false := by
  induction cs with
  | nil => rfl
  | cons c cs ih => rw [isinstance_cons, ih]; cases c <;> rfl

@[simp] theorem isinstance_int_single (i : Int) (c : Cls) :
    isinstance (.int i : Val K) [c] = decide (c = .int) := by cases c <;> rfl
@[simp] theorem isinstance_str_single (s : Str) (c : Cls) :
    isinstance (.str s : Val K) [c] = decide (c = .str) := by cases c <;> rfl
@[simp] theorem isinstance_list_single (l : List (Val K)) (c : Cls) :
    isinstance (.list l : Val K) [c] = decide (c = .list) := by cases c <;> rfl
@[simp] theorem isinstance_tuple_single (l : List (Val K)) (c : Cls) :
    isinstance (.tuple l : Val K) [c] = decide (c = .tuple) := by cases c <;> rfl

@[simp] theorem isNone_none : isNone (.none : Val K) = true := rfl
@[simp] theorem isNone_int (i : Int) : isNone (.int i : Val K) = false := rfl
@[simp] theorem isNone_num (x : K) : isNone (.num x : Val K) = false := rfl
@[simp] theorem isNone_str (s : Str) : isNone (.str s : Val K) = false := rfl
@[simp] theorem isNone_list (l : List (Val K)) : isNone (.list l : Val K) = false := rfl
@[simp] theorem isNone_tuple (l : List (Val K)) : isNone (.tuple l : Val K) = false := rfl
@[simp] theorem isNone_other : isNone (.other : Val K) = false := rfl

@[simp] theorem toInt_int (i : Int) : toInt (.int i : Val K) = .ok i := rfl

@[simp] theorem len_tuple (l : List (Val K)) : len (.tuple l) = .ok (l.length : Int) := rfl
@[simp] theorem len_list (l : List (Val K)) : len (.list l) = .ok (l.length : Int) := rfl

@[simp] theorem getItem_tuple (l : List (Val K)) (i : Int) : getItem (.tuple l) i = seqGet l i := rfl
@[simp] theorem getItem_list (l : List (Val K)) (i : Int) : getItem (.list l) i = seqGet l i := rfl

@[simp] theorem dropFrom_list (l : List (Val K)) (n : Nat) : dropFrom (.list l) n = .ok (.list (l.drop n)) := rfl
@[simp] theorem dropFrom_str_one (s : Str) : dropFrom (.str s : Val K) 1 = .ok (.str s.tail) := rfl

@[simp] theorem iter_list (l : List (Val K)) : iter (.list l) = .ok l := rfl
@[simp] theorem iter_tuple (l : List (Val K)) : iter (.tuple l) = .ok l := rfl
@[simp] theorem iter_none : iter (.none : Val K) = .error .badArg := rfl

/-- `s[0] == '-'` on a non-empty string is `Str.neg`. -/
theorem checkSign_str (s : Str) (h : s.raw.toList.isEmpty = false) :
    ∃ t : Val K, getItem (.str s) 0 = .ok t ∧ eqLit t "-" = s.neg := by
  cases hl : s.raw.toList with
  | nil => simp [hl] at h
  | cons c cs =>
    refine ⟨.str (Str.ofChar c), ?_, ?_⟩
    · simp [getItem, hl]
    · simp [eqLit, Str.neg, hl, Str.ofChar]

@[simp] theorem toNum_int [Field K] (i : Int) : toNum (.int i : Val K) = .ok (i : K) := rfl
@[simp] theorem toNum_num [Field K] (x : K) : toNum (.num x : Val K) = .ok x := rfl

@[simp] theorem mapM_toInt_comp_int (l : List Int) :
    l.mapM ((toInt : Val K → Except Err Int) ∘ Val.int) = .ok l := by
  induction l with
  | nil => rfl
  | cons i l ih => simp [List.mapM_cons, ih]

theorem mapM_toInt_map_int (l : List Int) :
    (l.map (Val.int : Int → Val K)).mapM toInt = .ok l := by
  simp [List.mapM_map]

@[simp] theorem toInts_ofInts (l : List Int) : toInts (ofInts l : Val K) = .ok l := by
  simp [toInts, ofInts, Except.bind, mapM_toInt_map_int]

@[simp] theorem iter_ofInts (l : List Int) : iter (ofInts l : Val K) = .ok (l.map .int) := rfl
@[simp] theorem isNone_ofInts (l : List Int) : isNone (ofInts l : Val K) = false := rfl
@[simp] theorem optStr_some (x : String) : optStr (some x) = .ok x := rfl

@[simp] theorem toInts_nil : toInts (.list [] : Val K) = .ok [] := rfl
@[simp] theorem toInts_cons_int (j : Int) (l : List (Val K)) :
    toInts (.list (.int j :: l)) = (toInts (.list l)).map (j :: ·) := by
  simp only [toInts, iter_list, Except.bind, List.mapM_cons, toInt_int]
  cases List.mapM toInt l <;> rfl

theorem forM_map_int (is : List Int) (f : Val K → Except Err PUnit) :
    forM (is.map Val.int) f = forM is fun k => f (.int k) := by
  induction is with
  | nil => rfl
  | cons i is ih => simp [List.forM_cons, ih]

/-- a loop that raises on the first element with `p`. -/
theorem forM_guard {α : Type} (is : List α) (p : α → Prop) [DecidablePred p] (e : Err) :
    (forM is fun k => if p k then (Except.error e : Except Err PUnit) else .ok ()) =
      if ∃ k ∈ is, p k then .error e else .ok () := by
  induction is with
  | nil => simp
  | cons i is ih =>
    rw [List.forM_cons, ih]
    by_cases hp : p i
    · simp [hp]
    · simp [hp]

/-- the two ways to write "outside `0 … n-1`" (one normal form for `simp`). -/
theorem range_or_comm (n x : Int) : (n ≤ x ∨ x < 0) ↔ (x < 0 ∨ n ≤ x) := or_comm

@[simp] theorem idxBad_iff (n : Nat) (i : Int) : idxBad n i = true ↔ (i < 0 ∨ (n : Int) ≤ i) := by
  simp [idxBad]

theorem map_toNat_ofNat (l : List Int) (h : ∀ x ∈ l, 0 ≤ x) : (l.map Int.toNat).map Int.ofNat = l := by
  induction l with
  | nil => rfl
  | cons x l ih =>
    have hx := h x (by simp)
    simp only [List.map_cons, Int.ofNat_eq_natCast, List.cons.injEq]
    refine ⟨by omega, ?_⟩
    have := ih fun y hy => h y (by simp [hy])
    simpa using this

@[simp] theorem toInts_list_map_int (l : List Int) : toInts (.list (l.map .int) : Val K) = .ok l :=
  toInts_ofInts l

@[simp] theorem map_ofNat_toNat_comp (q : List Nat) : List.map (Int.toNat ∘ Int.ofNat) q = q := by
  induction q with
  | nil => rfl
  | cons a q ih => simp [ih]

end CtrlVerif.PyIC

namespace CtrlVerif.PyIC

open IC

variable {K : Type}

/-! ### inversion of the tokenisation -/

theorem allInts_eq_some {l : List (Val K)} {is : List Int} (h : allInts l = some is) :
    l = is.map .int := by
  induction l generalizing is with
  | nil => simp [allInts] at h; subst h; rfl
  | cons v l ih =>
    cases v <;> simp [allInts] at h
    obtain ⟨js, hjs, rfl⟩ := h
    simp [ih hjs]

theorem allStrs_eq_some {l : List (Val K)} {ss : List Str} (h : allStrs l = some ss) :
    l = ss.map .str := by
  induction l generalizing ss with
  | nil => simp [allStrs] at h; subst h; rfl
  | cons v l ih =>
    cases v <;> simp [allStrs] at h
    obtain ⟨js, hjs, rfl⟩ := h
    simp [ih hjs]

theorem allInts_map_int (l : List Int) : allInts (l.map (Val.int : Int → Val K)) = some l := by
  induction l with
  | nil => rfl
  | cons i l ih => simp [allInts, ih]

theorem tokSig_ints (l : List Int) : tokSig (.list (l.map .int) : Val K) = some (.idxs l, false) := by
  simp [tokSig, allInts_map_int]

theorem allInts_map_str_cons (s : Str) (ss : List Str) :
    allInts ((s :: ss).map (Val.str : Str → Val K)) = none := rfl

/-- the kinds of value `tokSig` accepts. -/
inductive SigKind (K : Type) : Val K → SigRef × Bool → Prop where
  | all : SigKind K .none (.all, false)
  | idx (j : Int) : SigKind K (.int j) (.idx j, false)
  | idxs (is : List Int) : SigKind K (.list (is.map .int)) (.idxs is, false)
  | name (s : Str) : SigKind K (.str s) (.names [s.tok], s.neg)
  | names (s : Str) (ss : List Str) :
      SigKind K (.list ((s :: ss).map .str)) (.names ((s :: ss).map Str.tok), false)
  | tnames (ss : List Str) : SigKind K (.tuple (ss.map .str)) (.names (ss.map Str.tok), false)

theorem tokSig_kind {b : Val K} {r : SigRef × Bool} (h : tokSig b = some r) : SigKind K b r := by
  cases b with
  | none => simp [tokSig] at h; subst h; exact .all
  | int j => simp [tokSig] at h; subst h; exact .idx j
  | num x => simp [tokSig] at h
  | other => simp [tokSig] at h
  | str s => simp [tokSig] at h; subst h; exact .name s
  | list l =>
    simp only [tokSig] at h
    cases hi : allInts l with
    | some is =>
      simp [hi] at h; subst h
      rw [allInts_eq_some hi]; exact .idxs is
    | none =>
      simp [hi] at h
      obtain ⟨ss, hss, rfl⟩ := h
      have hl := allStrs_eq_some hss
      subst hl
      cases ss with
      | nil => simp [allInts] at hi
      | cons s ss => exact .names s ss
  | tuple l =>
    simp [tokSig] at h
    obtain ⟨ss, hss, rfl⟩ := h
    rw [allStrs_eq_some hss]; exact .tnames ss

/-- the kinds of value `tokGain` accepts: absent, or a number. -/
theorem tokGain_kind [Field K] {c : Val K} {g : Option K} (h : tokGain c = some g) :
    (c = .none ∧ g = none) ∨ (∃ x, g = some x ∧ isNone c = false ∧ toNum c = .ok x) := by
  cases c <;> simp [tokGain] at h
  · exact .inl ⟨rfl, h.symm⟩
  · exact .inr ⟨_, h.symm, rfl, rfl⟩
  · exact .inr ⟨_, h.symm, rfl, rfl⟩

end CtrlVerif.PyIC

namespace CtrlVerif.PyIC

open IC

variable {K : Type} [Field K]

theorem tokTriple_inv {a b c : Val K} {s : Spec K} (h : tokTriple a b c = some s) :
    emptyStr a = false ∧ emptyStr b = false ∧
    ((tokSys a = none ∧ s = .malformed) ∨
     (∃ sys sneg sig gneg g, tokSys a = some (sys, sneg) ∧ tokSig b = some (sig, gneg) ∧
        tokGain c = some g ∧ s = .mk sys sneg sig gneg g)) := by
  unfold tokTriple at h
  cases ha : emptyStr a <;> cases hb : emptyStr b <;> simp [ha, hb] at h
  refine ⟨rfl, rfl, ?_⟩
  cases hs : tokSys a with
  | none => simp [hs] at h; exact .inl ⟨rfl, h.symm⟩
  | some p =>
    obtain ⟨sys, sneg⟩ := p
    simp only [hs] at h
    cases hsig : tokSig b with
    | none => simp [hsig] at h
    | some q =>
      obtain ⟨sig, gneg⟩ := q
      cases hg : tokGain c with
      | none => simp [hsig, hg] at h
      | some g =>
        simp [hsig, hg] at h
        exact .inr ⟨sys, sneg, sig, gneg, g, rfl, rfl, rfl, h.symm⟩

end CtrlVerif.PyIC

namespace CtrlVerif.PyIC

open IC

variable {K : Type}

theorem mapM_str (ss : List Str) :
    (ss.map (Val.str : Str → Val K)).mapM
      (fun x => match x with | .str s => (Except.ok s : Except Err Str) | _ => .error .badArg) = .ok ss := by
  induction ss with
  | nil => rfl
  | cons s ss ih => simp [List.mapM_cons, ih]

@[simp] theorem nameList_str (s : Str) : nameList (.str s : Val K) = .ok [s] := rfl
@[simp] theorem nameList_list (ss : List Str) : nameList (.list (ss.map .str) : Val K) = .ok ss := by
  simp only [nameList]; exact mapM_str ss
@[simp] theorem nameList_tuple (ss : List Str) : nameList (.tuple (ss.map .str) : Val K) = .ok ss := by
  simp only [nameList]; exact mapM_str ss

@[simp] theorem findSignals_str (labels : List Label) (s : Str) :
    findSignals labels (.str s : Val K) = .ok (findVal labels [s.tok]) := rfl
@[simp] theorem findSignals_list (labels : List Label) (ss : List Str) :
    findSignals labels (.list (ss.map .str) : Val K) = .ok (findVal labels (ss.map Str.tok)) := by
  simp [findSignals]
@[simp] theorem findSignals_list_cons (labels : List Label) (s : Str) (ss : List Str) :
    findSignals labels (.list (.str s :: ss.map .str) : Val K)
      = .ok (findVal labels (s.tok :: ss.map Str.tok)) :=
  findSignals_list labels (s :: ss)
@[simp] theorem findSignals_tuple (labels : List Label) (ss : List Str) :
    findSignals labels (.tuple (ss.map .str) : Val K) = .ok (findVal labels (ss.map Str.tok)) := by
  simp [findSignals]

@[simp] theorem allIsinstance_ints (is : List Int) :
    allIsinstance (.list (is.map .int) : Val K) [.int] = .ok true := by
  simp [allIsinstance]
@[simp] theorem allIsinstance_str_cons (s : Str) (l : List (Val K)) :
    allIsinstance (.list (.str s :: l) : Val K) [.int] = .ok false := by
  simp [allIsinstance]

@[simp] theorem tail_tok (s : Str) : s.tail.tok = s.tok := rfl

/-- the two outcomes of `_find_signals`. -/
theorem findVal_cases (labels : List Label) (toks : List NameTok) :
    (IC.findSignals labels toks = none ∧ (findVal labels toks : Val K) = .none) ∨
    (∃ r, IC.findSignals labels toks = some r ∧ (findVal labels toks : Val K) = ofInts (r.map Int.ofNat)) := by
  unfold findVal
  cases IC.findSignals labels toks with
  | none => exact .inl ⟨rfl, rfl⟩
  | some r => exact .inr ⟨r, rfl, rfl⟩

end CtrlVerif.PyIC

namespace CtrlVerif.PyIC

open IC

variable {K : Type}

/-- the dictionary `{sys.name: i}` looked up at a string is the model's `sysIndex` by name. -/
theorem dictGet_names [Field K] [DecidableEq K] (sigs : List SysSig) (s : Str) :
    dictGet (List.map (fun x => (x.2.name, x.1)) (enumerate sigs)) (.str s : Val K)
      = .ok (match sysIndex sigs (.name s.raw) with
             | .ok k => .int (k : Int)
             | .error _ => .none) := by
  simp only [dictGet, sysIndex, enumerate, List.map_map]
  have : List.filter (fun p : String × Int => p.1 == s.raw)
      (List.map ((fun x : Int × SysSig => (x.2.name, x.1)) ∘ fun p : SysSig × Nat => ((p.2 : Int), p.1)) sigs.zipIdx)
      = (List.filter (fun Sk : SysSig × Nat => Sk.1.name == s.raw) sigs.zipIdx).map
          fun Sk => (Sk.1.name, (Sk.2 : Int)) := by
    rw [List.filter_map]
    rfl
  rw [this, List.getLast?_map]
  cases (List.filter (fun Sk : SysSig × Nat => Sk.1.name == s.raw) sigs.zipIdx).getLast? <;> rfl

@[simp] theorem sysIndex_idx [Field K] [DecidableEq K] (sigs : List SysSig) (i : Int) :
    sysIndex sigs (.idx i)
      = if i < 0 ∨ (sigs.length : Int) ≤ i then .error .indexRange else .ok i.toNat := rfl

theorem map_toNat_ofNat' (l : List Int) (n : Nat) (h : ∀ x ∈ l, 0 ≤ x ∧ x < (n : Int)) :
    (l.map Int.toNat).map Int.ofNat = l :=
  map_toNat_ofNat l fun x hx => (h x hx).1

theorem eq_map_ofNat_toNat (l : List Int) (n : Nat) (h : ∀ x ∈ l, 0 ≤ x ∧ x < (n : Int)) :
    l = l.map (Int.ofNat ∘ Int.toNat) := by
  have := map_toNat_ofNat' l n h
  rw [List.map_map] at this
  exact this.symm

/-- the outcomes of a look-up by name. -/
theorem sysIndex_name_cases [Field K] [DecidableEq K] (sigs : List SysSig) (nm : String) :
    sysIndex sigs (.name nm) = .error .unknownName ∨
    ∃ k S, sysIndex sigs (.name nm) = .ok k ∧ sigs[k]? = some S ∧ ¬((k : Int) < 0) ∧ ¬(sigs.length ≤ k)
      ∧ seqGet sigs (k : Int) = .ok S := by
  cases h : sysIndex sigs (.name nm) with
  | error e =>
    left
    simp only [sysIndex] at h
    split at h
    · cases h
    · injection h with h; subst h; rfl
  | ok k =>
    right
    have hk : k < sigs.length := by
      simp only [sysIndex] at h
      split at h
      · next Sk hSk =>
        injection h with h
        subst h
        have hm := List.mem_of_getLast? hSk
        have hm' := (List.mem_filter.mp hm).1
        simpa using List.snd_lt_of_mem_zipIdx hm'
      · cases h
    refine ⟨k, sigs[k], rfl, by simp [hk], by omega, by omega, seqGet_natCast sigs k _ (by simp [hk])⟩

end CtrlVerif.PyIC

/-! ### filling a NumPy array entry by entry = `toMat` of the entry list -/

namespace CtrlVerif.PyIC

open IC

variable {K : Type} [Field K] [DecidableEq K]

theorem toOption_bind {α β : Type} (x : Except Err α) (f : α → Except Err β) :
    (x >>= f).toOption = x.toOption.bind fun a => (f a).toOption := by
  cases x <;> rfl

theorem toOption_ok {α : Type} (a : α) : (Except.ok a : Except Err α).toOption = some a := rfl
theorem toOption_error {α : Type} (e : Err) : (Except.error e : Except Err α).toOption = none := rfl

theorem eq_ok_of_toOption {α : Type} {x : Except Err α} {a : α} (h : x.toOption = some a) : x = .ok a := by
  cases x with
  | error e => cases h
  | ok b => cases h; rfl

theorem toMat_append' (r c : Nat) (es₁ es₂ : List (Entry K)) :
    toMat r c (es₁ ++ es₂) = toMat r c es₁ + toMat r c es₂ := by
  funext i j
  simp [toMat, List.filter_append, List.map_append, List.sum_append]

theorem toMat_nil (r c : Nat) : toMat r c ([] : List (Entry K)) = 0 := by
  funext i j; simp [toMat]

/-- every entry lies inside an `r × c` array. -/
def entriesIn (r c : Nat) (es : List (Entry K)) : Bool :=
  es.all fun e => decide (e.1 < r) && decide (e.2.1 < c)

omit [Field K] [DecidableEq K] in
theorem entriesIn_append (r c : Nat) (es₁ es₂ : List (Entry K)) :
    entriesIn r c (es₁ ++ es₂) = (entriesIn r c es₁ && entriesIn r c es₂) := by
  simp [entriesIn, List.all_append]

/-- what a computation on an `r × c` array does when it adds the entries `spec` describes: it fails
when `spec` fails or an entry lies outside the array, otherwise the entries are accumulated. -/
def addsResult (r c : Nat) (X : Matrix (Fin r) (Fin c) K) : Except Err (List (Entry K)) → Option (PMat K)
  | .ok es => if entriesIn r c es then some ⟨r, c, X + toMat r c es⟩ else none
  | .error _ => none

def Adds (r c : Nat) (comp : PMat K → Except Err (PMat K)) (spec : Except Err (List (Entry K))) : Prop :=
  ∀ X : Matrix (Fin r) (Fin c) K, (comp ⟨r, c, X⟩).toOption = addsResult r c X spec

theorem adds_pure (r c : Nat) : Adds (K := K) r c (fun M => .ok M) (.ok []) := by
  intro X; simp [addsResult, entriesIn, toMat_nil, Except.toOption]

theorem adds_error (r c : Nat) (e e' : Err) : Adds (K := K) r c (fun _ => .error e) (.error e') := by
  intro X; rfl

theorem adds_addAt (r c a b : Nat) (g : K) :
    Adds r c (fun M => addAt M (a : Int) (b : Int) g) (.ok [(a, b, g)]) := by
  intro X
  have h1 : ¬ ((a : Int) < 0) := by omega
  have h2 : ¬ ((b : Int) < 0) := by omega
  by_cases h : a < r ∧ b < c
  · have hc : (0 : Int) ≤ a ∧ (a : Int) < r ∧ (0 : Int) ≤ b ∧ (b : Int) < c := by omega
    simp only [addAt, h1, h2, if_false, hc, and_self, if_true, Except.toOption, addsResult, entriesIn,
      List.all_cons, List.all_nil, h.1, h.2, decide_true, Bool.and_self, Option.some.injEq]
    congr 1
    funext p q
    simp only [Int.toNat_natCast, Matrix.add_apply, toMat, List.filter_cons, List.filter_nil]
    by_cases hpq : p.val = a ∧ q.val = b
    · simp [hpq.1, hpq.2]
    · have : ¬ (a = p.val ∧ b = q.val) := fun hh => hpq ⟨hh.1.symm, hh.2.symm⟩
      have h' : ((a == p.val) && (b == q.val)) = false := by
        simp only [Bool.and_eq_false_iff, beq_eq_false_iff_ne, ne_eq]
        by_cases ha : a = p.val
        · right; intro hb; exact this ⟨ha, hb⟩
        · left; exact ha
      simp [hpq, h']
  · have hc : ¬ ((0 : Int) ≤ a ∧ (a : Int) < r ∧ (0 : Int) ≤ b ∧ (b : Int) < c) := by omega
    have hr : entriesIn r c [((a, b, g) : Entry K)] = false := by
      simp only [entriesIn, List.all_cons, List.all_nil, Bool.and_true, Bool.and_eq_false_iff,
        decide_eq_false_iff_not]
      by_cases ha : a < r
      · right; intro hb; exact h ⟨ha, hb⟩
      · left; exact ha
    simp [addAt, h1, h2, h, Except.toOption, addsResult, hr]

/-- a loop whose body adds the entries `f a` adds the entries of all elements, in order. -/
theorem adds_foldlM {α : Type} (r c : Nat) (body : PMat K → α → Except Err (PMat K))
    (f : α → Except Err (List (Entry K))) (l : List α)
    (h : ∀ a ∈ l, Adds r c (fun M => body M a) (f a)) :
    Adds r c (fun M => l.foldlM body M) ((l.mapM f).map List.flatten) := by
  induction l with
  | nil => intro X; simp [addsResult, entriesIn, toMat_nil, Except.toOption, List.foldlM]
  | cons a l ih =>
    intro X
    have ha := h a (by simp) X
    have ih' := ih fun b hb => h b (by simp [hb])
    simp only [List.foldlM_cons, toOption_bind, List.mapM_cons]
    cases hfa : f a with
    | error e =>
      simp only [hfa, addsResult] at ha
      simp [ha, addsResult, Except.map, Except.bind, bind]
    | ok es =>
      simp only [hfa, addsResult] at ha
      by_cases hes : entriesIn r c es
      · simp only [hes, if_true] at ha
        simp only [ha, Option.bind_some]
        rw [ih' (X + toMat r c es)]
        cases hm : l.mapM f with
        | error e => simp [addsResult, Except.map, Except.bind, bind]
        | ok ess =>
          simp only [addsResult, Except.map, bind, Except.bind, pure, Except.pure, List.flatten_cons,
            entriesIn_append, hes, Bool.true_and, toMat_append', add_assoc]
      · simp only [hes] at ha
        simp only [ha, Option.bind_none]
        cases hm : l.mapM f with
        | error e => simp [addsResult, Except.map, Except.bind, bind]
        | ok ess =>
          simp [addsResult, Except.map, bind, Except.bind, pure, Except.pure, entriesIn_append, hes]

/-- an effect that does not touch the array, in front of a computation on it. -/
theorem adds_bind {β : Type} (r c : Nat) (e : Except Err β) (comp : β → PMat K → Except Err (PMat K))
    (spec : β → Except Err (List (Entry K))) (h : ∀ b, e = .ok b → Adds r c (comp b) (spec b)) :
    Adds r c (fun M => e >>= fun b => comp b M) (e >>= spec) := by
  intro X
  cases he : e with
  | error x => rfl
  | ok b => exact h b he X

theorem adds_congr (r c : Nat) {comp comp' : PMat K → Except Err (PMat K)}
    {spec spec' : Except Err (List (Entry K))} (h : Adds r c comp spec) (hc : ∀ M, comp' M = comp M)
    (hs : spec' = spec) : Adds r c comp' spec' := by
  intro X; rw [hc, hs]; exact h X

end CtrlVerif.PyIC

namespace CtrlVerif.PyIC

open IC

variable {K : Type} [Field K] [DecidableEq K]

theorem foldlM_toOption {α : Type} (r c : Nat) (body : PMat K → α → Except Err (PMat K))
    (f : α → Except Err (List (Entry K))) (l : List α)
    (h : ∀ a ∈ l, Adds r c (fun M => body M a) (f a)) (X : Matrix (Fin r) (Fin c) K) :
    (l.foldlM body ⟨r, c, X⟩).toOption = addsResult r c X ((l.mapM f).map List.flatten) :=
  adds_foldlM r c body f l h X

/-- a loop that adds one entry per element. -/
theorem adds_coords {α : Type} (r c : Nat) (l : List α) (body : PMat K → α → Except Err (PMat K))
    (row col : α → Nat) (g : α → K)
    (hbody : ∀ M, ∀ a ∈ l, body M a = addAt M (row a : Int) (col a : Int) (g a)) :
    Adds r c (fun M => l.foldlM body M) (.ok (l.map fun a => (row a, col a, g a))) := by
  have h := adds_foldlM r c body (fun a => .ok [(row a, col a, g a)]) l
    (fun a ha => adds_congr r c (adds_addAt r c (row a) (col a) (g a)) (fun M => hbody M a ha) rfl)
  refine adds_congr r c h (fun _ => rfl) ?_
  simp only [mapM_ok, map_ok]
  congr 1
  clear h hbody
  induction l with
  | nil => rfl
  | cons a l ih => simp [ih]

omit [Field K] [DecidableEq K] in
theorem enumerate_map_ofNat (us : List Nat) :
    enumerate (us.map Int.ofNat) = us.zipIdx.map fun p => ((p.2 : Int), (p.1 : Int)) := by
  simp [enumerate, List.zipIdx_map, List.map_map, Function.comp_def]

omit [Field K] [DecidableEq K] in
theorem zip_map_ofNat (a b : List Nat) :
    List.zip (a.map Int.ofNat) (b.map Int.ofNat) = (a.zip b).map fun p => ((p.1 : Int), (p.2 : Int)) := by
  rw [List.zip_map]; rfl

theorem all_congr_mem {α : Type} (l : List α) (p q : α → Bool) (h : ∀ a ∈ l, p a = q a) :
    l.all p = l.all q := by
  induction l with
  | nil => rfl
  | cons a l ih =>
    simp only [List.all_cons, h a (by simp), ih fun b hb => h b (by simp [hb])]

theorem foldlM_ok_eq_foldl {σ α : Type} (g : σ → α → σ) (init : σ) (l : List α) :
    l.foldlM (fun st x => (Except.ok (g st x) : Except Err σ)) init = .ok (l.foldl g init) := by
  induction l generalizing init with
  | nil => rfl
  | cons a l ih => simp [List.foldlM_cons, ih]

/-- running sums: the offsets `__init__` appends. -/
def offsFrom (c : Int) : List Nat → List Int
  | [] => []
  | a :: l => c :: offsFrom (c + a) l

omit [Field K] [DecidableEq K] in
theorem offsFrom_eq (c : Int) (l : List Nat) :
    offsFrom c l = (List.range l.length).map fun k => c + ((l.take k).sum : Nat) := by
  induction l generalizing c with
  | nil => rfl
  | cons a l ih =>
    simp only [offsFrom, List.length_cons, List.range_succ_eq_map, List.map_cons, List.take_zero,
      List.sum_nil, Nat.cast_zero, add_zero, List.map_map, ih, List.cons.injEq, true_and]
    apply List.map_congr_left
    intro k _
    simp only [Function.comp, List.take_succ_cons, List.sum_cons, Nat.cast_add]
    ring

end CtrlVerif.PyIC

/-! ### 1-D arrays -/

namespace CtrlVerif.PyIC

variable {K : Type}

theorem clipIdx_natCast (len k : Nat) : clipIdx len (k : Int) = min k len := by
  have : ¬ ((k : Int) < 0) := by omega
  simp [clipIdx, this]

/-- `v[a : a + n]` for sizes. -/
theorem sliceVec_natCast (v : List K) (a n : Nat) :
    sliceVec v (a : Int) ((a : Int) + (n : Int)) = (v.drop a).take n := by
  have h : ((a : Int) + (n : Int)) = ((a + n : Nat) : Int) := by push_cast; rfl
  rw [sliceVec, h, clipIdx_natCast, clipIdx_natCast]
  rw [List.take_drop]
  by_cases h1 : a + n ≤ v.length
  · have h2 : a ≤ v.length := by omega
    simp [Nat.min_eq_left h1, Nat.min_eq_left h2]
  · have h1' : v.length ≤ a + n := by omega
    rw [Nat.min_eq_right h1', List.take_of_length_le (Nat.le_refl _), List.take_of_length_le h1']
    by_cases h2 : a ≤ v.length
    · rw [Nat.min_eq_left h2]
    · have h2' : v.length ≤ a := by omega
      rw [Nat.min_eq_right h2', List.drop_of_length_le (Nat.le_refl _), List.drop_of_length_le h2']

theorem sliceVec_zero_natCast (v : List K) (n : Nat) : sliceVec v 0 (n : Int) = v.take n := by
  have := sliceVec_natCast v 0 n
  simpa using this

/-- writing the middle block of `A ++ B ++ C`. -/
theorem setSliceVec_mid (A B C w : List K) (a n : Nat) (ha : A.length = a) (hb : B.length = n)
    (hw : w.length = n) :
    setSliceVec (A ++ B ++ C) (a : Int) ((a : Int) + (n : Int)) w = .ok (A ++ w ++ C) := by
  have h : ((a : Int) + (n : Int)) = ((a + n : Nat) : Int) := by push_cast; rfl
  have hlen : (A ++ B ++ C).length = a + n + C.length := by simp [ha, hb]; omega
  simp only [setSliceVec, h, clipIdx_natCast, hlen]
  have h1 : min a (a + n + C.length) = a := by omega
  have h2 : min (a + n) (a + n + C.length) = a + n := by omega
  rw [h1, h2]
  have h3 : w.length = a + n - a ∧ a ≤ a + n := by omega
  simp only [h3, and_self, if_true]
  congr 2
  · rw [List.append_assoc, List.take_append_of_le_length (by omega)]
    simp [← ha]
  · have : (A ++ B).length = a + n := by simp [ha, hb]
    rw [← this, List.drop_left]

end CtrlVerif.PyIC
