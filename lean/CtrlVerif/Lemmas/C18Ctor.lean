/-
Helper lemmas for `Props/C18Perm.lean`, part 2: what `TimeResponseData.__init__` establishes.

The array part of the constructor (`TRD.initCore`, Model/Response.lean) is one `do` block; it is
shown (by `rfl`) to be the composition of four stages in continuation-passing form (`kY`, `kX`,
`kU`, `kS`: the output, state, input and SISO-flag stages), each of which is the monadic bind of a
*value* (`stageY`, …) — so every fact about an accepted argument list is proved stage by stage:
`initCore_inv` (the class invariant `TRD.Inv`), `timeResponse_inv` (the objects the five response
functions return have it, and at most one trace when SISO).  Also: histories of copies and reads
leave existing objects alone (`HState.run_copy_read`), and the raw part of every object of any
history is the raw part of an initial object (`TRD.run_raw_invariant`).
-/
import CtrlVerif.Lemmas.C18Perm

namespace CtrlVerif

open NDArr

variable {α β : Type}

/-! stages of `TimeResponseData.__init__` in continuation-passing form (`k…`) and as values -/

def kY (outputs : NDArr α) (multiTrace : Bool) (jp : NDArr α × Bool × Nat × Nat → Except Err β) :
    Except Err β :=
  match outputs.shape with
  | [p, k, _] => do let x ← pure (outputs, true, p, k); jp x
  | [a, _] =>
    if multiTrace then do let x ← pure (outputs, true, 1, a); jp x
    else do let x ← pure (outputs, false, a, 0); jp x
  | [_] =>
    if multiTrace then do let x ← throw Err.shape; jp x
    else do let x ← pure (outputs.row, false, 1, 0); jp x
  | _ => do let x ← throw Err.shape; jp x

def stageY (outputs : NDArr α) (multiTrace : Bool) : Except Err (NDArr α × Bool × Nat × Nat) :=
  match outputs.shape with
  | [p, k, _] => pure (outputs, true, p, k)
  | [a, _] => if multiTrace then pure (outputs, true, 1, a) else pure (outputs, false, a, 0)
  | [_] => if multiTrace then throw Err.shape else pure (outputs.row, false, 1, 0)
  | _ => throw Err.shape

theorem kY_eq (outputs : NDArr α) (multiTrace : Bool)
    (jp : NDArr α × Bool × Nat × Nat → Except Err β) :
    kY outputs multiTrace jp = (stageY outputs multiTrace).bind jp := by
  unfold kY stageY
  split <;> (try split) <;> rfl

def kX (t : NDArr α) (states : Option (NDArr α)) (multi : Bool) (ntraces : Nat)
    (jp : Nat → Except Err β) : Except Err β :=
  match states with
  | none => do let n ← pure 0; jp n
  | some x =>
    match x.shape with
    | [] => do let n ← throw Err.indexRange; jp n
    | n :: _ =>
      if (multi && (x.ndim ≠ 3 || x.shape[1]? ≠ some ntraces)) || (!multi && x.ndim ≠ 2) then
        do let n ← throw Err.shape; jp n
      else if t.shape.getLast? ≠ x.shape.getLast? then do let n ← throw Err.shape; jp n
      else do let n ← pure n; jp n

def stageX (t : NDArr α) (states : Option (NDArr α)) (multi : Bool) (ntraces : Nat) :
    Except Err Nat :=
  match states with
  | none => pure 0
  | some x =>
    match x.shape with
    | [] => throw Err.indexRange
    | n :: _ =>
      if (multi && (x.ndim ≠ 3 || x.shape[1]? ≠ some ntraces)) || (!multi && x.ndim ≠ 2) then
        throw Err.shape
      else if t.shape.getLast? ≠ x.shape.getLast? then throw Err.shape
      else pure n

theorem kX_eq (t : NDArr α) (states : Option (NDArr α)) (multi : Bool) (ntraces : Nat)
    (jp : Nat → Except Err β) :
    kX t states multi ntraces jp = (stageX t states multi ntraces).bind jp := by
  unfold kX stageX
  split
  · rfl
  · split
    · rfl
    · split
      · rfl
      · split <;> rfl

def kU1 (u : NDArr α) (multi : Bool) (ntraces : Nat) (jp : NDArr α × Nat → Except Err β) :
    Except Err β :=
  match u.shape with
  | [m, k, _] =>
    if multi && k = ntraces then do let r ← pure (u, m); jp r
    else do let r ← throw Err.shape; jp r
  | [a, _] =>
    if multi && a = ntraces then do let r ← pure (u, 1); jp r
    else if !multi && ntraces = 0 then do let r ← pure (u, a); jp r
    else do let r ← throw Err.shape; jp r
  | [_] =>
    if !multi then do let r ← pure (u.row, 1); jp r
    else do let r ← throw Err.shape; jp r
  | _ => do let r ← throw Err.shape; jp r

def stageU1 (u : NDArr α) (multi : Bool) (ntraces : Nat) : Except Err (NDArr α × Nat) :=
  match u.shape with
  | [m, k, _] => if multi && k = ntraces then pure (u, m) else throw Err.shape
  | [a, _] =>
    if multi && a = ntraces then pure (u, 1)
    else if !multi && ntraces = 0 then pure (u, a)
    else throw Err.shape
  | [_] => if !multi then pure (u.row, 1) else throw Err.shape
  | _ => throw Err.shape

theorem kU1_eq (u : NDArr α) (multi : Bool) (ntraces : Nat) (jp : NDArr α × Nat → Except Err β) :
    kU1 u multi ntraces jp = (stageU1 u multi ntraces).bind jp := by
  unfold kU1 stageU1
  split
  · split <;> rfl
  · split
    · rfl
    · split <;> rfl
  · split <;> rfl
  · rfl

def kS (issiso : Option Bool) (ninputs noutputs : Nat) (jp : Bool → Except Err β) : Except Err β :=
  match issiso with
  | none =>
    if ninputs = 1 then do let s ← pure (decide (noutputs = 1)); jp s
    else if ninputs > 1 then do let s ← pure false; jp s
    else do let s ← throw Err.badArg; jp s
  | some b =>
    if b && (ninputs > 1 || noutputs > 1) then do let s ← throw Err.badArg; jp s
    else do let s ← pure b; jp s

def stageS (issiso : Option Bool) (ninputs noutputs : Nat) : Except Err Bool :=
  match issiso with
  | none =>
    if ninputs = 1 then pure (decide (noutputs = 1))
    else if ninputs > 1 then pure false
    else throw Err.badArg
  | some b => if b && (ninputs > 1 || noutputs > 1) then throw Err.badArg else pure b

theorem kS_eq (issiso : Option Bool) (ninputs noutputs : Nat) (jp : Bool → Except Err β) :
    kS issiso ninputs noutputs jp = (stageS issiso ninputs noutputs).bind jp := by
  unfold kS stageS
  split
  · split
    · rfl
    · split <;> rfl
  · split <;> rfl

def kU (t : NDArr α) (inputs : Option (NDArr α)) (multi : Bool) (ntraces : Nat)
    (jp : Option (NDArr α) × Nat → Except Err β) : Except Err β :=
  match inputs with
  | none => do let x ← pure (none, 0); jp x
  | some u => kU1 u multi ntraces fun r =>
      if t.shape.getLast? ≠ r.1.shape.getLast? then
        do let _ ← (throw Err.shape : Except Err Unit); (do let x ← pure (some r.1, r.2); jp x)
      else do let x ← pure (some r.1, r.2); jp x

def stageU (t : NDArr α) (inputs : Option (NDArr α)) (multi : Bool) (ntraces : Nat) :
    Except Err (Option (NDArr α) × Nat) :=
  match inputs with
  | none => pure (none, 0)
  | some u => (stageU1 u multi ntraces).bind fun r =>
      if t.shape.getLast? ≠ r.1.shape.getLast? then throw Err.shape else pure (some r.1, r.2)

theorem kU_eq (t : NDArr α) (inputs : Option (NDArr α)) (multi : Bool) (ntraces : Nat)
    (jp : Option (NDArr α) × Nat → Except Err β) :
    kU t inputs multi ntraces jp = (stageU t inputs multi ntraces).bind jp := by
  unfold kU stageU
  split
  · rfl
  · rw [kU1_eq]
    cases stageU1 _ multi ntraces with
    | error e => rfl
    | ok r =>
      simp only [Except.bind]
      split <;> rfl

/-- the constructor's array part, stage by stage. -/
theorem initCore_cps (time outputs : NDArr α) (states inputs : Option (NDArr α))
    (issiso : Option Bool) (multiTrace : Bool) :
    TRD.initCore time outputs states inputs issiso multiTrace =
      (if time.atleast1d.ndim ≠ 1 then .error .shape else
        kY outputs multiTrace fun yr =>
          match yr with
          | (y, multi, noutputs, ntraces) =>
          if time.atleast1d.shape.getLast? ≠ y.shape.getLast? then .error .shape else
            kX time.atleast1d states multi ntraces fun nstates =>
              kU time.atleast1d inputs multi ntraces fun ur =>
                match ur with
                | (u, ninputs) =>
                kS issiso ninputs noutputs fun siso =>
                  .ok ⟨time.atleast1d, y, states, u, siso, ninputs, noutputs, nstates, ntraces⟩) := by
  unfold TRD.initCore kY kX kU kU1 kS
  rfl

theorem Except.bind_eq_ok' {ε γ δ : Type} {x : Except ε γ} {f : γ → Except ε δ} {c : δ}
    (h : x.bind f = .ok c) : ∃ a, x = .ok a ∧ f a = .ok c := by
  cases x with
  | error e => cases h
  | ok a => exact ⟨a, rfl, h⟩

/-- the constructor's array part as a composition of stage values. -/
theorem initCore_staged (time outputs : NDArr α) (states inputs : Option (NDArr α))
    (issiso : Option Bool) (multiTrace : Bool) :
    TRD.initCore time outputs states inputs issiso multiTrace =
      (if time.atleast1d.ndim ≠ 1 then .error .shape else
        (stageY outputs multiTrace).bind fun yr =>
          match yr with
          | (y, multi, noutputs, ntraces) =>
          if time.atleast1d.shape.getLast? ≠ y.shape.getLast? then .error .shape else
            (stageX time.atleast1d states multi ntraces).bind fun nstates =>
              (stageU time.atleast1d inputs multi ntraces).bind fun ur =>
                match ur with
                | (u, ninputs) =>
                (stageS issiso ninputs noutputs).bind fun siso =>
                  .ok ⟨time.atleast1d, y, states, u, siso, ninputs, noutputs, nstates, ntraces⟩) := by
  rw [initCore_cps]
  simp only [kY_eq, kX_eq, kU_eq, kS_eq]

theorem row_wf {a : NDArr α} (h : a.WF) : a.row.WF := by
  unfold NDArr.WF NDArr.row at *; simpa using h

theorem stageY_spec {outputs y : NDArr α} {mt multi : Bool} {p k : Nat}
    (h : stageY outputs mt = .ok (y, multi, p, k)) :
    y.data = outputs.data ∧ (outputs.WF → y.WF) ∧ (p ≤ 1 → k ≤ 1 → y.SisoAxes) := by
  unfold stageY at h
  split at h
  · rename_i p' k' T hs
    simp only [pure, Except.pure, Except.ok.injEq, Prod.mk.injEq] at h
    obtain ⟨rfl, -, rfl, rfl⟩ := h
    refine ⟨rfl, id, fun hp hk => ?_⟩
    unfold NDArr.SisoAxes; rw [hs]; exact ⟨hp, hk⟩
  · rename_i a T hs
    split at h
    · simp only [pure, Except.pure, Except.ok.injEq, Prod.mk.injEq] at h
      obtain ⟨rfl, -, rfl, rfl⟩ := h
      refine ⟨rfl, id, fun _ hk => ?_⟩
      unfold NDArr.SisoAxes; rw [hs]; exact hk
    · simp only [pure, Except.pure, Except.ok.injEq, Prod.mk.injEq] at h
      obtain ⟨rfl, -, rfl, rfl⟩ := h
      refine ⟨rfl, id, fun hp _ => ?_⟩
      unfold NDArr.SisoAxes; rw [hs]; exact hp
  · rename_i T hs
    split at h
    · cases h
    · simp only [pure, Except.pure, Except.ok.injEq, Prod.mk.injEq] at h
      obtain ⟨rfl, -, rfl, rfl⟩ := h
      refine ⟨rfl, row_wf, fun _ _ => ?_⟩
      unfold NDArr.SisoAxes NDArr.row; rw [hs]
  · cases h

theorem stageX_spec {t : NDArr α} {states : Option (NDArr α)} {multi : Bool} {k n : Nat}
    (h : stageX t states multi k = .ok n) :
    ∀ x n' k' T, states = some x → x.shape = [n', k', T] → k' = k := by
  intro x n' k' T hx hs
  subst hx
  unfold stageX at h
  simp only [hs, NDArr.ndim] at h
  cases multi
  · simp at h
  · simp only [List.length_cons, List.length_nil, List.getElem?_cons_succ,
      List.getElem?_cons_zero] at h
    split at h
    · cases h
    · rename_i hc
      simp at hc
      exact hc

theorem stageU1_spec {u u' : NDArr α} {multi : Bool} {k m : Nat}
    (h : stageU1 u multi k = .ok (u', m)) :
    u'.data = u.data ∧ (u.WF → u'.WF) ∧ (m ≤ 1 → k ≤ 1 → u'.SisoAxes) := by
  unfold stageU1 at h
  split at h
  · rename_i m' k' T hs
    split at h
    · rename_i hc
      simp only [pure, Except.pure, Except.ok.injEq, Prod.mk.injEq] at h
      obtain ⟨rfl, rfl⟩ := h
      simp only [Bool.and_eq_true, decide_eq_true_eq] at hc
      refine ⟨rfl, id, fun hm hk => ?_⟩
      unfold NDArr.SisoAxes; rw [hs]; exact ⟨hm, by omega⟩
    · cases h
  · rename_i a T hs
    split at h
    · rename_i hc
      simp only [pure, Except.pure, Except.ok.injEq, Prod.mk.injEq] at h
      obtain ⟨rfl, rfl⟩ := h
      simp only [Bool.and_eq_true, decide_eq_true_eq] at hc
      refine ⟨rfl, id, fun _ hk => ?_⟩
      unfold NDArr.SisoAxes; rw [hs]; show a ≤ 1; omega
    · split at h
      · simp only [pure, Except.pure, Except.ok.injEq, Prod.mk.injEq] at h
        obtain ⟨rfl, rfl⟩ := h
        refine ⟨rfl, id, fun hm _ => ?_⟩
        unfold NDArr.SisoAxes; rw [hs]; exact hm
      · cases h
  · rename_i T hs
    split at h
    · simp only [pure, Except.pure, Except.ok.injEq, Prod.mk.injEq] at h
      obtain ⟨rfl, rfl⟩ := h
      refine ⟨rfl, row_wf, fun _ _ => ?_⟩
      unfold NDArr.SisoAxes NDArr.row; rw [hs]
    · cases h
  · cases h

theorem stageU_spec {t : NDArr α} {inputs u' : Option (NDArr α)} {multi : Bool} {k m : Nat}
    (h : stageU t inputs multi k = .ok (u', m)) :
    ∀ v, u' = some v → ∃ u, inputs = some u ∧ v.data = u.data ∧ (u.WF → v.WF) ∧
      (m ≤ 1 → k ≤ 1 → v.SisoAxes) := by
  intro v hv
  unfold stageU at h
  split at h
  · simp only [pure, Except.pure, Except.ok.injEq, Prod.mk.injEq] at h
    rw [← h.1] at hv; cases hv
  · rename_i u
    obtain ⟨r, hr, h2⟩ := Except.bind_eq_ok' h
    split at h2
    · cases h2
    · simp only [pure, Except.pure, Except.ok.injEq, Prod.mk.injEq] at h2
      obtain ⟨h3, h4⟩ := h2
      rw [← h3] at hv
      injection hv with hv
      have hr' : stageU1 u multi k = .ok (v, m) := by rw [hr, ← hv, ← h4]
      obtain ⟨a, b, c⟩ := stageU1_spec hr'
      exact ⟨u, rfl, a, b, c⟩

theorem stageS_spec {issiso : Option Bool} {m p : Nat} (h : stageS issiso m p = .ok true) :
    m ≤ 1 ∧ p ≤ 1 := by
  unfold stageS at h
  split at h
  · split at h
    · rename_i hm
      simp only [pure, Except.pure, Except.ok.injEq, decide_eq_true_eq] at h
      omega
    · split at h
      · simp [pure, Except.pure] at h
      · cases h
  · rename_i b
    split at h
    · cases h
    · rename_i hc
      simp only [pure, Except.pure, Except.ok.injEq] at h
      subst h
      simp at hc
      omega

/-- **what the constructor establishes.** -/
theorem TRD.initCore_inv {time outputs : NDArr α} {states inputs : Option (NDArr α)}
    {issiso : Option Bool} {multi : Bool} {c : TRDCore α} {sq : Sq} {tr rx : Bool}
    (h : TRD.initCore time outputs states inputs issiso multi = .ok c)
    (hy : outputs.WF) (hx : ∀ x, states = some x → x.WF) (hu : ∀ u, inputs = some u → u.WF) :
    (⟨c.t, c.y, c.x, c.u, c.issiso, c.ninputs, c.noutputs, c.nstates, c.ntraces, sq, tr, rx⟩
      : TRD α).Inv ∧ c.y.data = outputs.data ∧ c.x = states ∧
      (∀ u', c.u = some u' → ∃ u, inputs = some u ∧ u'.data = u.data) := by
  rw [initCore_staged] at h
  split at h
  · cases h
  · obtain ⟨⟨y, mlt, p, k⟩, hY, h⟩ := Except.bind_eq_ok' h
    simp only at h
    split at h
    · cases h
    · obtain ⟨n, hX, h⟩ := Except.bind_eq_ok' h
      obtain ⟨⟨u, m⟩, hU, h⟩ := Except.bind_eq_ok' h
      simp only at h
      obtain ⟨siso, hS, h⟩ := Except.bind_eq_ok' h
      injection h with h
      subst h
      obtain ⟨y1, y2, y3⟩ := stageY_spec hY
      have hxs := stageX_spec hX
      have hus := stageU_spec hU
      refine ⟨⟨y2 hy, hx, ?_, ?_, ?_⟩, y1, rfl, ?_⟩
      · intro v hv
        obtain ⟨u0, h0, _, hwf, _⟩ := hus v hv
        exact hwf (hu u0 h0)
      · intro x n' k' T hx' hs'
        exact hxs x n' k' T hx' hs'
      · intro hsiso hk
        simp only at hsiso hk
        subst hsiso
        obtain ⟨hm, hp⟩ := stageS_spec hS
        refine ⟨y3 hp hk, ?_⟩
        intro v hv
        obtain ⟨_, _, _, _, hax⟩ := hus v hv
        exact hax hm hk
      · intro v hv
        obtain ⟨u0, h0, hd, _, _⟩ := hus v hv
        exact ⟨u0, h0, hd⟩

theorem atleast1d_idem (t : NDArr α) (h : t.atleast1d.ndim = 1) :
    t.atleast1d.atleast1d = t.atleast1d := by
  cases t with
  | mk sh d =>
    cases sh with
    | nil => rfl
    | cons a rest => rfl

theorem stageY_stored {outputs y : NDArr α} {mt multi : Bool} {p k : Nat}
    (h : stageY outputs mt = .ok (y, multi, p, k)) :
    stageY y mt = .ok (y, multi, p, k) ∧ (multi = false → k = 0) := by
  unfold stageY at h
  split at h
  · rename_i p' k' T hs
    simp only [pure, Except.pure, Except.ok.injEq, Prod.mk.injEq] at h
    obtain ⟨rfl, rfl, rfl, rfl⟩ := h
    refine ⟨?_, fun h => by cases h⟩
    unfold stageY; rw [hs]; rfl
  · rename_i a T hs
    split at h
    · rename_i hm
      simp only [pure, Except.pure, Except.ok.injEq, Prod.mk.injEq] at h
      obtain ⟨rfl, rfl, rfl, rfl⟩ := h
      refine ⟨?_, fun h => by cases h⟩
      unfold stageY; rw [hs]; simp [hm, pure, Except.pure]
    · rename_i hm
      simp only [pure, Except.pure, Except.ok.injEq, Prod.mk.injEq] at h
      obtain ⟨rfl, rfl, rfl, rfl⟩ := h
      refine ⟨?_, fun _ => rfl⟩
      unfold stageY; rw [hs]; simp [hm, pure, Except.pure]
  · rename_i T hs
    split at h
    · cases h
    · rename_i hm
      simp only [pure, Except.pure, Except.ok.injEq, Prod.mk.injEq] at h
      obtain ⟨rfl, rfl, rfl, rfl⟩ := h
      refine ⟨?_, fun _ => rfl⟩
      unfold stageY NDArr.row; rw [hs]; simp [hm, pure, Except.pure]
  · cases h

theorem stageU1_stored {u u' : NDArr α} {multi : Bool} {k m : Nat}
    (h : stageU1 u multi k = .ok (u', m)) (hk : multi = false → k = 0) :
    stageU1 u' multi k = .ok (u', m) := by
  unfold stageU1 at h
  split at h
  · rename_i m' k' T hs
    split at h
    · rename_i hc
      simp only [pure, Except.pure, Except.ok.injEq, Prod.mk.injEq] at h
      obtain ⟨rfl, rfl⟩ := h
      unfold stageU1; rw [hs]; simp only [hc, if_true]; rfl
    · cases h
  · rename_i a T hs
    split at h
    · rename_i hc
      simp only [pure, Except.pure, Except.ok.injEq, Prod.mk.injEq] at h
      obtain ⟨rfl, rfl⟩ := h
      unfold stageU1; rw [hs]; simp only [hc, if_true]; rfl
    · rename_i hc
      split at h
      · rename_i hc2
        simp only [pure, Except.pure, Except.ok.injEq, Prod.mk.injEq] at h
        obtain ⟨rfl, rfl⟩ := h
        unfold stageU1; rw [hs]; simp only [hc, hc2, if_true, if_false]; rfl
      · cases h
  · rename_i T hs
    split at h
    · rename_i hc
      simp only [pure, Except.pure, Except.ok.injEq, Prod.mk.injEq] at h
      obtain ⟨rfl, rfl⟩ := h
      have hm : multi = false := by simpa using hc
      have hk0 := hk hm
      subst hm hk0
      unfold stageU1 NDArr.row; rw [hs]; simp [pure, Except.pure]
    · cases h
  · cases h

theorem stageU_stored {t : NDArr α} {inputs u' : Option (NDArr α)} {multi : Bool} {k m : Nat}
    (h : stageU t inputs multi k = .ok (u', m)) (hk : multi = false → k = 0) :
    stageU t u' multi k = .ok (u', m) := by
  unfold stageU at h
  split at h
  · simp only [pure, Except.pure, Except.ok.injEq, Prod.mk.injEq] at h
    obtain ⟨rfl, rfl⟩ := h
    rfl
  · rename_i u
    obtain ⟨r, hr, h2⟩ := Except.bind_eq_ok' h
    split at h2
    · cases h2
    · rename_i hc
      simp only [pure, Except.pure, Except.ok.injEq, Prod.mk.injEq] at h2
      obtain ⟨rfl, rfl⟩ := h2
      have := stageU1_stored (u := u) (u' := r.1) (m := r.2) (by simpa using hr) hk
      unfold stageU
      simp only [this, Except.bind, hc, if_false]
      rfl

theorem stageS_stored {issiso : Option Bool} {m p : Nat} {s : Bool} (h : stageS issiso m p = .ok s) :
    stageS (some s) m p = .ok s := by
  cases s with
  | false => simp [stageS, pure, Except.pure]
  | true =>
    obtain ⟨hm, hp⟩ := stageS_spec h
    have : ¬ (m > 1 ∨ p > 1) := by omega
    simp [stageS, pure, Except.pure, this]

/-- the constructor applied to the stored arrays (and the stored SISO flag) of an object it
built reproduces the array part of that object. -/
theorem TRD.initCore_stored {time outputs : NDArr α} {states inputs : Option (NDArr α)}
    {issiso : Option Bool} {multi : Bool} {c : TRDCore α}
    (h : TRD.initCore time outputs states inputs issiso multi = .ok c) :
    TRD.initCore c.t c.y c.x c.u (some c.issiso) multi = .ok c := by
  rw [initCore_staged] at h
  split at h
  · cases h
  · rename_i ht
    obtain ⟨⟨y, mlt, p, k⟩, hY, h⟩ := Except.bind_eq_ok' h
    simp only at h
    split at h
    · cases h
    · rename_i hyt
      obtain ⟨n, hX, h⟩ := Except.bind_eq_ok' h
      obtain ⟨⟨u, m⟩, hU, h⟩ := Except.bind_eq_ok' h
      simp only at h
      obtain ⟨siso, hS, h⟩ := Except.bind_eq_ok' h
      injection h with h
      subst h
      obtain ⟨hY', hk⟩ := stageY_stored hY
      have hU' := stageU_stored hU hk
      have hS' := stageS_stored hS
      have ht' : time.atleast1d.ndim = 1 := by simpa using ht
      rw [initCore_staged]
      simp only [atleast1d_idem time ht', ht, if_false, hY', Except.bind, hyt, hX, hU', hS']

theorem TRD.Inv.congr {r r' : TRD α} (h : r.Inv) (hy : r'.y = r.y) (hx : r'.x = r.x)
    (hu : r'.u = r.u) (hn : r'.ntraces = r.ntraces) (hs : r'.issiso = r.issiso) : r'.Inv := by
  constructor
  · rw [hy]; exact h.ywf
  · rw [hx]; exact h.xwf
  · rw [hu]; exact h.uwf
  · rw [hx, hn]; exact h.xtrace
  · rw [hs, hn, hy, hu]; exact h.siso

theorem TRD.Inv.callKw {r : TRD α} (h : r.Inv) (kw : TKw) : (r.callKw kw).Inv :=
  ⟨h.ywf, h.xwf, h.uwf, h.xtrace, h.siso⟩

theorem TRD.Inv.setAttr {r : TRD α} (h : r.Inv) (a : TSet) : (r.setAttr a).Inv := by
  cases a <;> exact ⟨h.ywf, h.xwf, h.uwf, h.xtrace, h.siso⟩

theorem ite_throw_ok {γ : Type} {c : Prop} [Decidable c] {e : Err} {v w : γ}
    (h : (if c then (throw e : Except Err γ) else pure v) = .ok w) : ¬ c ∧ v = w := by
  split at h
  · cases h
  · rename_i hc
    simp only [pure, Except.pure, Except.ok.injEq] at h
    exact ⟨hc, h⟩

theorem rawSpec_traces {fn : TFn} {p m n T : Nat} {inp out : Option Nat} {u1d : Bool}
    {spec : RawSpec} (h : rawSpec fn p m n T inp out u1d = .ok spec) (hs : spec.issiso = true) :
    (∃ a b, spec.yShape = [a, b]) ∨ (∃ b, spec.yShape = [b]) ∨ (∃ a b, spec.yShape = [a, 1, b]) := by
  unfold rawSpec at h
  cases fn <;> simp only at h
  · obtain ⟨_, rfl⟩ := ite_throw_ok h; exact .inl ⟨_, _, rfl⟩
  · obtain ⟨_, rfl⟩ := ite_throw_ok h; exact .inl ⟨_, _, rfl⟩
  · split at h
    · cases h
    · cases out with
      | none =>
        simp only [pure, Except.pure, Except.ok.injEq] at h; subst h; exact .inl ⟨_, _, rfl⟩
      | some o =>
        simp only at h
        split at h
        · simp only [pure, Except.pure, Except.ok.injEq] at h; subst h; exact .inr (.inl ⟨_, rfl⟩)
        · cases h
  all_goals
    obtain ⟨_, rfl⟩ := ite_throw_ok h
    simp only [Bool.or_eq_true, Bool.and_eq_true, decide_eq_true_eq] at hs
    refine .inr (.inr ⟨if out.isSome = true then 1 else p, T, ?_⟩)
    rcases hs with ⟨_, hm⟩ | ⟨hi, _⟩
    · subst hm
      cases inp <;> simp
    · simp [hi]

/-- the objects the five response functions return: the class invariant, at most one trace when
SISO, and the stored output data is the simulated one. -/
theorem timeResponse_inv {fn : TFn} {p m n T : Nat} {inp out : Option Nat} {u1d : Bool}
    {t y : NDArr α} {x u : Option (NDArr α)} {sq : Sq} {tr : Bool} {rx : Option Bool} {cfg : Cfg}
    {r : TRD α} (h : timeResponse fn p m n T inp out u1d t y x u sq tr rx cfg = .ok r)
    (hy : y.WF) (hx : ∀ a, x = some a → a.WF) (hu : ∀ a, u = some a → a.WF) :
    r.Inv ∧ (r.issiso = true → r.ntraces ≤ 1) ∧ r.y.data = y.data ∧ r.x = x ∧
      (∀ u', r.u = some u' → ∃ u₀, u = some u₀ ∧ u'.data = u₀.data) := by
  unfold timeResponse at h
  cases hspec : rawSpec fn p m n T inp out u1d with
  | error e => simp [hspec, bind, Except.bind] at h
  | ok spec =>
    simp only [hspec, bind, Except.bind] at h
    split at h
    · simp [throw, throwThe, MonadExceptOf.throw] at h
    · rename_i hsh
      simp only [Bool.or_eq_true, decide_eq_true_eq, not_or, ne_eq, Decidable.not_not] at hsh
      obtain ⟨⟨⟨_, hys⟩, _⟩, _⟩ := hsh
      obtain ⟨c, hc, _, hr⟩ := TRD.init_ok_iff.mp h
      subst hr
      obtain ⟨hinv, hyd, hxd, hud⟩ := TRD.initCore_inv (sq := sq) (tr := tr) (rx := false) hc hy hx hu
      refine ⟨hinv.congr rfl rfl rfl rfl rfl, ?_, hyd, hxd, hud⟩
      intro hsiso
      simp only at hsiso ⊢
      -- the number of traces is read off the shape of `y`
      rw [initCore_staged] at hc
      split at hc
      · cases hc
      · obtain ⟨⟨y', mlt, p', k⟩, hY, hc⟩ := Except.bind_eq_ok' hc
        simp only at hc
        split at hc
        · cases hc
        · obtain ⟨n', hX, hc⟩ := Except.bind_eq_ok' hc
          obtain ⟨⟨u', m'⟩, hU, hc⟩ := Except.bind_eq_ok' hc
          simp only at hc
          obtain ⟨siso, hS, hc⟩ := Except.bind_eq_ok' hc
          injection hc with hc
          subst hc
          simp only at hsiso ⊢
          subst hsiso
          -- SISO flag given explicitly: it is `spec.issiso`
          have hsi : spec.issiso = true := by
            unfold stageS at hS
            simp only at hS
            split at hS
            · cases hS
            · simpa [pure, Except.pure] using hS
          unfold stageY at hY
          rcases rawSpec_traces hspec hsi with ⟨a, b, hsp⟩ | ⟨b, hsp⟩ | ⟨a, b, hsp⟩
          all_goals
            rw [hys, hsp] at hY
            simp only [pure, Except.pure, Except.ok.injEq, Prod.mk.injEq, Bool.false_eq_true,
              if_false] at hY
            obtain ⟨-, -, -, rfl⟩ := hY
            omega

/-! ### histories -/

namespace HState

variable {Obj Obs Reading CU SU GU : Type}

/-- a history of copies and reads keeps the configuration and every existing object. -/
theorem run_copy_read (ops : HistOps Obj Obs Reading CU SU GU) :
    ∀ (h : List (HStep Obs CU SU GU)), (∀ st ∈ h, st.isRead = true ∨ st.isCopy = true) →
    ∀ (s sf : HState Obj) (rds : List Reading), s.run ops h = .ok (rds, sf) →
      sf.cfg = s.cfg ∧ s.objs.length ≤ sf.objs.length ∧
      ∀ k, k < s.objs.length → sf.objs[k]? = s.objs[k]?
  | [], _, s, sf, rds, hr => by
    simp only [HState.run] at hr
    injection hr with hr
    injection hr with _ hr
    subst hr
    exact ⟨rfl, Nat.le_refl _, fun _ _ => rfl⟩
  | st :: rest, hcr, s, sf, rds, hr => by
    rw [HState.run_cons] at hr
    cases hst : s.step ops st with
    | error e => rw [hst] at hr; cases hr
    | ok p =>
      obtain ⟨s', rd⟩ := p
      rw [hst] at hr
      simp only at hr
      cases hrest : s'.run ops rest with
      | error e => rw [hrest] at hr; cases hr
      | ok q =>
        obtain ⟨rds', sf'⟩ := q
        rw [hrest] at hr
        simp only at hr
        injection hr with hr
        injection hr with _ hr
        subst hr
        have ih := run_copy_read ops rest (fun a ha => hcr a (List.mem_cons_of_mem _ ha)) s' sf'
          rds' hrest
        have hs' : s'.cfg = s.cfg ∧ s.objs.length ≤ s'.objs.length ∧
            ∀ k, k < s.objs.length → s'.objs[k]? = s.objs[k]? := by
          cases st with
          | read j o =>
            simp only [HState.step] at hst
            cases hj : s.objs[j]? with
            | none => rw [hj] at hst; cases hst
            | some r =>
              rw [hj] at hst
              injection hst with hst
              injection hst with hst _
              subst hst
              exact ⟨rfl, Nat.le_refl _, fun _ _ => rfl⟩
          | copy j kw =>
            simp only [HState.step] at hst
            cases hj : s.objs[j]? with
            | none => rw [hj] at hst; cases hst
            | some r =>
              rw [hj] at hst
              injection hst with hst
              injection hst with hst _
              subst hst
              refine ⟨rfl, by simp, fun k hk => ?_⟩
              simp [List.getElem?_append_left hk]
          | set j a =>
            have := hcr (.set j a) (List.mem_cons_self ..)
            simp [HStep.isRead, HStep.isCopy] at this
          | config g =>
            have := hcr (.config g) (List.mem_cons_self ..)
            simp [HStep.isRead, HStep.isCopy] at this
        refine ⟨ih.1.trans hs'.1, Nat.le_trans hs'.2.1 ih.2.1, fun k hk => ?_⟩
        rw [ih.2.2 k (Nat.lt_of_lt_of_le hk hs'.2.1), hs'.2.2 k hk]

/-- any predicate on objects that copies and assignments preserve holds for every object of the
final state of any history if it holds for every initial object. -/
theorem run_invariant (ops : HistOps Obj Obs Reading CU SU GU) (P : Obj → Prop)
    (hcopy : ∀ r kw, P r → P (ops.copy r kw)) (hset : ∀ r a, P r → P (ops.set r a)) :
    ∀ (h : List (HStep Obs CU SU GU)) (s sf : HState Obj) (rds : List Reading),
      s.run ops h = .ok (rds, sf) → (∀ r ∈ s.objs, P r) → ∀ r ∈ sf.objs, P r
  | [], s, sf, rds, hr, hP => by
    simp only [HState.run] at hr
    injection hr with hr
    injection hr with _ hr
    subst hr
    exact hP
  | st :: rest, s, sf, rds, hr, hP => by
    rw [HState.run_cons] at hr
    cases hst : s.step ops st with
    | error e => rw [hst] at hr; cases hr
    | ok p =>
      obtain ⟨s', rd⟩ := p
      rw [hst] at hr
      simp only at hr
      cases hrest : s'.run ops rest with
      | error e => rw [hrest] at hr; cases hr
      | ok q =>
        obtain ⟨rds', sf'⟩ := q
        rw [hrest] at hr
        simp only at hr
        injection hr with hr
        injection hr with _ hr
        subst hr
        refine run_invariant ops P hcopy hset rest s' sf' rds' hrest ?_
        cases st with
        | read j o =>
          simp only [HState.step] at hst
          cases hj : s.objs[j]? with
          | none => rw [hj] at hst; cases hst
          | some r =>
            rw [hj] at hst
            injection hst with hst
            injection hst with hst _
            subst hst
            exact hP
        | copy j kw =>
          simp only [HState.step] at hst
          cases hj : s.objs[j]? with
          | none => rw [hj] at hst; cases hst
          | some r =>
            rw [hj] at hst
            injection hst with hst
            injection hst with hst _
            subst hst
            intro q hq
            simp only [List.mem_append, List.mem_singleton] at hq
            rcases hq with hq | hq
            · exact hP q hq
            · subst hq; exact hcopy r kw (hP r (List.mem_of_getElem? hj))
        | set j a =>
          simp only [HState.step] at hst
          cases hj : s.objs[j]? with
          | none => rw [hj] at hst; cases hst
          | some r =>
            rw [hj] at hst
            injection hst with hst
            injection hst with hst _
            subst hst
            intro q hq
            rcases List.mem_or_eq_of_mem_set hq with hq | hq
            · exact hP q hq
            · subst hq; exact hset r a (hP r (List.mem_of_getElem? hj))
        | config g =>
          simp only [HState.step] at hst
          injection hst with hst
          injection hst with hst _
          subst hst
          exact hP

end HState

theorem TRD.run_raw_invariant (h : List TStep) (s sf : HState (TRD α)) (rds : List (TReading α))
    (hr : s.run (trdOps α) h = .ok (rds, sf)) (c : TRDCore α)
    (hc : ∀ r ∈ s.objs, r.raw = c) : ∀ r ∈ sf.objs, r.raw = c :=
  HState.run_invariant (trdOps α) (fun r => r.raw = c)
    (fun r kw hr => by cases r; exact hr)
    (fun r a hr => by cases r; cases a <;> exact hr) h s sf rds hr hc

theorem RespFRD.run_raw_invariant (h : List FStep) (s sf : HState (RespFRD α))
    (rds : List (FReading α)) (hr : s.run (frdOps α) h = .ok (rds, sf)) (c : NDArr α × Nat)
    (hc : ∀ F ∈ s.objs, F.raw = c) : ∀ F ∈ sf.objs, F.raw = c :=
  HState.run_invariant (frdOps α) (fun F => F.raw = c)
    (fun F kw hF => by cases F; exact hF)
    (fun F a hF => by cases F; cases a <;> exact hF) h s sf rds hr hc

end CtrlVerif
