/-
Helper lemmas for C14: the algebra behind the generalised bilinear transformation, evaluation
of the list-level substitution, Padé coefficient recursions.
-/
import CtrlVerif.Model.Discretize
import CtrlVerif.Lemmas.SS
import CtrlVerif.Lemmas.Poly
import Mathlib.Tactic.FieldSimp
import Mathlib.Tactic.Ring
import Mathlib.Tactic.Abel
import Mathlib.Tactic.Linarith
import Mathlib.Tactic.LinearCombination
import Mathlib.Data.Rat.Cast.CharZero
import Mathlib.Algebra.Order.Field.Rat
import Mathlib.Algebra.BigOperators.Intervals
import Mathlib.Algebra.BigOperators.Field
import Mathlib.Data.Nat.Factorial.Basic
import Mathlib.Data.Nat.Choose.Basic
import Mathlib.Data.Nat.Choose.Sum

namespace CtrlVerif

open Matrix

section gbt

variable {K : Type*} [Field K]
variable {σ ι o : Type*} [Fintype σ] [DecidableEq σ]

/-- `z I - Ad = W · q (s I - A)` with `q = h(αz+1-α)`, `q s = z - 1`. -/
theorem gbt_pencil (A W : Matrix σ σ K) (α h z s : K)
    (hW : W * (1 - (α * h) • A) = 1) (hs : h * (α * z + 1 - α) * s = z - 1) :
    z • (1 : Matrix σ σ K) - W * (1 + ((1 - α) * h) • A)
      = W * ((h * (α * z + 1 - α)) • (s • (1 : Matrix σ σ K) - A)) := by
  have h1 : z • (1 : Matrix σ σ K) = W * (z • (1 - (α * h) • A)) := by
    rw [Matrix.mul_smul, hW]
  rw [h1, ← Matrix.mul_sub]
  congr 1
  ext i j
  simp only [Matrix.sub_apply, Matrix.smul_apply, Matrix.add_apply, Matrix.one_apply, smul_eq_mul]
  have hs' : z = h * (α * z + 1 - α) * s + 1 := by rw [hs]; ring
  by_cases hij : i = j
  · subst hij
    simp only [if_true]
    linear_combination (-1 : K) * hs
  · simp only [if_neg hij]
    ring

/-- state equation of the discretised system applied to the scaled continuous state response. -/
theorem gbt_state_eq {ι : Type*} (A W : Matrix σ σ K) (α h z s : K) (X : Matrix σ ι K)
    (hW : W * (1 - (α * h) • A) = 1) (hq : h * (α * z + 1 - α) ≠ 0)
    (hs : h * (α * z + 1 - α) * s = z - 1) :
    (z • (1 : Matrix σ σ K) - W * (1 + ((1 - α) * h) • A)) * ((h / (h * (α * z + 1 - α))) • X)
      = W * (h • ((s • (1 : Matrix σ σ K) - A) * X)) := by
  rw [gbt_pencil A W α h z s hW hs, Matrix.mul_assoc]
  congr 1
  rw [Matrix.smul_mul, Matrix.mul_smul, smul_smul]
  congr 1
  have hh : h ≠ 0 := left_ne_zero_of_mul hq
  have hr : α * z + 1 - α ≠ 0 := right_ne_zero_of_mul hq
  field_simp

/-- output equation: `Cd ((h/q) X) + Dd = C X + D`. -/
theorem gbt_output_eq {ι o : Type*} (A W : Matrix σ σ K) (C : Matrix o σ K) (D : Matrix o ι K)
    (α h q s : K) (X : Matrix σ ι K) (hW : W * (1 - (α * h) • A) = 1)
    (h1 : h / q + α * h * s = 1) :
    C * W * ((h / q) • X) + (D + α • (C * (W * (h • ((s • (1 : Matrix σ σ K) - A) * X)))))
      = C * X + D := by
  have hWX : W * ((h / q) • X + (α * h) • ((s • (1 : Matrix σ σ K) - A) * X)) = X := by
    have : (h / q) • X + (α * h) • ((s • (1 : Matrix σ σ K) - A) * X)
        = (1 - (α * h) • A) * X := by
      rw [Matrix.sub_mul, Matrix.sub_mul, Matrix.one_mul, Matrix.smul_mul, Matrix.smul_mul,
        Matrix.one_mul]
      generalize A * X = AX
      ext i j
      simp only [Matrix.add_apply, Matrix.smul_apply, Matrix.sub_apply, smul_eq_mul]
      linear_combination (X i j) * h1
    rw [this, ← Matrix.mul_assoc, hW, Matrix.one_mul]
  have : C * W * ((h / q) • X) + (D + α • (C * (W * (h • ((s • (1 : Matrix σ σ K) - A) * X)))))
      = C * (W * ((h / q) • X + (α * h) • ((s • (1 : Matrix σ σ K) - A) * X))) + D := by
    simp only [Matrix.mul_add, Matrix.mul_smul, smul_smul, Matrix.mul_assoc]
    abel
  rw [this, hWX]

/-- the scalar identity behind the output equation. -/
theorem gbt_scalar (α h z : K) (hq : h * (α * z + 1 - α) ≠ 0) :
    h / (h * (α * z + 1 - α)) + α * h * ((z - 1) / (h * (α * z + 1 - α))) = 1 := by
  have hh : h ≠ 0 := left_ne_zero_of_mul hq
  have hr : α * z + 1 - α ≠ 0 := right_ne_zero_of_mul hq
  field_simp
  ring

theorem mul_div_self_cancel (q x : K) (hq : q ≠ 0) : q * (x / q) = x := by field_simp

theorem div_mul_div_self_cancel (a b : K) (ha : a ≠ 0) (hb : b ≠ 0) : a / b * (b / a) = 1 := by
  field_simp

/-- the certified inverse: a non-zero determinant makes `det⁻¹ • adjugate` a left inverse. -/
theorem invQ_mul_self (F : Matrix σ σ K) (h : F.det ≠ 0) : SS.invQ F * F = 1 := by
  unfold SS.invQ
  rw [Matrix.smul_mul, Matrix.adjugate_mul, smul_smul, inv_mul_cancel₀ h, one_smul]

end gbt

/-- `r` is `.ok x` with `p x`. -/
def okAnd {α : Type} (r : Except Err α) (p : α → Bool) : Bool :=
  match r with
  | .ok x => p x
  | .error _ => false

theorem okAnd_spec {α : Type} {r : Except Err α} {p : α → Bool} (h : okAnd r p = true) :
    ∃ x, r = .ok x ∧ p x = true := by
  cases r with
  | ok x => exact ⟨x, rfl, h⟩
  | error e => simp [okAnd] at h


section zoh

variable {K : Type*} [Field K]
variable {σ ι o : Type*} [Fintype σ] [DecidableEq σ] [Fintype ι] [DecidableEq ι]

theorem fromBlocks_zero_pow_succ (A : Matrix σ σ K) (B : Matrix σ ι K) (j : Nat) :
    (fromBlocks A B (0 : Matrix ι σ K) (0 : Matrix ι ι K)) ^ (j + 1)
      = fromBlocks (A ^ (j + 1)) (A ^ j * B) 0 0 := by
  induction j with
  | zero => simp
  | succ j ih =>
    rw [pow_succ, ih, fromBlocks_multiply]
    simp [pow_succ, Matrix.mul_assoc]

theorem sum_fromBlocks_top (a : Nat → Matrix σ σ K) (b : Nat → Matrix σ ι K) (n : Nat) :
    ∑ j ∈ Finset.range n, fromBlocks (a j) (b j) (0 : Matrix ι σ K) (0 : Matrix ι ι K)
      = fromBlocks (∑ j ∈ Finset.range n, a j) (∑ j ∈ Finset.range n, b j) 0 0 := by
  induction n with
  | zero => simp
  | succ n ih => rw [Finset.sum_range_succ, ih, Finset.sum_range_succ, Finset.sum_range_succ,
      fromBlocks_add]; simp

end zoh

section polylist

open Polynomial

variable {K : Type} [Field K]

theorem polyval_polymul (p q : List K) (x : K) : polyval (polymul p q) x = polyval p x * polyval q x := by
  simp [polyval_eq_eval, toPoly_polymul]

theorem polyval_polyadd (p q : List K) (x : K) : polyval (polyadd p q) x = polyval p x + polyval q x := by
  simp [polyval_eq_eval, toPoly_polyadd]

theorem polyval_scale (c : K) (p : List K) (x : K) : polyval (scale c p) x = c * polyval p x := by
  simp [polyval_eq_eval, toPoly_scale]

theorem polyval_nil (x : K) : polyval ([] : List K) x = 0 := rfl

theorem polyval_ppow (p : List K) (k : Nat) (x : K) : polyval (ppow p k) x = polyval p x ^ k := by
  induction k with
  | zero => simp [ppow, polyval]
  | succ k ih => rw [ppow, polyval_polymul, ih, pow_succ]; ring

/-- ascending Horner evaluation. -/
def evalAsc (l : List K) (t : K) : K := l.foldr (fun c acc => c + t * acc) 0

theorem evalAsc_reverse (p : List K) (t : K) : evalAsc p.reverse t = polyval p t := by
  unfold evalAsc polyval
  rw [List.foldr_reverse]
  congr 1
  funext acc c
  ring

theorem polyval_homog (a b l : List K) (x : K) (hB : polyval b x ≠ 0) :
    polyval (homog a b l) x * polyval b x
      = polyval b x ^ l.length * evalAsc l (polyval a x / polyval b x) := by
  induction l with
  | nil => simp [homog, polyval_nil, evalAsc]
  | cons c rest ih =>
    rw [homog, polyval_polyadd, polyval_scale, polyval_ppow, polyval_polymul, add_mul,
      mul_assoc (polyval a x), ih]
    simp only [evalAsc, List.foldr_cons, List.length_cons]
    generalize List.foldr (fun c acc => c + polyval a x / polyval b x * acc) 0 rest = E
    field_simp
    ring

theorem polyval_replicate_zero_append (k : Nat) (p : List K) (x : K) :
    polyval (List.replicate k 0 ++ p) x = polyval p x := by
  induction k with
  | zero => simp
  | succ k ih =>
    rw [List.replicate_succ, List.cons_append]
    unfold polyval at ih ⊢
    simpa using ih

theorem polyval_padLeft (n : Nat) (p : List K) (x : K) : polyval (padLeft n p) x = polyval p x :=
  polyval_replicate_zero_append _ p x

theorem polyval_trim [DecidableEq K] (p : List K) (x : K) : polyval (trim p) x = polyval p x := by
  simp [polyval_eq_eval, toPoly_trim]

theorem polyval_map_div (l : List K) (d x : K) : polyval (l.map (· / d)) x = polyval l x / d := by
  have : l.map (· / d) = scale d⁻¹ l := by
    unfold scale
    apply List.map_congr_left
    intro a _
    ring
  rw [this, polyval_scale]; ring

/-- value of the substituted polynomial: for a list `p` of length `n + 1`,
`homog (z-1) q p.reverse` evaluates to `q(z)^n p((z-1)/q(z))`. -/
theorem polyval_homog_rev (a b p : List K) (n : Nat) (hp : p.length = n + 1) (x : K)
    (hB : polyval b x ≠ 0) :
    polyval (homog a b p.reverse) x = polyval b x ^ n * polyval p (polyval a x / polyval b x) := by
  have h := polyval_homog a b p.reverse x hB
  rw [List.length_reverse, hp, evalAsc_reverse, pow_succ] at h
  have : polyval (homog a b p.reverse) x * polyval b x
      = (polyval b x ^ n * polyval p (polyval a x / polyval b x)) * polyval b x := by
    rw [h]; ring
  exact mul_right_cancel₀ hB this

theorem polyval_polyOfRoots_foldl (rs : List K) (acc : List K) (x : K) :
    polyval (rs.foldl (fun acc r => polymul acc [1, -r]) acc) x
      = polyval acc x * (rs.map (x - ·)).prod := by
  induction rs generalizing acc with
  | nil => simp
  | cons r rs ih =>
    rw [List.foldl_cons, ih, polyval_polymul]
    have : polyval ([1, -r] : List K) x = x - r := by simp [polyval]; ring
    rw [this, List.map_cons, List.prod_cons]
    ring

theorem polyval_polyOfRoots (rs : List K) (x : K) :
    polyval (polyOfRoots rs) x = (rs.map (x - ·)).prod := by
  unfold polyOfRoots
  rw [polyval_polyOfRoots_foldl]
  simp [polyval]

end polylist

section altbinom

open Finset

/-- `Σ_{k ≤ m} (-1)^k C(m,k) C(n-k,p)`. -/
def altS (m n p : ℕ) : ℤ :=
  ∑ k ∈ range (m + 1), (-1) ^ k * (m.choose k : ℤ) * ((n - k).choose p : ℤ)

theorem altS_succ (m n p : ℕ) :
    altS (m + 1) n p = altS m n p - altS m (n - 1) p := by
  unfold altS
  rw [sum_range_succ' _ (m + 1)]
  have h1 : ∀ k ∈ range (m + 1),
      (-1 : ℤ) ^ (k + 1) * ((m + 1).choose (k + 1) : ℤ) * ((n - (k + 1)).choose p : ℤ)
        = -((-1) ^ k * (m.choose k : ℤ) * ((n - 1 - k).choose p : ℤ))
          + (-1) ^ (k + 1) * (m.choose (k + 1) : ℤ) * ((n - (k + 1)).choose p : ℤ) := by
    intro k _
    have e : n - (k + 1) = n - 1 - k := by omega
    rw [Nat.choose_succ_succ, e]
    push_cast
    ring
  rw [sum_congr rfl h1, sum_add_distrib, sum_neg_distrib]
  have h2 : ∑ k ∈ range (m + 1), (-1 : ℤ) ^ (k + 1) * (m.choose (k + 1) : ℤ) * ((n - (k + 1)).choose p : ℤ)
      = ∑ k ∈ range (m + 1), (-1 : ℤ) ^ k * (m.choose k : ℤ) * ((n - k).choose p : ℤ)
        - (n.choose p : ℤ) := by
    have := sum_range_succ' (fun k => (-1 : ℤ) ^ k * (m.choose k : ℤ) * ((n - k).choose p : ℤ)) (m + 1)
    rw [sum_range_succ] at this
    simp only [Nat.choose_succ_self, Nat.cast_zero, mul_zero, zero_mul, add_zero, pow_zero,
      Nat.choose_zero_right, Nat.cast_one, one_mul, Nat.sub_zero, mul_one] at this
    linarith
  rw [h2]
  simp
  ring

theorem altS_eq (m : ℕ) : ∀ n p : ℕ, m ≤ n →
    altS m n p = if m ≤ p then ((n - m).choose (p - m) : ℤ) else 0 := by
  induction m with
  | zero => intro n p _; simp [altS]
  | succ m ih =>
    intro n p hn
    rw [altS_succ m n p, ih n p (by omega), ih (n - 1) p (by omega)]
    by_cases h1 : m + 1 ≤ p
    · have h0 : m ≤ p := by omega
      simp only [h0, h1, if_true]
      have e1 : n - m = (n - (m + 1)) + 1 := by omega
      have e2 : p - m = (p - (m + 1)) + 1 := by omega
      have e3 : n - 1 - m = n - (m + 1) := by omega
      rw [e3, e1, e2, Nat.choose_succ_succ]
      push_cast
      ring
    · by_cases h0 : m ≤ p
      · have : p = m := by omega
        subst this
        simp
      · simp [h0, h1]

end altbinom

section pade

variable {K : Type} [Field K]

theorem padeCoef_scale (c : K) (p q k : Nat) : padeCoef c p q k = c ^ k * padeCoef 1 p q k := by
  induction k with
  | zero => simp [padeCoef]
  | succ k ih =>
    simp only [padeCoef, ih, pow_succ]
    ring

theorem padeCoef_cast [CharZero K] (p q k : Nat) :
    ((padeCoef (1 : ℚ) p q k : ℚ) : K) = padeCoef (1 : K) p q k := by
  induction k with
  | zero => simp [padeCoef]
  | succ k ih =>
    simp only [padeCoef]
    push_cast
    rw [ih]

/-- closed form -/
theorem padeCoef_closed [CharZero K] (c : K) (p q k : Nat) (hk : k ≤ p) :
    padeCoef c p q k * (((p + q).factorial : K) * (k.factorial : K) * ((p - k).factorial : K))
      = c ^ k * (((p + q - k).factorial : K) * (p.factorial : K)) := by
  induction k with
  | zero => simp [padeCoef]
  | succ k ih =>
    have hk' : k ≤ p := Nat.le_of_succ_le hk
    have ih := ih hk'
    have e1 : p - k = (p - (k + 1)) + 1 := by omega
    have e2 : p + q - k = (p + q - (k + 1)) + 1 := by omega
    have hne : ((p + q - k : Nat) : K) ≠ 0 := by
      have : p + q - k ≠ 0 := by omega
      exact_mod_cast this
    have hne2 : ((k + 1 : Nat) : K) ≠ 0 := by exact_mod_cast Nat.succ_ne_zero k
    simp only [padeCoef]
    rw [e1, e2] at ih
    rw [Nat.factorial_succ (p - (k+1)), Nat.factorial_succ (p + q - (k+1))] at ih
    rw [Nat.factorial_succ k]
    rw [← e1, ← e2] at ih
    push_cast at ih ⊢
    field_simp
    linear_combination c * ih

theorem padeCoef_eq_zero (c : K) (p q k : Nat) (h : p < k) : padeCoef c p q k = 0 := by
  induction k with
  | zero => omega
  | succ j ih =>
    simp only [padeCoef]
    by_cases hj : p < j
    · rw [ih hj, zero_mul]
    · have : p - j = 0 := by omega
      simp [this]

/-- `coeffAt` of the lists `pade` builds. -/
theorem coeffAt_padeList_map (c : K) (p q : Nat) (f : K → K) (hf : f 0 = 0) (k : Nat) :
    coeffAt ((padeList c p q).map f) k = f (padeCoef c p q k) := by
  unfold coeffAt padeList
  rw [← List.map_reverse, List.reverse_reverse, List.map_map]
  by_cases hk : k < p + 1
  · simp [List.getD_eq_getElem?_getD, hk]
  · have h0 : padeCoef c p q k = 0 := padeCoef_eq_zero c p q k (by omega)
    simp [List.getD_eq_getElem?_getD, hk, h0, hf]

section general

open Finset

variable [CharZero K]

/-- closed form of the `T = 1` coefficients through a binomial coefficient, valid for every
`k ≤ p + q` (both sides vanish for `k > q`). -/
theorem padeCoef_one_choose (q p k : ℕ) (hk : k ≤ p + q) :
    padeCoef (1 : K) q p k * (((p + q).factorial : K) * (k.factorial : K))
      = (q.factorial : K) * (p.factorial : K) * ((p + q - k).choose p : K) := by
  by_cases hkq : k ≤ q
  · have h1 := padeCoef_closed (1 : K) q p k hkq
    have h2 : (p + q - k).choose p * p.factorial * (q - k).factorial = (p + q - k).factorial := by
      have := Nat.choose_mul_factorial_mul_factorial (n := p + q - k) (k := p) (by omega)
      have e : p + q - k - p = q - k := by omega
      rwa [e] at this
    have h2' : ((p + q - k).choose p : K) * (p.factorial : K) * ((q - k).factorial : K)
        = ((p + q - k).factorial : K) := by exact_mod_cast h2
    have hne : ((q - k).factorial : K) ≠ 0 := by exact_mod_cast Nat.factorial_ne_zero _
    apply mul_right_cancel₀ hne
    have e : q + p = p + q := by omega
    rw [e] at h1
    rw [one_pow, one_mul] at h1
    calc padeCoef (1 : K) q p k * (((p + q).factorial : K) * (k.factorial : K)) * ((q - k).factorial : K)
        = padeCoef (1 : K) q p k * (((p + q).factorial : K) * (k.factorial : K) * ((q - k).factorial : K)) := by ring
      _ = ((p + q - k).factorial : K) * (q.factorial : K) := h1
      _ = (q.factorial : K) * (p.factorial : K) * ((p + q - k).choose p : K) * ((q - k).factorial : K) := by
          rw [← h2']; ring
  · have h0 : padeCoef (1 : K) q p k = 0 := padeCoef_eq_zero 1 q p k (by omega)
    have hc : (p + q - k).choose p = 0 := Nat.choose_eq_zero_of_lt (by omega)
    rw [h0, hc]; simp

theorem neg_one_pow_sub (m k : ℕ) (hk : k ≤ m) : (-1 : K) ^ (m - k) = (-1) ^ m * (-1) ^ k := by
  have h1 : (-1 : K) ^ m = (-1) ^ (m - k) * (-1) ^ k := by rw [← pow_add]; congr 1; omega
  have h2 : (-1 : K) ^ k * (-1) ^ k = 1 := by rw [← pow_add, ← two_mul, pow_mul]; simp
  rw [h1, mul_assoc, h2, mul_one]

/-- **the `T`-free Padé identity for all orders**: `Σ_{k ≤ m} d_k (-1)^(m-k)/(m-k)! = (-1)^m n_m`
for `m ≤ p + q`, where `d_k`, `n_m` are the `T = 1` denominator and numerator coefficients. -/
theorem pade_row_general (q p m : ℕ) (hm : m ≤ p + q) :
    ∑ k ∈ range (m + 1), padeCoef (1 : K) q p k * ((-1) ^ (m - k) / ((m - k).factorial : K))
      = (-1) ^ m * padeCoef (1 : K) p q m := by
  have hF : (((p + q).factorial : K) * (m.factorial : K)) ≠ 0 := by
    apply mul_ne_zero <;> exact_mod_cast Nat.factorial_ne_zero _
  apply mul_right_cancel₀ hF
  rw [sum_mul]
  -- each term
  have hterm : ∀ k ∈ range (m + 1),
      padeCoef (1 : K) q p k * ((-1) ^ (m - k) / ((m - k).factorial : K))
          * (((p + q).factorial : K) * (m.factorial : K))
        = (q.factorial : K) * (p.factorial : K) * (-1) ^ m
          * (((-1) ^ k * (m.choose k : ℤ) * ((p + q - k).choose p : ℤ) : ℤ) : K) := by
    intro k hk
    have hkm : k ≤ m := Nat.lt_succ_iff.mp (mem_range.mp hk)
    have hc := padeCoef_one_choose (K := K) q p k (by omega)
    have hch : (m.choose k : K) * (k.factorial : K) * ((m - k).factorial : K) = (m.factorial : K) := by
      exact_mod_cast Nat.choose_mul_factorial_mul_factorial hkm
    have hne1 : ((m - k).factorial : K) ≠ 0 := by exact_mod_cast Nat.factorial_ne_zero _
    have hne2 : (k.factorial : K) ≠ 0 := by exact_mod_cast Nat.factorial_ne_zero _
    rw [neg_one_pow_sub m k hkm, ← hch]
    push_cast
    have : padeCoef (1 : K) q p k * ((-1) ^ m * (-1) ^ k / ((m - k).factorial : K))
          * (((p + q).factorial : K) * ((m.choose k : K) * (k.factorial : K) * ((m - k).factorial : K)))
        = (padeCoef (1 : K) q p k * (((p + q).factorial : K) * (k.factorial : K)))
          * ((-1) ^ m * (-1) ^ k * (m.choose k : K)) := by
      field_simp
    rw [this, hc]
    ring
  rw [sum_congr rfl hterm, ← mul_sum, ← Int.cast_sum]
  have hS := altS_eq m (p + q) p hm
  unfold altS at hS
  rw [hS]
  have hc2 := padeCoef_one_choose (K := K) p q m (by omega)
  have e : q + p = p + q := by omega
  rw [e] at hc2
  rw [mul_assoc ((-1 : K) ^ m), hc2]
  by_cases hmp : m ≤ p
  · simp only [hmp, if_true]
    have : (p + q - m).choose (p - m) = (p + q - m).choose q :=
      Nat.choose_symm_of_eq_add (by omega)
    rw [this]
    push_cast
    ring
  · have hc0 : (p + q - m).choose q = 0 := Nat.choose_eq_zero_of_lt (by omega)
    simp [hmp, hc0]

/-- the order identity for an arbitrary delay `T`: the Taylor coefficients of `D(s) e^{-sT}` and
`N(s)` agree through order `p + q`. -/
theorem pade_order_general (q p m : Nat) (hm : m ≤ p + q) (T : K) :
    ∑ k ∈ Finset.range (m + 1), padeCoef T q p k * ((-T) ^ (m - k) / ((m - k).factorial : K))
      = padeCoef (-T) p q m := by
  have hK := pade_row_general (K := K) q p m hm
  have e : padeCoef (-T) p q m = T ^ m * ((-1) ^ m * padeCoef 1 p q m) := by
    rw [padeCoef_scale (-T) p q m, neg_pow]; ring
  rw [e, ← hK, Finset.mul_sum]
  refine Finset.sum_congr rfl fun k hk => ?_
  have hk' : k ≤ m := Nat.lt_succ_iff.mp (Finset.mem_range.mp hk)
  rw [padeCoef_scale T q p k, neg_pow T (m - k)]
  have : T ^ m = T ^ k * T ^ (m - k) := by rw [← pow_add]; congr 1; omega
  rw [this]
  ring

end general

end pade

end CtrlVerif
