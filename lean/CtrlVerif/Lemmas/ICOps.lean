/-
Lemmas for C07, operator forms: how `buildMaps` evaluates the index-tuple lists that
`NonlinearIOSystem.__add__` … `feedback` write.
-/
import CtrlVerif.Lemmas.Interconnect
import Mathlib.Algebra.Field.Defs
import Mathlib.Logic.Equiv.Fin.Basic

namespace CtrlVerif.IC

variable {K : Type} [Field K] [DecidableEq K]

theorem mapM_zipIdx_ok {α β : Type} (f : α × Nat → Except Err β) (g : Nat → β) :
    ∀ (l : List α) (n : Nat), (∀ i (hi : i < l.length), f (l[i], n + i) = .ok (g (n + i))) →
      (l.zipIdx n).mapM f = .ok ((List.range' n l.length).map g) := by
  intro l
  induction l with
  | nil => intro n _; rfl
  | cons a l ih =>
    intro n h
    have h0 := h 0 (by simp)
    simp only [List.getElem_cons_zero, Nat.add_zero] at h0
    have ih' := ih (n + 1) (by
      intro i hi
      have := h (i + 1) (by simpa using hi)
      simpa [Nat.add_assoc, Nat.add_comm 1 i] using this)
    rw [List.zipIdx_cons, List.mapM_cons, h0, ih']
    simp [List.range'_succ]
    rfl

theorem sysIndex_idx (sigs : List SysSig) (si : Nat) (h : si < sigs.length) :
    sysIndex sigs (.idx (si : Int)) = .ok si := by
  simp [sysIndex, h]

theorem parseSpec_pair (sigs : List SysSig) (d : Dict) (si i : Nat) (S : SysSig)
    (hS : sigs[si]? = some S) (hi : i < (S.labels d).length) :
    parseSpec (K := K) sigs d (pairSpec si i) = .ok (si, [i], 1) := by
  have hlt : si < sigs.length := by
    rcases List.getElem?_eq_some_iff.mp hS with ⟨h, _⟩; exact h
  simp [parseSpec, pairSpec, gainConflict, gainOf, sysIndex_idx sigs si hlt, hS, sigIndices, idxBad, hi]

theorem parseSpec_triple (sigs : List SysSig) (d : Dict) (si i : Nat) (g : K) (S : SysSig)
    (hS : sigs[si]? = some S) (hi : i < (S.labels d).length) :
    parseSpec (K := K) sigs d (tripleSpec si i g) = .ok (si, [i], g) := by
  have hlt : si < sigs.length := by
    rcases List.getElem?_eq_some_iff.mp hS with ⟨h, _⟩; exact h
  simp [parseSpec, tripleSpec, gainConflict, gainOf, sysIndex_idx sigs si hlt, hS, sigIndices, idxBad, hi]


theorem parseInputSpec_pair (sigs : List SysSig) (si i : Nat) (S : SysSig)
    (hS : sigs[si]? = some S) (hi : i < S.inputs.length) :
    parseInputSpec (K := K) sigs (pairSpec si i) = .ok [offset sigs .input si + i] := by
  simp [parseInputSpec, parseSpec_pair sigs .input si i S hS hi]

theorem parseOutputSpec_pair (sigs : List SysSig) (si i : Nat) (S : SysSig)
    (hS : sigs[si]? = some S) (hi : i < S.outputs.length) :
    parseOutputSpec (K := K) sigs (pairSpec si i) = .ok ([offset sigs .output si + i], 1) := by
  simp [parseOutputSpec, parseSpec_pair sigs .output si i S hS hi]

theorem parseOutputSpec_triple (sigs : List SysSig) (si i : Nat) (g : K) (S : SysSig)
    (hS : sigs[si]? = some S) (hi : i < S.outputs.length) :
    parseOutputSpec (K := K) sigs (tripleSpec si i g) = .ok ([offset sigs .output si + i], g) := by
  simp [parseOutputSpec, parseSpec_triple sigs .output si i g S hS hi]

theorem inpPart_pair (sigs : List SysSig) (k si i : Nat) (S : SysSig)
    (hS : sigs[si]? = some S) (hi : i < S.inputs.length) :
    inpPart (K := K) sigs k (pairSpec si i) = .ok [(offset sigs .input si + i, k, 1)] := by
  simp [inpPart, parseInputSpec_pair sigs si i S hS hi]

theorem outPart_pair (sigs : List SysSig) (k si i : Nat) (S : SysSig)
    (hS : sigs[si]? = some S) (hi : i < S.outputs.length) :
    outPart (K := K) sigs k (pairSpec si i) = .ok [(k, offset sigs .output si + i, 1)] := by
  simp [outPart, parseOutputSpec_pair sigs si i S hS hi]

theorem outPart_triple (sigs : List SysSig) (k si i : Nat) (g : K) (S : SysSig)
    (hS : sigs[si]? = some S) (hi : i < S.outputs.length) :
    outPart (K := K) sigs k (tripleSpec si i g) = .ok [(k, offset sigs .output si + i, g)] := by
  simp [outPart, parseOutputSpec_triple sigs si i g S hS hi]

theorem mapM_two {α β : Type} (f : α → Except Err β) (a b : α) (x y : β)
    (ha : f a = .ok x) (hb : f b = .ok y) : [a, b].mapM f = .ok [x, y] := by
  simp [List.mapM_cons, ha, hb]
  rfl

theorem mapM_one {α β : Type} (f : α → Except Err β) (a : α) (x : β)
    (ha : f a = .ok x) : [a].mapM f = .ok [x] := by
  simp [List.mapM_cons, ha]

theorem offset_zero (sigs : List SysSig) (d : Dict) : offset sigs d 0 = 0 := by
  simp [offset]

theorem offset_one (S : SysSig) (l : List SysSig) (d : Dict) :
    offset (S :: l) d 1 = (S.labels d).length := by
  simp [offset]

theorem total_one (S : SysSig) (d : Dict) : total [S] d = (S.labels d).length := by
  simp [total, offset]

theorem total_two (S₁ S₂ : SysSig) (d : Dict) :
    total [S₁, S₂] d = (S₁.labels d).length + (S₂.labels d).length := by
  simp [total, offset]

/-- `buildMaps` without connections on lists whose `k`-th element evaluates to `gi k` / `go k`,
all inside the arrays. -/
theorem buildMaps_ok (sigs : List SysSig) (il ol : List (List (Spec K)))
    (gi go : Nat → List (Entry K)) (nin nout : Nat)
    (hi : ∀ i (h : i < il.length), inpEntries sigs i il[i] = .ok (gi i))
    (ho : ∀ i (h : i < ol.length), outEntries sigs i ol[i] = .ok (go i))
    (hib : ∀ i, i < il.length → ∀ e ∈ gi i, e.2.1 < nin)
    (hob : ∀ i, i < ol.length → ∀ e ∈ go i, e.1 < nout) :
    buildMaps sigs [] il ol nin nout =
      .ok ⟨total sigs .input, total sigs .output, nin, nout, [],
           (List.range il.length).flatMap gi, (List.range ol.length).flatMap go⟩ := by
  have hI := mapM_zipIdx_ok (fun ek : List (Spec K) × Nat => inpEntries sigs ek.2 ek.1) gi il 0
    (by intro i h; simpa using hi i h)
  have hO := mapM_zipIdx_ok (fun ek : List (Spec K) × Nat => outEntries sigs ek.2 ek.1) go ol 0
    (by intro i h; simpa using ho i h)
  rw [← List.range_eq_range'] at hI hO
  have hA : (((List.range il.length).map gi).flatten.any fun e => decide (nin ≤ e.2.1)) = false := by
    rw [List.any_eq_false]
    intro e he
    simp only [List.mem_flatten, List.mem_map, List.mem_range] at he
    obtain ⟨l, ⟨k, hk, rfl⟩, he⟩ := he
    have := hib k hk e he
    simp; omega
  have hB : (((List.range ol.length).map go).flatten.any fun e => decide (nout ≤ e.1)) = false := by
    rw [List.any_eq_false]
    intro e he
    simp only [List.mem_flatten, List.mem_map, List.mem_range] at he
    obtain ⟨l, ⟨k, hk, rfl⟩, he⟩ := he
    have := hob k hk e he
    simp; omega
  simp only [buildMaps, hI, hO, hA, hB, List.mapM_nil, List.flatMap_def, Bool.false_eq_true, if_false]
  rfl


theorem flatMap_single {α β : Type} (l : List α) (f : α → β) :
    (l.flatMap fun i => [f i]) = l.map f := by
  induction l with
  | nil => rfl
  | cons a l ih => simp [List.flatMap_cons, ih]

theorem inpEntries_pair (sigs : List SysSig) (k si i : Nat) (S : SysSig)
    (hS : sigs[si]? = some S) (hi : i < S.inputs.length) :
    inpEntries (K := K) sigs k [pairSpec si i] = .ok [(offset sigs .input si + i, k, 1)] := by
  rw [inpEntries, mapM_one _ _ _ (inpPart_pair sigs k si i S hS hi)]
  rfl

theorem outEntries_pair (sigs : List SysSig) (k si i : Nat) (S : SysSig)
    (hS : sigs[si]? = some S) (hi : i < S.outputs.length) :
    outEntries (K := K) sigs k [pairSpec si i] = .ok [(k, offset sigs .output si + i, 1)] := by
  rw [outEntries, mapM_one _ _ _ (outPart_pair sigs k si i S hS hi)]
  rfl

theorem outEntries_triple (sigs : List SysSig) (k si i : Nat) (g : K) (S : SysSig)
    (hS : sigs[si]? = some S) (hi : i < S.outputs.length) :
    outEntries (K := K) sigs k [tripleSpec si i g] = .ok [(k, offset sigs .output si + i, g)] := by
  rw [outEntries, mapM_one _ _ _ (outPart_triple sigs k si i g S hS hi)]
  rfl

/-- closed form of the input map of `sys1 ± sys2` (both with `m` inputs). -/
def parInp (m : Nat) : List (Entry K) :=
  (List.range m).flatMap fun i => [(i, i, 1), (m + i, i, 1)]

/-- closed form of the output map of `sys1 + g sys2` (both with `p` outputs). -/
def parOut (p : Nat) (g : K) : List (Entry K) :=
  (List.range p).flatMap fun i => [(i, i, 1), (i, p + i, g)]

theorem opParallel_ok (S₁ S₂ : SysSig) (m p : Nat) (h1 : S₁.nin = m) (h2 : S₂.nin = m)
    (h3 : S₁.nout = p) (h4 : S₂.nout = p) (g : Option K) :
    opParallel S₁ S₂ g = .ok ⟨m + m, p + p, m, p, [], parInp m, parOut p (g.getD 1)⟩ := by
  simp only [SysSig.nin, SysSig.nout] at h1 h2 h3 h4
  have hb := buildMaps_ok (K := K) [S₁, S₂]
    ((List.range m).map fun i => [pairSpec 0 i, pairSpec 1 i])
    ((List.range p).map fun i => [pairSpec 0 i, secondSpec g i])
    (fun i => [(i, i, 1), (m + i, i, 1)]) (fun i => [(i, i, 1), (i, p + i, g.getD 1)]) m p
    (by
      intro i hi
      simp only [List.length_map, List.length_range] at hi
      have a := inpPart_pair (K := K) [S₁, S₂] i 0 i S₁ rfl (by omega)
      have b := inpPart_pair (K := K) [S₁, S₂] i 1 i S₂ rfl (by omega)
      simp only [List.getElem_map, List.getElem_range]
      rw [inpEntries, mapM_two _ _ _ _ _ a b]
      simp [Except.map, offset_zero, offset_one, SysSig.labels, h1])
    (by
      intro i hi
      simp only [List.length_map, List.length_range] at hi
      have a := outPart_pair (K := K) [S₁, S₂] i 0 i S₁ rfl (by omega)
      have b : outPart (K := K) [S₁, S₂] i (secondSpec g i)
          = .ok [(i, offset [S₁, S₂] .output 1 + i, g.getD 1)] := by
        cases g with
        | none => exact outPart_pair (K := K) [S₁, S₂] i 1 i S₂ rfl (by omega)
        | some g => exact outPart_triple (K := K) [S₁, S₂] i 1 i g S₂ rfl (by omega)
      simp only [List.getElem_map, List.getElem_range]
      rw [outEntries, mapM_two _ _ _ _ _ a b]
      simp [Except.map, offset_zero, offset_one, SysSig.labels, h3])
    (by
      intro i hi e he
      simp only [List.length_map, List.length_range] at hi
      simp only [List.mem_cons, List.not_mem_nil, or_false] at he
      rcases he with rfl | rfl <;> exact hi)
    (by
      intro i hi e he
      simp only [List.length_map, List.length_range] at hi
      simp only [List.mem_cons, List.not_mem_nil, or_false] at he
      rcases he with rfl | rfl <;> exact hi)
  have hc : ¬ (S₁.nin ≠ S₂.nin ∨ S₁.nout ≠ S₂.nout) := by simp [SysSig.nin, SysSig.nout, h1, h2, h3, h4]
  simp only [opParallel, hc, if_false]
  simp only [SysSig.nin, SysSig.nout, h1, h3]
  rw [hb]
  simp [total_two, SysSig.labels, h1, h2, h3, h4, parInp, parOut]

theorem opNeg_ok (S : SysSig) (m p : Nat) (h1 : S.nin = m) (h3 : S.nout = p) :
    opNeg (K := K) S = .ok ⟨m, p, m, p, [], eyeEntries 0 0 m 1, eyeEntries 0 0 p (-1)⟩ := by
  simp only [SysSig.nin, SysSig.nout] at h1 h3
  have hb := buildMaps_ok (K := K) [S]
    ((List.range m).map fun i => [pairSpec 0 i])
    ((List.range p).map fun i => [tripleSpec 0 i (-1)])
    (fun i => [(i, i, 1)]) (fun i => [(i, i, -1)]) m p
    (by
      intro i hi
      simp only [List.length_map, List.length_range] at hi
      simp only [List.getElem_map, List.getElem_range]
      rw [inpEntries_pair [S] i 0 i S rfl (by omega)]
      simp [offset_zero])
    (by
      intro i hi
      simp only [List.length_map, List.length_range] at hi
      simp only [List.getElem_map, List.getElem_range]
      rw [outEntries_triple [S] i 0 i (-1) S rfl (by omega)]
      simp [offset_zero])
    (by
      intro i hi e he
      simp only [List.length_map, List.length_range] at hi
      simp only [List.mem_cons, List.not_mem_nil, or_false] at he
      subst he; exact hi)
    (by
      intro i hi e he
      simp only [List.length_map, List.length_range] at hi
      simp only [List.mem_cons, List.not_mem_nil, or_false] at he
      subst he; exact hi)
  simp only [opNeg, SysSig.nin, SysSig.nout, h1, h3]
  rw [hb]
  simp [total_one, SysSig.labels, h1, h3, flatMap_single, eyeEntries]


/-- inputs of the first, outputs of the `k`-th subsystem: the lists of the series / feedback
forms. -/
theorem buildMaps_first_to (S₁ S₂ : SysSig) (k : Nat) (Sk : SysSig) (hk : [S₁, S₂][k]? = some Sk)
    (m p : Nat) (h1 : S₁.inputs.length = m) (hp : Sk.outputs.length = p) :
    buildMaps (K := K) [S₁, S₂] []
      ((List.range m).map fun i => [pairSpec 0 i])
      ((List.range p).map fun i => [pairSpec k i]) m p =
    .ok ⟨S₁.inputs.length + S₂.inputs.length, S₁.outputs.length + S₂.outputs.length, m, p, [],
         eyeEntries 0 0 m 1, eyeEntries 0 (offset [S₁, S₂] .output k) p 1⟩ := by
  have hb := buildMaps_ok (K := K) [S₁, S₂]
    ((List.range m).map fun i => [pairSpec 0 i])
    ((List.range p).map fun i => [pairSpec k i])
    (fun i => [(i, i, 1)]) (fun i => [(i, offset [S₁, S₂] .output k + i, 1)]) m p
    (by
      intro i hi
      simp only [List.length_map, List.length_range] at hi
      simp only [List.getElem_map, List.getElem_range]
      rw [inpEntries_pair [S₁, S₂] i 0 i S₁ rfl (by omega)]
      simp [offset_zero])
    (by
      intro i hi
      simp only [List.length_map, List.length_range] at hi
      simp only [List.getElem_map, List.getElem_range]
      rw [outEntries_pair [S₁, S₂] i k i Sk hk (by omega)])
    (by
      intro i hi e he
      simp only [List.length_map, List.length_range] at hi
      simp only [List.mem_cons, List.not_mem_nil, or_false] at he
      subst he; exact hi)
    (by
      intro i hi e he
      simp only [List.length_map, List.length_range] at hi
      simp only [List.mem_cons, List.not_mem_nil, or_false] at he
      subst he; exact hi)
  rw [hb]
  simp [total_two, SysSig.labels, flatMap_single, eyeEntries]

theorem opSeries_ok (S₁ S₂ : SysSig) (m q p : Nat) (h1 : S₁.nin = m) (h2 : S₁.nout = q)
    (h3 : S₂.nin = q) (h4 : S₂.nout = p) :
    opSeries (K := K) S₁ S₂ = .ok ⟨m + q, q + p, m, p, eyeEntries m 0 q 1, eyeEntries 0 0 m 1,
      eyeEntries 0 q p 1⟩ := by
  simp only [SysSig.nin, SysSig.nout] at h1 h2 h3 h4
  have hc : ¬ (S₁.nout ≠ S₂.nin) := by simp [SysSig.nin, SysSig.nout, h2, h3]
  simp only [opSeries, hc, if_false]
  simp only [SysSig.nin, SysSig.nout, h1, h4]
  rw [buildMaps_first_to S₁ S₂ 1 S₂ rfl m p h1 h4]
  simp [Except.map, Maps.setConnect, offset_one, SysSig.labels, h1, h2, h3, h4]

theorem opFeedback_ok (S₁ S₂ : SysSig) (m p : Nat) (sign : K) (h1 : S₁.nin = m) (h2 : S₁.nout = p)
    (h3 : S₂.nin = p) (h4 : S₂.nout = m) :
    opFeedback S₁ S₂ sign = .ok ⟨m + p, p + m, m, p,
      eyeEntries 0 p m sign ++ eyeEntries m 0 p 1, eyeEntries 0 0 m 1, eyeEntries 0 0 p 1⟩ := by
  simp only [SysSig.nin, SysSig.nout] at h1 h2 h3 h4
  have hc : ¬ (S₁.nout ≠ S₂.nin ∨ S₂.nout ≠ S₁.nin) := by simp [SysSig.nin, SysSig.nout, h1, h2, h3, h4]
  simp only [opFeedback, hc, if_false]
  simp only [SysSig.nin, SysSig.nout, h1, h2]
  rw [buildMaps_first_to S₁ S₂ 0 S₁ rfl m p h1 h2]
  simp [Except.map, Maps.setConnect, offset_zero, h1, h2, h3, h4]

/-! ### the maps as matrices -/

open Matrix

theorem toMat_append' (r c : Nat) (es₁ es₂ : List (Entry K)) :
    toMat r c (es₁ ++ es₂) = toMat r c es₁ + toMat r c es₂ := by
  ext i j
  simp [toMat, List.filter_append, List.map_append, List.sum_append]

theorem toMat_nil (r c : Nat) : toMat (K := K) r c [] = 0 := by
  ext i j; simp [toMat]

theorem toMat_single (r c a b : Nat) (v : K) (i : Fin r) (j : Fin c) :
    toMat r c [(a, b, v)] i j = if a = i.val ∧ b = j.val then v else 0 := by
  by_cases h : a = i.val ∧ b = j.val
  · simp [toMat, h]
  · have : ¬ (a = i.val ∧ b = j.val) := h
    simp only [toMat, List.filter_cons, List.filter_nil]
    simp only [beq_iff_eq, Bool.and_eq_true, this, if_false]
    simp

theorem toMat_eyeEntries (r c ro co n : Nat) (g : K) (i : Fin r) (j : Fin c) :
    toMat r c (eyeEntries ro co n g) i j =
      if ro ≤ i.val ∧ i.val < ro + n ∧ j.val + ro = co + i.val then g else 0 := by
  induction n with
  | zero =>
    have h : ¬ (ro ≤ i.val ∧ i.val < ro + 0 ∧ j.val + ro = co + i.val) := by omega
    rw [if_neg h]
    simp [eyeEntries, toMat]
  | succ n ih =>
    have : eyeEntries ro co (n + 1) g = eyeEntries ro co n g ++ [(ro + n, co + n, g)] := by
      simp [eyeEntries, List.range_succ]
    rw [this, toMat_append', Matrix.add_apply, ih, toMat_single]
    by_cases h1 : ro ≤ i.val ∧ i.val < ro + n ∧ j.val + ro = co + i.val
    · have h2 : ¬ (ro + n = i.val ∧ co + n = j.val) := by omega
      have h3 : ro ≤ i.val ∧ i.val < ro + (n + 1) ∧ j.val + ro = co + i.val := by omega
      simp [h1, h2, h3]
    · by_cases h2 : ro + n = i.val ∧ co + n = j.val
      · have h3 : ro ≤ i.val ∧ i.val < ro + (n + 1) ∧ j.val + ro = co + i.val := by omega
        simp [h1, h2, h3]
      · have h3 : ¬ (ro ≤ i.val ∧ i.val < ro + (n + 1) ∧ j.val + ro = co + i.val) := by omega
        simp [h1, h2, h3]

theorem toMat_flatMap_pair {α : Type} (r c : Nat) (l : List α) (f h : α → Entry K) :
    toMat r c (l.flatMap fun i => [f i, h i]) = toMat r c (l.map f) + toMat r c (l.map h) := by
  induction l with
  | nil => simp [toMat_nil]
  | cons a l ih =>
    have e1 : ((a :: l).flatMap fun i => [f i, h i]) = [f a] ++ ([h a] ++ l.flatMap fun i => [f i, h i]) := by
      simp [List.flatMap_cons]
    have e2 : (a :: l).map f = [f a] ++ l.map f := by simp
    have e3 : (a :: l).map h = [h a] ++ l.map h := by simp
    rw [e1, e2, e3, toMat_append', toMat_append', toMat_append', toMat_append', ih]
    abel

theorem toMat_parInp (r c m : Nat) :
    toMat (K := K) r c (parInp m) = toMat r c (eyeEntries 0 0 m 1) + toMat r c (eyeEntries m 0 m 1) := by
  rw [parInp, toMat_flatMap_pair]
  simp [eyeEntries]

theorem toMat_parOut (r c p : Nat) (g : K) :
    toMat (K := K) r c (parOut p g) = toMat r c (eyeEntries 0 0 p 1) + toMat r c (eyeEntries 0 p p g) := by
  rw [parOut, toMat_flatMap_pair]
  simp [eyeEntries]

/-- the value of a `Fin` index built by `finSumFinEquiv` / `Fin.castAdd` / `Fin.natAdd`. -/
macro "fin_val" : tactic => `(tactic| first | (simp; done) | (simp; omega))

/-- close `(if C then g else 0) = 0` or `= if a = b then g else 0` (`a b : Fin _`) by arithmetic. -/
macro "eye_close" : tactic =>
  `(tactic| first
    | exact if_neg (by omega)
    | exact if_congr (by rw [Fin.ext_iff]; omega) rfl rfl)

theorem toMat_eye_val (r c ro co n : Nat) (g : K) (i : Fin r) (j : Fin c) (a b : Nat)
    (hi : i.val = a) (hj : j.val = b) :
    toMat r c (eyeEntries ro co n g) i j = if ro ≤ a ∧ a < ro + n ∧ b + ro = co + a then g else 0 := by
  subst hi hj; exact toMat_eyeEntries r c ro co n g i j

end CtrlVerif.IC

namespace CtrlVerif

theorem Wiring.ext' {K : Type*} {ι o w z : Type*} {W W' : Wiring ι o w z K} (h1 : W.Kc = W'.Kc)
    (h2 : W.M = W'.M) (h3 : W.Oy = W'.Oy) (h4 : W.Ou = W'.Ou) : W = W' := by
  cases W; cases W'; simp_all

end CtrlVerif
