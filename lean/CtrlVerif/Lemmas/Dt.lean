/-
Lemmas for the timebase calculus (C05): the rule of the property statement (`join`), its
semilattice structure, and the refinement `common = join` on timebases that are valid and
identical-or-not-close.
-/
import CtrlVerif.Model.DtOps
import Mathlib.Algebra.Order.Ring.Rat
import Mathlib.Tactic.Linarith
import Mathlib.Tactic.NormNum

namespace CtrlVerif

/-! ### the rule stated by the property -/

/-- "None combines with anything and yields the other, True combines with any discrete timebase and
yields it, equal timebases yield themselves, every other pair is an error" (`Option.none`). -/
def join : Dt → Dt → Option Dt
  | .none, d => some d
  | d, .none => some d
  | .dtrue, .dtrue => some .dtrue
  | .dtrue, .disc h => some (.disc h)
  | .disc h, .dtrue => some (.disc h)
  | .cont, .cont => some .cont
  | .disc a, .disc b => if a = b then some (.disc a) else Option.none
  | _, _ => Option.none

/-- lifted to results (`Option.none` = incompatible, absorbing). -/
def join' (a b : Option Dt) : Option Dt :=
  match a, b with
  | some x, some y => join x y
  | _, _ => Option.none

/-- incompatible ↦ the `ValueError` of `common_timebase`. -/
def ofOpt : Option Dt → Except Err Dt
  | some d => .ok d
  | Option.none => .error .timebase

/-- join of a list of timebases, from `None`. -/
def joinAll (l : List Dt) : Option Dt := l.foldl (fun acc d => join' acc (some d)) (some .none)

/-- the order whose join this is: `None < True < dt`, `None < 0`. -/
def Dt.le (a b : Dt) : Prop := join a b = some b

/-! ### `close` -/

theorem close_self (a : Rat) : close a a = true := by
  unfold close
  simp only [sub_self, lt_self_iff_false, if_false, decide_eq_true_eq]
  have : (0 : Rat) ≤ (if a < 0 then -a else a) := by
    split <;> linarith
  have h1 : (0 : Rat) ≤ 1 / 100000 * (if a < 0 then -a else a) := by positivity
  linarith

/-- numeric timebases (`0` or `dt > 0`). -/
def Dt.isNum : Dt → Bool
  | .cont | .disc _ => true
  | _ => false

/-- the two timebases are identical or clearly different: numerically equal, or not within the
`np.isclose` tolerance (in either order).  Vacuous unless both are numeric. -/
def Dt.sep (a b : Dt) : Prop :=
  a.isNum = true → b.isNum = true →
    (a.num = b.num ∨ (close a.num b.num = false ∧ close b.num a.num = false))

theorem Dt.sep_symm {a b : Dt} (h : a.sep b) : b.sep a := by
  intro hb ha
  rcases h ha hb with h | ⟨h1, h2⟩
  · exact Or.inl h.symm
  · exact Or.inr ⟨h2, h1⟩

theorem Dt.sep_none_left (b : Dt) : Dt.sep .none b := by intro h; simp [Dt.isNum] at h
theorem Dt.sep_none_right (a : Dt) : Dt.sep a .none := by intro _ h; simp [Dt.isNum] at h
theorem Dt.sep_true_left (b : Dt) : Dt.sep .dtrue b := by intro h; simp [Dt.isNum] at h
theorem Dt.sep_true_right (a : Dt) : Dt.sep a .dtrue := by intro _ h; simp [Dt.isNum] at h
theorem Dt.sep_self (a : Dt) : a.sep a := fun _ _ => Or.inl rfl

/-! ### semilattice laws of `join` -/

theorem join_comm (a b : Dt) : join a b = join b a := by
  cases a <;> cases b <;> simp [join]
  rename_i x y
  by_cases h : x = y
  · subst h; simp
  · have : ¬ y = x := fun e => h e.symm
    simp [h, this]

theorem join_idem (a : Dt) : join a a = some a := by
  cases a <;> simp [join]

theorem join_none_left (d : Dt) : join .none d = some d := by cases d <;> rfl
theorem join_none_right (d : Dt) : join d .none = some d := by cases d <;> rfl

theorem join_mem {a b c : Dt} (h : join a b = some c) : c = a ∨ c = b := by
  cases a <;> cases b <;> simp [join] at h <;> try (subst h; simp)
  rename_i x y
  obtain ⟨_, h2⟩ := h
  subst h2; simp

@[simp] theorem join'_some (x y : Dt) : join' (some x) (some y) = join x y := rfl
@[simp] theorem join'_none_right (a : Option Dt) : join' a Option.none = Option.none := by
  cases a <;> rfl
@[simp] theorem join'_none_left (a : Option Dt) : join' Option.none a = Option.none := rfl

theorem join_assoc3 (a b c : Dt) : join' (join a b) (some c) = join' (some a) (join b c) := by
  cases a <;> cases b <;> cases c <;> simp [join, join'] <;>
    (try split_ifs) <;> simp_all [join, join']

theorem join'_assoc (a b c : Option Dt) : join' (join' a b) c = join' a (join' b c) := by
  rcases a with _ | a <;> rcases b with _ | b <;> rcases c with _ | c <;> simp
  exact join_assoc3 a b c

theorem join'_comm (a b : Option Dt) : join' a b = join' b a := by
  rcases a with _ | a <;> rcases b with _ | b <;> simp [join', join_comm]

theorem join'_none_unit (a : Option Dt) : join' (some .none) a = a := by
  rcases a with _ | a <;> simp [join', join_none_left]

theorem join_valid {a b c : Dt} (ha : a.valid) (hb : b.valid) (h : join a b = some c) : c.valid := by
  rcases join_mem h with rfl | rfl <;> assumption

/-! ### folding -/

theorem foldl_join'_none (l : List Dt) :
    l.foldl (fun acc d => join' acc (some d)) Option.none = Option.none := by
  induction l with
  | nil => rfl
  | cons x xs ih => simpa [List.foldl, join'] using ih

theorem foldl_join'_init (l : List Dt) (acc : Option Dt) :
    l.foldl (fun acc d => join' acc (some d)) acc = join' acc (joinAll l) := by
  unfold joinAll
  induction l generalizing acc with
  | nil =>
    rcases acc with _ | a
    · simp [join']
    · simp [join', join_none_right]
  | cons x xs ih =>
    simp only [List.foldl]
    rw [ih (join' acc (some x)), ih (join' (some Dt.none) (some x))]
    rw [join'_none_unit, join'_assoc]

theorem joinAll_append (l₁ l₂ : List Dt) : joinAll (l₁ ++ l₂) = join' (joinAll l₁) (joinAll l₂) := by
  unfold joinAll
  rw [List.foldl_append, foldl_join'_init]
  rfl

theorem joinAll_cons (a : Dt) (l : List Dt) : joinAll (a :: l) = join' (some a) (joinAll l) := by
  have := joinAll_append [a] l
  simpa [joinAll, join', join_none_left] using this

theorem joinAll_perm {l₁ l₂ : List Dt} (p : l₁.Perm l₂) : joinAll l₁ = joinAll l₂ := by
  unfold joinAll
  refine p.foldl_eq' (fun x _ y _ z => ?_) _
  show join' (join' z (some x)) (some y) = join' (join' z (some y)) (some x)
  rw [join'_assoc, join'_assoc, join'_comm (some x) (some y)]

/-- every element is below the join of the list. -/
theorem le_joinAll {l : List Dt} {c : Dt} (h : joinAll l = some c) : ∀ a ∈ l, a.le c := by
  induction l generalizing c with
  | nil => intro a ha; cases ha
  | cons x xs ih =>
    rw [joinAll_cons] at h
    cases hxs : joinAll xs with
    | none => simp [hxs] at h
    | some d =>
      rw [hxs, join'_some] at h
      intro a ha
      have hxc : join x c = some c :=
        calc join x c = join' (some x) (join' (some x) (some d)) := by rw [join'_some x d, h]; rfl
          _ = join' (join' (some x) (some x)) (some d) := (join'_assoc _ _ _).symm
          _ = some c := by rw [join'_some x x, join_idem, join'_some, h]
      have hdc : join d c = some c :=
        calc join d c = join' (some d) (join' (some x) (some d)) := by rw [join'_some x d, h]; rfl
          _ = join' (join' (some d) (some x)) (some d) := (join'_assoc _ _ _).symm
          _ = join' (join' (some x) (some d)) (some d) := by rw [join'_comm (some d) (some x)]
          _ = join' (some x) (join' (some d) (some d)) := join'_assoc _ _ _
          _ = some c := by rw [join'_some d d, join_idem, join'_some, h]
      rcases List.mem_cons.mp ha with rfl | hmem
      · exact hxc
      · have had : join a d = some d := ih hxs a hmem
        show join a c = some c
        calc join a c = join' (some a) (join' (some d) (some c)) := by rw [join'_some d c, hdc]; rfl
          _ = join' (join' (some a) (some d)) (some c) := (join'_assoc _ _ _).symm
          _ = some c := by rw [join'_some a d, had, join'_some, hdc]

/-- two timebases with a common upper bound are compatible. -/
theorem join_isSome_of_le {a b c : Dt} (ha : a.le c) (hb : b.le c) : (join a b).isSome = true := by
  unfold Dt.le at ha hb
  cases a <;> cases b <;> cases c <;> simp_all [join]

theorem exists_incompat_of_join_none (x : Dt) :
    ∀ (ys : List Dt) (e : Dt), joinAll ys = some e → join x e = Option.none →
      ∃ y ∈ ys, join x y = Option.none := by
  intro ys
  induction ys with
  | nil =>
    intro e he hx
    simp [joinAll] at he
    subst he
    simp [join_none_right] at hx
  | cons y ys ih =>
    intro e he hx
    rw [joinAll_cons] at he
    cases hys : joinAll ys with
    | none => simp [hys] at he
    | some f =>
      rw [hys, join'_some] at he
      rcases join_mem he with rfl | rfl
      · exact ⟨e, List.mem_cons_self, hx⟩
      · obtain ⟨w, hw, hxw⟩ := ih e hys hx
        exact ⟨w, List.mem_cons_of_mem _ hw, hxw⟩

/-- the fold fails iff two of the leaves are incompatible. -/
theorem joinAll_eq_none_iff (l : List Dt) :
    joinAll l = Option.none ↔ ∃ a ∈ l, ∃ b ∈ l, join a b = Option.none := by
  constructor
  · intro h
    induction l with
    | nil => simp [joinAll] at h
    | cons x xs ih =>
      rw [joinAll_cons] at h
      cases hxs : joinAll xs with
      | none =>
        obtain ⟨a, ha, b, hb, hab⟩ := ih hxs
        exact ⟨a, List.mem_cons_of_mem _ ha, b, List.mem_cons_of_mem _ hb, hab⟩
      | some d =>
        rw [hxs, join'_some] at h
        obtain ⟨y, hy, hxy⟩ := exists_incompat_of_join_none x xs d hxs h
        exact ⟨x, List.mem_cons_self, y, List.mem_cons_of_mem _ hy, hxy⟩
  · rintro ⟨a, ha, b, hb, hab⟩
    cases h : joinAll l with
    | none => rfl
    | some c =>
      have h1 := le_joinAll h a ha
      have h2 := le_joinAll h b hb
      have := join_isSome_of_le h1 h2
      simp [hab] at this

/-! ### `common_timebase` refines `join` -/

theorem common_eq_join {a b : Dt} (ha : a.valid) (hb : b.valid) (h : a.sep b) :
    common a b = ofOpt (join a b) := by
  cases a <;> cases b <;> simp only [common, join, ofOpt, Dt.num] <;> try rfl
  · -- cont, cont
    simp [close_self]
  · -- cont, disc
    rename_i y
    have hy : (0 : Rat) < y := hb
    rcases h rfl rfl with h | ⟨h1, _⟩
    · simp [Dt.num] at h; linarith
    · simp only [Dt.num] at h1; simp [h1]
  · -- dtrue, disc
    rename_i y
    have hy : (0 : Rat) < y := hb
    simp [hy]
  · -- disc, cont
    rename_i x
    have hx : (0 : Rat) < x := ha
    rcases h rfl rfl with h | ⟨h1, _⟩
    · simp [Dt.num] at h; linarith
    · simp only [Dt.num] at h1; simp [h1]
  · -- disc, dtrue
    rename_i x
    have hx : (0 : Rat) < x := ha
    simp [hx]
  · -- disc, disc
    rename_i x y
    rcases h rfl rfl with h | ⟨h1, _⟩
    · simp only [Dt.num] at h; subst h; simp [close_self]
    · simp only [Dt.num] at h1
      have hne : ¬ x = y := by
        intro e; subst e; rw [close_self] at h1; cases h1
      simp [h1, hne]

/-! ### `_process_dt_keyword` -/

theorem check_toArg {d : Dt} (h : d.valid) : d.toArg.check = .ok d := by
  cases d <;> simp [Dt.toArg, DtArg.check]
  rename_i q
  have hq : (0 : Rat) < q := h
  have h1 : ¬ q < 0 := by linarith
  have h2 : ¬ q = 0 := by intro e; subst e; exact lt_irrefl _ hq
  simp [h1, h2]

theorem check_valid {v : DtArg} {d : Dt} (h : v.check = .ok d) : d.valid := by
  cases v <;> simp [DtArg.check] at h
  · subst h; trivial
  · subst h; trivial
  · rename_i q
    split_ifs at h with h1 h2
    · cases h; trivial
    · cases h
      show (0 : Rat) < q
      rcases lt_trichotomy q 0 with h3 | h3 | h3
      · exact absurd h3 h1
      · exact absurd h3 h2
      · exact h3

theorem processDt_valid {kw dflt : Option DtArg} {st : Bool} {cfg : DtArg} {d : Dt}
    (h : processDt kw dflt st cfg = .ok d) : d.valid := check_valid h

theorem processDt_given {d : Dt} (h : d.valid) (dflt : Option DtArg) (st : Bool) (cfg : DtArg) :
    processDt (some d.toArg) dflt st cfg = .ok d := by
  unfold processDt
  simp [check_toArg h]

theorem ctorDt_eq_processDt (kw dflt : Option DtArg) (st : Bool) (cfg : DtArg) :
    ctorDt kw dflt st cfg = processDt kw dflt st cfg := by
  unfold ctorDt
  cases h : processDt kw dflt st cfg with
  | error e => rfl
  | ok d =>
    show processDt (some d.toArg) Option.none false cfg = .ok d
    exact processDt_given (processDt_valid h) _ _ _

theorem givenDt_valid {d : Dt} (h : d.valid) (cfg : DtArg) : givenDt d cfg = .ok d := by
  unfold givenDt
  rw [ctorDt_eq_processDt]
  exact processDt_given h _ _ _

end CtrlVerif
