/-
Lemmas about the complex-array primitives of `Model/PyNumpy.lean`: negation commutes with the
list-level polynomial operations, `real(polymul(p, conj p))` is `iwSqr p`.  Not trusted.
-/
import CtrlVerif.Model.PyNumpy
import Mathlib.Tactic.Ring

namespace CtrlVerif.PyNumpy
open CtrlVerif CtrlVerif.Margins

variable {K : Type} [Field K]

theorem pneg_pneg (p : List K) : pneg (pneg p) = p := by
  simp [pneg, List.map_map, Function.comp_def]

theorem pneg_append (p q : List K) : pneg (p ++ q) = pneg p ++ pneg q := by simp [pneg]

theorem padLeft_pneg (n : Nat) (p : List K) : padLeft n (pneg p) = pneg (padLeft n p) := by
  simp [padLeft, pneg]

theorem polyadd_pneg (x y : List K) : polyadd (pneg x) (pneg y) = pneg (polyadd x y) := by
  unfold polyadd
  have hx : (pneg x).length = x.length := by simp [pneg]
  have hy : (pneg y).length = y.length := by simp [pneg]
  rw [hx, hy, padLeft_pneg, padLeft_pneg]
  simp only [pneg, List.zipWith_map, List.map_zipWith]
  congr 1
  funext a b
  ring

theorem scale_pneg (c : K) (q : List K) : scale c (pneg q) = pneg (scale c q) := by
  simp [scale, pneg, List.map_map, Function.comp_def]

theorem polymul_pneg_right (p q : List K) : polymul p (pneg q) = pneg (polymul p q) := by
  unfold polymul
  have key : ∀ (acc : List K),
      List.foldl (fun acc c => polyadd (acc ++ [0]) (scale c (pneg q))) (pneg acc) p
        = pneg (List.foldl (fun acc c => polyadd (acc ++ [0]) (scale c q)) acc p) := by
    induction p with
    | nil => intro acc; rfl
    | cons c p ih =>
      intro acc
      simp only [List.foldl_cons]
      rw [← ih]
      congr 1
      rw [scale_pneg, ← polyadd_pneg, pneg_append]
      simp [pneg]
  simpa [pneg] using key []

theorem ctrim_pneg [DecidableEq K] (re im : List K) :
    ctrim re (pneg im) = ((ctrim re im).1, pneg (ctrim re im).2) := by
  induction re generalizing im with
  | nil => cases im <;> simp [ctrim, pneg]
  | cons a re ih =>
    cases im with
    | nil => simp [ctrim, pneg]
    | cons b im =>
      simp only [pneg, List.map_cons, ctrim, neg_eq_zero]
      split_ifs with h
      · exact ih im
      · rfl

/-- `np.real(np.polymul(p, p.conj()))` is the model's `iwSqr p` (`re² + im²` on the trimmed parts). -/
theorem cpolymul_conj_re [DecidableEq K] (p : List K × List K) :
    (cpolymul p (cconj p)).1 = iwSqr p := by
  unfold cpolymul cconj iwSqr npsub
  simp only [ctrim_pneg, polymul_pneg_right, pneg_pneg]

end CtrlVerif.PyNumpy
