/-
Helper lemmas of the source-text tie of C11 (`Props/C11Gen*.lean`): symbolic evaluation of the
primitives of `Model/PySfb.lean`, the loop rule for `for k in range(a, b)` as a `foldlM`, and the loop
invariants of `ctrb` / `obsv` / the polynomial-in-`A` loop of `place_acker`.  Free to change.
-/
import CtrlVerif.Model.PySfb
import CtrlVerif.Lemmas.PyMat
import CtrlVerif.Model.StateFbkDyn
import CtrlVerif.Lemmas.StateFbk

namespace CtrlVerif

open Matrix

theorem PyArith.range_add (a : Int) (k : Nat) :
    PyArith.range a (a + k) = (List.range k).map (fun (i : Nat) => a + (i : Int)) := by
  simp [PyArith.range]

theorem PyArith.foldlM_range_seq {α : Type} (f : α → Int → Except Err α) (a : Int) (k : Nat)
    (X : Nat → α) (step : ∀ j, j < k → f (X j) (a + (j : Int)) = .ok (X (j + 1))) :
    List.foldlM f (X 0) (PyArith.range a (a + k)) = .ok (X k) := by
  rw [PyArith.range_add]
  induction k with
  | zero => rfl
  | succ k ih =>
    rw [List.range_succ, List.map_append, List.foldlM_append,
      ih (fun j hj => step j (Nat.lt_succ_of_lt hj))]
    simp only [List.map_cons, List.map_nil, List.foldlM_cons, List.foldlM_nil]
    show (f (X k) (a + (k : Int))).bind _ = _
    rw [step k (Nat.lt_succ_self k)]
    rfl

namespace PySfb
variable {K : Type} [Field K]

theorem broadcastTo_fit (r c : Nat) (M : Matrix (Fin r) (Fin c) K) :
    broadcastTo ⟨r, c, M⟩ r c = .ok ⟨r, c, M⟩ := by
  unfold broadcastTo
  rw [dif_pos (by simp)]
  congr 2
  ext i j
  simp

theorem setSliceB_fit (X V : PMat K) (r0 r1 c0 c1 : Option Int)
    (hr : V.r = PMat.sliceBound X.r X.r r1 - PMat.sliceBound X.r 0 r0)
    (hc : V.c = PMat.sliceBound X.c X.c c1 - PMat.sliceBound X.c 0 c0) :
    setSliceB X r0 r1 c0 c1 V = PMat.setSlice X r0 r1 c0 c1 V := by
  obtain ⟨r, c, M⟩ := V
  simp only at hr hc
  subst hr hc
  unfold setSliceB
  rw [broadcastTo_fit]
  rfl

theorem fpf_val {t m : Nat} (c : Fin (t * m)) :
    c.val = (finProdFinEquiv.symm c).2.val + m * (finProdFinEquiv.symm c).1.val := by
  have h := congrArg Fin.val (finProdFinEquiv.apply_symm_apply c)
  rw [← h]
  rfl

theorem fpf_symm_mk {t m : Nat} (q r : Nat) (hq : q < t) (hr : r < m) (h : q * m + r < t * m) :
    finProdFinEquiv.symm (⟨q * m + r, h⟩ : Fin (t * m)) = (⟨q, hq⟩, ⟨r, hr⟩) := by
  rw [Equiv.symm_apply_eq]
  ext
  simp only [finProdFinEquiv_apply_val]
  ring

/-- the array of `ctrb` after block `j` has been written: blocks `0 … j` filled, zeros beyond. -/
def ctrbSeq {n m : Nat} (A : Matrix (Fin n) (Fin n) K) (B : Matrix (Fin n) (Fin m) K) (t : Nat)
    (j : Nat) : PMat K :=
  ⟨n, t * m, Matrix.of fun i c =>
    if (finProdFinEquiv.symm c).1.val ≤ j then
      StateFbk.ctrbBlock A B (finProdFinEquiv.symm c).1.val i (finProdFinEquiv.symm c).2
    else 0⟩

theorem block_range {m q r j c : Nat} (hc : c = r + m * q) (hr : r < m) :
    ((j + 1) * m ≤ c ∧ c < (j + 2) * m) ↔ q = j + 1 := by
  have e1 : (j + 2) * m = (j + 1) * m + m := by ring
  constructor
  · rintro ⟨h1, h2⟩
    by_contra hne
    rcases Nat.lt_or_gt_of_ne hne with hlt | hgt
    · have : m * q ≤ m * j := Nat.mul_le_mul_left m (by omega)
      have e2 : (j + 1) * m = m * j + m := by ring
      omega
    · have : m * (j + 2) ≤ m * q := Nat.mul_le_mul_left m (by omega)
      have e2 : m * (j + 2) = (j + 1) * m + m := by ring
      omega
  · rintro rfl
    have e2 : m * (j + 1) = (j + 1) * m := by ring
    omega


theorem broadcastTo_err (V : PMat K) (r c : Nat) (h : ¬((V.r = r ∨ V.r = 1) ∧ (V.c = c ∨ V.c = 1))) :
    broadcastTo V r c = .error .shape := by
  unfold broadcastTo
  rw [dif_neg h]

theorem broadcastTo_ok (V : PMat K) (r c : Nat) (h : (V.r = r ∨ V.r = 1) ∧ (V.c = c ∨ V.c = 1)) :
    ∃ M, broadcastTo V r c = .ok ⟨r, c, M⟩ := by
  unfold broadcastTo
  rw [dif_pos h]
  exact ⟨_, rfl⟩

theorem ctrb_init {n m : Nat} (A : Matrix (Fin n) (Fin n) K) (B : Matrix (Fin n) (Fin m) K) (t : Nat)
    (ht : 0 < t) :
    setSliceB ⟨n, t * m, 0⟩ none none none (some (m : Int)) ⟨n, m, B⟩ = .ok (ctrbSeq A B t 0) := by
  have hm : m ≤ t * m := Nat.le_mul_of_pos_left m ht
  rw [setSliceB_fit _ _ _ _ _ _ (by simp) (by simp [hm]),
    PMat.setSlice_eq _ _ _ _ _ _ 0 n 0 m (by simp) (by simp) (by simp) (by simp [hm]) (by simp)]
  unfold ctrbSeq
  congr 2
  ext i c
  have hc := fpf_val c
  have hr := (finProdFinEquiv.symm c).2.isLt
  simp only [Matrix.of_apply]
  by_cases hq : (finProdFinEquiv.symm c).1.val = 0
  · have hlt : c.val < m := by rw [hc, hq]; simpa using hr
    rw [dif_pos ⟨Nat.zero_le _, i.isLt, Nat.zero_le _, hlt⟩, if_pos (by omega), hq]
    simp only [StateFbk.ctrbBlock]
    congr 1
    ext
    have hc' := hc
    rw [hq, Nat.mul_zero, Nat.add_zero] at hc'
    show c.val - 0 = _
    omega
  · have hge : ¬ c.val < m := by
      rw [hc]
      have : m * 1 ≤ m * (finProdFinEquiv.symm c).1.val := Nat.mul_le_mul_left m (by omega)
      omega
    rw [dif_neg (by tauto), if_neg (by omega)]
    rfl

theorem ctrb_step {n m : Nat} (A : Matrix (Fin n) (Fin n) K) (B : Matrix (Fin n) (Fin m) K) (t j : Nat)
    (hj : j + 2 ≤ t) (lo1 hi1 lo2 hi2 : Int) (h1 : lo1 = ((j * m : Nat) : Int))
    (h2 : hi1 = (((j + 1) * m : Nat) : Int)) (h3 : lo2 = (((j + 1) * m : Nat) : Int))
    (h4 : hi2 = (((j + 2) * m : Nat) : Int)) :
    (PMat.matmul ⟨n, n, A⟩ (PMat.sliceCols (ctrbSeq A B t j) (some lo1) (some hi1))).bind
      (fun t1 => setSliceB (ctrbSeq A B t j) none none (some lo2) (some hi2) t1)
    = .ok (ctrbSeq A B t (j + 1)) := by
  have e1 : (j + 1) * m = j * m + m := by ring
  have e2 : (j + 2) * m = j * m + m + m := by ring
  have e3 : (j + 2) * m ≤ t * m := Nat.mul_le_mul_right m hj
  have hs : PMat.sliceCols (ctrbSeq A B t j) (some lo1) (some hi1)
      = ⟨n, m, StateFbk.ctrbBlock A B j⟩ := by
    unfold ctrbSeq
    rw [PMat.sliceCols_bounds n (t * m) _ (some lo1) (some hi1) (j * m) m (by omega)
      (PMat.sb_int _ _ _ _ h1 (by omega)) (PMat.sb_int _ _ _ ((j + 1) * m) h2 (by omega) |>.trans e1)]
    congr 1
    ext i c
    have hsy := fpf_symm_mk (t := t) j c.val (by omega) c.isLt (by omega)
    simp only [Matrix.submatrix_apply, Matrix.of_apply, id_eq]
    rw [hsy]
    simp
  rw [hs, PMat.matmul_mk, Except.ok_bind']
  have hb1 : PMat.sliceBound (t * m) 0 (some lo2) = (j + 1) * m := PMat.sb_int _ _ _ _ h3 (by omega)
  have hb2 : PMat.sliceBound (t * m) (t * m) (some hi2) = (j + 2) * m := PMat.sb_int _ _ _ _ h4 e3
  rw [setSliceB_fit _ _ _ _ _ _ (by simp [ctrbSeq]) (by simp only [ctrbSeq, hb1, hb2]; omega),
    PMat.setSlice_eq _ _ _ _ _ _ 0 n ((j + 1) * m) ((j + 2) * m) (by simp [ctrbSeq]) (by simp [ctrbSeq])
      (by simpa [ctrbSeq] using hb1) (by simpa [ctrbSeq] using hb2) (by simp only [ctrbSeq]; omega)]
  unfold ctrbSeq
  congr 2
  ext i c
  have hc := fpf_val c
  have hr := (finProdFinEquiv.symm c).2.isLt
  have hrange := block_range (j := j) hc hr
  simp only [Matrix.of_apply]
  by_cases hq : (finProdFinEquiv.symm c).1.val = j + 1
  · have hin := hrange.mpr hq
    rw [dif_pos ⟨Nat.zero_le _, i.isLt, hin.1, hin.2⟩, if_pos (by omega), hq]
    simp only [StateFbk.ctrbBlock]
    refine congrArg₂ _ (Fin.ext (Nat.sub_zero _)) (Fin.ext ?_)
    have hc' := hc
    rw [hq] at hc'
    have e4 : m * (j + 1) = (j + 1) * m := by ring
    show c.val - (j + 1) * m = _
    omega
  · have hout : ¬((j + 1) * m ≤ c.val ∧ c.val < (j + 2) * m) := fun h => hq (hrange.mp h)
    rw [dif_neg (by tauto)]
    by_cases hle : (finProdFinEquiv.symm c).1.val ≤ j
    · rw [if_pos hle, if_pos (by omega)]
    · rw [if_neg hle, if_neg (by omega)]

theorem ctrbSeq_last {n m : Nat} (A : Matrix (Fin n) (Fin n) K) (B : Matrix (Fin n) (Fin m) K) (t : Nat) :
    ctrbSeq A B (t + 1) t
      = ⟨n, (t + 1) * m, (StateFbk.ctrb A B (t + 1)).submatrix id finProdFinEquiv.symm⟩ := by
  unfold ctrbSeq
  congr 1
  ext i c
  have := (finProdFinEquiv.symm c).1.isLt
  simp only [Matrix.of_apply, Matrix.submatrix_apply, id_eq, StateFbk.ctrb]
  rw [if_pos (by omega)]

/-- everything `ctrb` does after the horizon has been fixed to `t ≥ 1`, for any loop body `f` that
performs the step. -/
theorem ctrb_tail_pos {n m : Nat} (A : Matrix (Fin n) (Fin n) K) (B : Matrix (Fin n) (Fin m) K) (t : Nat)
    (f : PMat K → Int → Except Err (PMat K))
    (hf : ∀ j, j + 2 ≤ t + 1 → f (ctrbSeq A B (t + 1) j) ((1 : Int) + (j : Int)) = .ok (ctrbSeq A B (t + 1) (j + 1))) :
    (PMat.zerosI (n : Int) (((t + 1 : Nat) : Int) * (m : Int))).bind (fun c =>
      (setSliceB c none none none (some (m : Int)) ⟨n, m, B⟩).bind (fun c =>
        List.foldlM f c (PyArith.range 1 ((t + 1 : Nat) : Int))))
    = .ok ⟨n, (t + 1) * m, (StateFbk.ctrb A B (t + 1)).submatrix id finProdFinEquiv.symm⟩ := by
  rw [← Nat.cast_mul, PMat.zerosI_natCast, Except.ok_bind', ctrb_init A B (t + 1) (Nat.succ_pos t),
    Except.ok_bind']
  have e : ((t + 1 : Nat) : Int) = 1 + (t : Int) := by push_cast; ring
  rw [e, PyArith.foldlM_range_seq f 1 t (ctrbSeq A B (t + 1)) (fun j hj => hf j (by omega)), ctrbSeq_last]

/-- horizon `≤ 0` (no columns): `B` is assigned to an `n × 0` slot, which NumPy accepts by
broadcasting exactly when `B` has one column (or none). -/
theorem ctrb_tail_zero {n m : Nat} (B : Matrix (Fin n) (Fin m) K) (f : PMat K → Int → Except Err (PMat K))
    (z h : Int) (hz : z = 0) (hh : h ≤ 1) :
    (PMat.zerosI (n : Int) z).bind (fun c =>
      (setSliceB c none none none (some (m : Int)) ⟨n, m, B⟩).bind (fun c =>
        List.foldlM f c (PyArith.range 1 h)))
    = if 1 < m then .error .shape else .ok ⟨n, 0, 0⟩ := by
  have e : z = ((0 : Nat) : Int) := by simp [hz]
  rw [e, PMat.zerosI_natCast, Except.ok_bind']
  have hr : PyArith.range 1 h = [] := by
    have : (h - 1).toNat = 0 := by omega
    simp [PyArith.range, this]
  rw [hr]
  unfold setSliceB
  have h0 : PMat.sliceBound n n none - PMat.sliceBound n 0 none = n := by simp
  have h1 : PMat.sliceBound 0 0 (some (m : Int)) - PMat.sliceBound 0 0 none = 0 := by simp
  simp only [h0, h1]
  by_cases hm : 1 < m
  · rw [broadcastTo_err _ _ _ (by simp only [not_and_or]; right; omega), if_pos hm]; rfl
  · obtain ⟨M, hM⟩ := broadcastTo_ok (⟨n, m, B⟩ : PMat K) n 0 ⟨Or.inl rfl, by simp only; omega⟩
    rw [hM, if_neg hm, Except.ok_bind',
      PMat.setSlice_eq _ _ _ _ _ _ 0 n 0 0 (by simp) (by simp) (by simp) (by simp) (by simp), Except.ok_bind']
    simp only [List.foldlM_nil]
    show Except.ok _ = Except.ok _
    congr 2
    ext i c
    exact c.elim0

/-! ### `obsv`: the same with rows -/

/-- the array of `obsv` after block `j` has been written. -/
def obsvSeq {n p : Nat} (A : Matrix (Fin n) (Fin n) K) (C : Matrix (Fin p) (Fin n) K) (t : Nat)
    (j : Nat) : PMat K :=
  ⟨t * p, n, Matrix.of fun r c =>
    if (finProdFinEquiv.symm r).1.val ≤ j then
      StateFbk.obsvBlock A C (finProdFinEquiv.symm r).1.val (finProdFinEquiv.symm r).2 c
    else 0⟩

theorem obsv_init {n p : Nat} (A : Matrix (Fin n) (Fin n) K) (C : Matrix (Fin p) (Fin n) K) (t : Nat)
    (ht : 0 < t) :
    setSliceB ⟨t * p, n, 0⟩ none (some (p : Int)) none none ⟨p, n, C⟩ = .ok (obsvSeq A C t 0) := by
  have hm : p ≤ t * p := Nat.le_mul_of_pos_left p ht
  rw [setSliceB_fit _ _ _ _ _ _ (by simp [hm]) (by simp),
    PMat.setSlice_eq _ _ _ _ _ _ 0 p 0 n (by simp) (by simp [hm]) (by simp) (by simp) (by simp)]
  unfold obsvSeq
  congr 2
  ext r c
  have hc := fpf_val r
  have hr := (finProdFinEquiv.symm r).2.isLt
  simp only [Matrix.of_apply]
  by_cases hq : (finProdFinEquiv.symm r).1.val = 0
  · have hlt : r.val < p := by rw [hc, hq]; simpa using hr
    rw [dif_pos ⟨Nat.zero_le _, hlt, Nat.zero_le _, c.isLt⟩, if_pos (by omega), hq]
    simp only [StateFbk.obsvBlock]
    refine congrArg₂ _ (Fin.ext ?_) (Fin.ext (Nat.sub_zero _))
    have hc' := hc
    rw [hq, Nat.mul_zero, Nat.add_zero] at hc'
    show r.val - 0 = _
    omega
  · have hge : ¬ r.val < p := by
      rw [hc]
      have : p * 1 ≤ p * (finProdFinEquiv.symm r).1.val := Nat.mul_le_mul_left p (by omega)
      omega
    rw [dif_neg (by tauto), if_neg (by omega)]
    rfl

theorem obsv_step {n p : Nat} (A : Matrix (Fin n) (Fin n) K) (C : Matrix (Fin p) (Fin n) K) (t j : Nat)
    (hj : j + 2 ≤ t) (lo1 hi1 lo2 hi2 : Int) (h1 : lo1 = ((j * p : Nat) : Int))
    (h2 : hi1 = (((j + 1) * p : Nat) : Int)) (h3 : lo2 = (((j + 1) * p : Nat) : Int))
    (h4 : hi2 = (((j + 2) * p : Nat) : Int)) :
    (PMat.matmul (PMat.sliceRows (obsvSeq A C t j) (some lo1) (some hi1)) ⟨n, n, A⟩).bind
      (fun t1 => setSliceB (obsvSeq A C t j) (some lo2) (some hi2) none none t1)
    = .ok (obsvSeq A C t (j + 1)) := by
  have e1 : (j + 1) * p = j * p + p := by ring
  have e2 : (j + 2) * p = j * p + p + p := by ring
  have e3 : (j + 2) * p ≤ t * p := Nat.mul_le_mul_right p hj
  have hs : PMat.sliceRows (obsvSeq A C t j) (some lo1) (some hi1)
      = ⟨p, n, StateFbk.obsvBlock A C j⟩ := by
    unfold obsvSeq
    rw [PMat.sliceRows_bounds (t * p) n _ (some lo1) (some hi1) (j * p) p (by omega)
      (PMat.sb_int _ _ _ _ h1 (by omega)) (PMat.sb_int _ _ _ ((j + 1) * p) h2 (by omega) |>.trans e1)]
    congr 1
    ext r c
    have hsy := fpf_symm_mk (t := t) j r.val (by omega) r.isLt (by omega)
    simp only [Matrix.submatrix_apply, Matrix.of_apply, id_eq]
    rw [hsy]
    simp
  rw [hs, PMat.matmul_mk, Except.ok_bind']
  have hb1 : PMat.sliceBound (t * p) 0 (some lo2) = (j + 1) * p := PMat.sb_int _ _ _ _ h3 (by omega)
  have hb2 : PMat.sliceBound (t * p) (t * p) (some hi2) = (j + 2) * p := PMat.sb_int _ _ _ _ h4 e3
  rw [setSliceB_fit _ _ _ _ _ _ (by simp only [obsvSeq, hb1, hb2]; omega) (by simp [obsvSeq]),
    PMat.setSlice_eq _ _ _ _ _ _ ((j + 1) * p) ((j + 2) * p) 0 n (by simpa [obsvSeq] using hb1)
      (by simpa [obsvSeq] using hb2) (by simp [obsvSeq]) (by simp [obsvSeq]) (by simp only [obsvSeq]; omega)]
  unfold obsvSeq
  congr 2
  ext r c
  have hc := fpf_val r
  have hr := (finProdFinEquiv.symm r).2.isLt
  have hrange := block_range (j := j) hc hr
  simp only [Matrix.of_apply]
  by_cases hq : (finProdFinEquiv.symm r).1.val = j + 1
  · have hin := hrange.mpr hq
    rw [dif_pos ⟨hin.1, hin.2, Nat.zero_le _, c.isLt⟩, if_pos (by omega), hq]
    simp only [StateFbk.obsvBlock]
    refine congrArg₂ _ (Fin.ext ?_) (Fin.ext (Nat.sub_zero _))
    have hc' := hc
    rw [hq] at hc'
    have e4 : p * (j + 1) = (j + 1) * p := by ring
    show r.val - (j + 1) * p = _
    omega
  · have hout : ¬((j + 1) * p ≤ r.val ∧ r.val < (j + 2) * p) := fun h => hq (hrange.mp h)
    rw [dif_neg (by tauto)]
    by_cases hle : (finProdFinEquiv.symm r).1.val ≤ j
    · rw [if_pos hle, if_pos (by omega)]
    · rw [if_neg hle, if_neg (by omega)]

theorem obsvSeq_last {n p : Nat} (A : Matrix (Fin n) (Fin n) K) (C : Matrix (Fin p) (Fin n) K) (t : Nat) :
    obsvSeq A C (t + 1) t
      = ⟨(t + 1) * p, n, (StateFbk.obsv A C (t + 1)).submatrix finProdFinEquiv.symm id⟩ := by
  unfold obsvSeq
  congr 1
  ext r c
  have := (finProdFinEquiv.symm r).1.isLt
  simp only [Matrix.of_apply, Matrix.submatrix_apply, id_eq, StateFbk.obsv]
  rw [if_pos (by omega)]

theorem obsv_tail_pos {n p : Nat} (A : Matrix (Fin n) (Fin n) K) (C : Matrix (Fin p) (Fin n) K) (t : Nat)
    (f : PMat K → Int → Except Err (PMat K))
    (hf : ∀ j, j + 2 ≤ t + 1 → f (obsvSeq A C (t + 1) j) ((1 : Int) + (j : Int)) = .ok (obsvSeq A C (t + 1) (j + 1))) :
    (PMat.zerosI (((t + 1 : Nat) : Int) * (p : Int)) (n : Int)).bind (fun c =>
      (setSliceB c none (some (p : Int)) none none ⟨p, n, C⟩).bind (fun c =>
        List.foldlM f c (PyArith.range 1 ((t + 1 : Nat) : Int))))
    = .ok ⟨(t + 1) * p, n, (StateFbk.obsv A C (t + 1)).submatrix finProdFinEquiv.symm id⟩ := by
  rw [← Nat.cast_mul, PMat.zerosI_natCast, Except.ok_bind', obsv_init A C (t + 1) (Nat.succ_pos t),
    Except.ok_bind']
  have e : ((t + 1 : Nat) : Int) = 1 + (t : Int) := by push_cast; ring
  rw [e, PyArith.foldlM_range_seq f 1 t (obsvSeq A C (t + 1)) (fun j hj => hf j (by omega)), obsvSeq_last]

theorem obsv_tail_zero {n p : Nat} (C : Matrix (Fin p) (Fin n) K) (f : PMat K → Int → Except Err (PMat K))
    (z h : Int) (hz : z = 0) (hh : h ≤ 1) :
    (PMat.zerosI z (n : Int)).bind (fun c =>
      (setSliceB c none (some (p : Int)) none none ⟨p, n, C⟩).bind (fun c =>
        List.foldlM f c (PyArith.range 1 h)))
    = if 1 < p then .error .shape else .ok ⟨0, n, 0⟩ := by
  have e : z = ((0 : Nat) : Int) := by simp [hz]
  rw [e, PMat.zerosI_natCast, Except.ok_bind']
  have hr : PyArith.range 1 h = [] := by
    have : (h - 1).toNat = 0 := by omega
    simp [PyArith.range, this]
  rw [hr]
  unfold setSliceB
  have h0 : PMat.sliceBound n n none - PMat.sliceBound n 0 none = n := by simp
  have h1 : PMat.sliceBound 0 0 (some (p : Int)) - PMat.sliceBound 0 0 none = 0 := by simp
  simp only [h0, h1]
  by_cases hm : 1 < p
  · rw [broadcastTo_err _ _ _ (by simp only [not_and_or]; left; omega), if_pos hm]; rfl
  · obtain ⟨M, hM⟩ := broadcastTo_ok (⟨p, n, C⟩ : PMat K) 0 n ⟨by simp only; omega, Or.inl rfl⟩
    rw [hM, if_neg hm, Except.ok_bind',
      PMat.setSlice_eq _ _ _ _ _ _ 0 0 0 n (by simp) (by simp) (by simp) (by simp) (by simp), Except.ok_bind']
    simp only [List.foldlM_nil]
    show Except.ok _ = Except.ok _
    congr 2

theorem ssmatrix_square (r c : Nat) (M : Matrix (Fin r) (Fin c) K) (h : ¬(r = 1 ∧ c = 0)) :
    ssmatrix ⟨r, c, M⟩ true none none = if c = r then .ok ⟨r, c, M⟩ else .error .shape := by
  simp only [ssmatrix, emptyRule, h, if_false]
  by_cases hc : c = r
  · subst hc; simp
  · have : r ≠ c := fun e => hc e.symm
    simp [this, hc]

theorem ssmatrix_rows (r c n : Nat) (M : Matrix (Fin r) (Fin c) K) (h : ¬(r = 1 ∧ c = 0)) :
    ssmatrix ⟨r, c, M⟩ false (some n) none = if r = n then .ok ⟨r, c, M⟩ else .error .shape := by
  simp only [ssmatrix, emptyRule, h, if_false]
  by_cases hc : r = n
  · subst hc; simp
  · have : n ≠ r := fun e => hc e.symm
    simp [this, hc]

theorem ssmatrix_cols (r c n : Nat) (M : Matrix (Fin r) (Fin c) K) (h : ¬(r = 1 ∧ c = 0)) :
    ssmatrix ⟨r, c, M⟩ false none (some n) = if c = n then .ok ⟨r, c, M⟩ else .error .shape := by
  simp only [ssmatrix, emptyRule, h, if_false]
  by_cases hc : c = n
  · subst hc; simp
  · have : n ≠ c := fun e => hc e.symm
    simp [this, hc]

/-- an array of shape `(1, 0)` is read as the empty `0 × 0` array, whatever is checked afterwards. -/
theorem ssmatrix_emptyRow (M : Matrix (Fin 1) (Fin 0) K) (sq : Bool) (rows cols : Option Nat) :
    ssmatrix ⟨1, 0, M⟩ sq rows cols = ssmatrix ⟨0, 0, 0⟩ sq rows cols := by
  simp [ssmatrix, emptyRule]

theorem submatrix_cast_cols {α : Type} {n : Nat} (M : Matrix α (Fin n) K) (h : n = n) :
    M.submatrix id (Fin.cast h) = M := by ext i j; rfl

theorem submatrix_cast_rows {α : Type} {n : Nat} (M : Matrix (Fin n) α K) (h : n = n) :
    M.submatrix (Fin.cast h) id = M := by ext i j; rfl

end PySfb
end CtrlVerif
