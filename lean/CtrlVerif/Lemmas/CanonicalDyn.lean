/-
Lemmas about the run-time layer of C15: the certified inverse, and the branches that raise.
-/
import CtrlVerif.Model.CanonicalDyn
import CtrlVerif.Lemmas.Canonical

namespace CtrlVerif

open Matrix

variable {K : Type} [Field K] [DecidableEq K]

theorem invQ_two_sided {n : Nat} (F : Matrix (Fin n) (Fin n) K) (h : F.det ≠ 0) :
    F * SS.invQ F = 1 ∧ SS.invQ F * F = 1 := by
  unfold SS.invQ
  constructor
  · rw [Matrix.mul_smul, Matrix.mul_adjugate, smul_smul, inv_mul_cancel₀ h, one_smul]
  · rw [Matrix.smul_mul, Matrix.adjugate_mul, smul_smul, inv_mul_cancel₀ h, one_smul]

theorem det_ne_zero_of_mul_eq_one' {n : Nat} (F X : Matrix (Fin n) (Fin n) K) (h : F * X = 1) :
    F.det ≠ 0 := by
  intro hdet
  have := congrArg Matrix.det h
  rw [Matrix.det_mul, hdet, zero_mul, Matrix.det_one] at this
  exact zero_ne_one this

theorem certInvSlow_spec {n : Nat} (F X : Matrix (Fin n) (Fin n) K)
    (h : certInvSlow F = some X) : F * X = 1 ∧ X * F = 1 := by
  unfold certInvSlow at h
  split at h
  · simp at h
  · rename_i hdet
    simp only [Option.some.injEq] at h
    subst h
    exact invQ_two_sided F hdet

theorem certInvSlow_eq_none_iff {n : Nat} (F : Matrix (Fin n) (Fin n) K) :
    certInvSlow F = none ↔ F.det = 0 := by
  unfold certInvSlow
  split <;> simp_all

/-- whatever `certInv` returns is a two-sided inverse. -/
theorem certInv_spec {n : Nat} (F X : Matrix (Fin n) (Fin n) K) (h : certInv F = some X) :
    F * X = 1 ∧ X * F = 1 := by
  unfold certInv at h
  split at h
  · split at h
    · rename_i hFX
      simp only [Option.some.injEq] at h
      subst h
      exact ⟨hFX, mul_eq_one_comm.mp hFX⟩
    · exact certInvSlow_spec F X h
  · exact certInvSlow_spec F X h

/-- `certInv` fails exactly on singular matrices. -/
theorem certInv_eq_none_iff {n : Nat} (F : Matrix (Fin n) (Fin n) K) :
    certInv F = none ↔ F.det = 0 := by
  constructor
  · intro h
    unfold certInv at h
    split at h
    · split at h
      · simp at h
      · exact (certInvSlow_eq_none_iff F).mp h
    · exact (certInvSlow_eq_none_iff F).mp h
  · intro hdet
    have hs := (certInvSlow_eq_none_iff F).mpr hdet
    unfold certInv
    split
    · rw [if_neg, hs]
      intro hFX
      exact det_ne_zero_of_mul_eq_one' F _ hFX hdet
    · exact hs

namespace DSS

theorem similarity_singular (G : DSS K) (T : Matrix (Fin G.n) (Fin G.n) K) (c : K) (inv : Bool)
    (hdet : T.det = 0) : G.similarity G.n T c inv = .error .illPosed := by
  unfold DSS.similarity
  rw [dif_pos rfl]
  have : T.submatrix (Fin.cast (rfl : G.n = G.n).symm) (Fin.cast (rfl : G.n = G.n).symm) = T := by
    ext i j; rfl
  simp only [this, (certInv_eq_none_iff T).mpr hdet]

theorem reachableForm_unreachable (G : DSS K) (ap : List K) (h : G.p = 1 ∧ G.m = 1) (hn : G.n ≠ 0)
    (hlen : ap.length = G.n + 1) (ha0 : ap.getD 0 0 ≠ 0)
    (hdet : (SS.ctrb1 (G.sys.castIO h.1 h.2).A (G.sys.castIO h.1 h.2).B).det = 0) :
    ∃ e, G.reachableForm ap = .error e := by
  unfold DSS.reachableForm
  rw [dif_pos h, if_neg hn, if_neg (by simpa using hlen)]
  simp only [Mat.ofTab_tab, if_neg ha0, (certInv_eq_none_iff _).mpr hdet]
  exact ⟨_, rfl⟩

theorem observableForm_unobservable (G : DSS K) (ap : List K) (h : G.p = 1 ∧ G.m = 1)
    (hdet : (SS.obsv1 (G.sys.castIO h.1 h.2).A (G.sys.castIO h.1 h.2).C).det = 0) :
    ∃ e, G.observableForm ap = .error e := by
  unfold DSS.observableForm
  rw [dif_pos h]
  by_cases h1 : G.n = 0
  · rw [if_pos h1]; exact ⟨_, rfl⟩
  rw [if_neg h1]
  by_cases h2 : ap.length ≠ G.n + 1
  · rw [if_pos h2]; exact ⟨_, rfl⟩
  rw [if_neg h2]
  simp only [Mat.ofTab_tab]
  by_cases h3 : ap.getD 0 0 = 0
  · rw [if_pos h3]; exact ⟨_, rfl⟩
  rw [if_neg h3]
  split
  · exact ⟨_, rfl⟩
  · rw [if_pos]
    · exact ⟨_, rfl⟩
    · rw [Matrix.det_mul, hdet, mul_zero]

end DSS

/-! ### keep / elim processing -/

namespace Reduce

theorem canonIdx_mem (l : List Nat) (x : Nat) : x ∈ canonIdx l ↔ x ∈ l := by
  simp [canonIdx]

theorem complIdx_spec' (n : Nat) (l : List Nat) (x : Nat) :
    x ∈ complIdx n l ↔ x < n ∧ x ∉ l := by
  simp [complIdx]

theorem canonIdx_nodup (l : List Nat) : (canonIdx l).Nodup := Finset.sort_nodup _ _
theorem complIdx_nodup (n : Nat) (l : List Nat) : (complIdx n l).Nodup :=
  List.Nodup.filter _ List.nodup_range

theorem normIdx_lt (n : Nat) (i : Int) (x : Nat) (h : normIdx n i = .ok x) : x < n := by
  unfold normIdx at h
  split at h
  · rename_i h1
    simp only [pure, Except.pure, Except.ok.injEq] at h
    omega
  · split at h
    · rename_i h1 h2
      simp only [pure, Except.pure, Except.ok.injEq] at h
      omega
    · simp at h

theorem mapM_normIdx_lt (n : Nat) (l : List Int) (r : List Nat)
    (h : l.mapM (normIdx n) = .ok r) : ∀ x ∈ r, x < n := by
  induction l generalizing r with
  | nil => simp [pure, Except.pure] at h; subst h; simp
  | cons a l ih =>
    rw [List.mapM_cons] at h
    cases ha : normIdx n a with
    | error e => simp [ha, bind, Except.bind] at h
    | ok y =>
      cases hl : l.mapM (normIdx n) with
      | error e => simp [ha, hl, bind, Except.bind] at h
      | ok ys =>
        simp [ha, hl, bind, Except.bind, pure, Except.pure] at h
        subst h
        intro x hx
        rcases List.mem_cons.mp hx with rfl | hx
        · exact normIdx_lt n a _ ha
        · exact ih ys hl x hx

/-- the processed `(elim, keep)` lists partition `range n`. -/
theorem processElimKeep_partition (labels : List String) (e k : Key) (el kp : List Nat)
    (h : processElimKeep labels e k = .ok (el, kp)) :
    el.Nodup ∧ kp.Nodup ∧ (∀ x ∈ el, x < labels.length) ∧ (∀ x ∈ kp, x < labels.length)
      ∧ ∀ x, x < labels.length → (x ∈ kp ↔ x ∉ el) := by
  unfold processElimKeep at h
  cases he : expandKey labels e with
  | error err => simp [he, bind, Except.bind] at h
  | ok ev =>
    cases hk : expandKey labels k with
    | error err => simp [he, hk, bind, Except.bind] at h
    | ok kv =>
      simp only [he, hk, bind, Except.bind] at h
      split at h
      · simp at h
      · split at h
        · cases hm : kv.mapM (normIdx labels.length) with
          | error err => simp [hm] at h
          | ok r =>
            simp only [hm, pure, Except.pure, Except.ok.injEq, Prod.mk.injEq] at h
            obtain ⟨rfl, rfl⟩ := h
            have hr := mapM_normIdx_lt _ _ _ hm
            refine ⟨complIdx_nodup _ _, canonIdx_nodup _,
              fun x hx => ((complIdx_spec' _ _ x).mp hx).1,
              fun x hx => hr x ((canonIdx_mem _ x).mp hx), fun x hx => ?_⟩
            rw [complIdx_spec']
            tauto
        · cases hm : ev.mapM (normIdx labels.length) with
          | error err => simp [hm] at h
          | ok r =>
            simp only [hm, pure, Except.pure, Except.ok.injEq, Prod.mk.injEq] at h
            obtain ⟨rfl, rfl⟩ := h
            have hr := mapM_normIdx_lt _ _ _ hm
            refine ⟨canonIdx_nodup _, complIdx_nodup _ _,
              fun x hx => hr x ((canonIdx_mem _ x).mp hx),
              fun x hx => ((complIdx_spec' _ _ x).mp hx).1, fun x hx => ?_⟩
            rw [complIdx_spec']
            tauto


theorem idxFn_sum_bijective (n : Nat) (kp el : List Nat) (hk : ∀ x ∈ kp, x < n)
    (hel : ∀ x ∈ el, x < n) (hnk : kp.Nodup) (hne : el.Nodup)
    (hpart : ∀ x, x < n → (x ∈ kp ↔ x ∉ el)) :
    Function.Bijective (Sum.elim (idxFn n kp hk) (idxFn n el hel)) := by
  constructor
  · rintro (i | i) (j | j) h
    · simp only [Sum.elim_inl, idxFn, Fin.mk.injEq] at h
      exact congrArg Sum.inl (Fin.ext ((List.Nodup.getElem_inj_iff hnk).mp h))
    · simp only [Sum.elim_inl, Sum.elim_inr, idxFn, Fin.mk.injEq] at h
      have h1 : kp[i] ∈ kp := List.getElem_mem _
      have h2 : kp[i] ∈ el := h ▸ List.getElem_mem _
      exact absurd h2 ((hpart _ (hk _ h1)).mp h1)
    · simp only [Sum.elim_inl, Sum.elim_inr, idxFn, Fin.mk.injEq] at h
      have h1 : kp[j] ∈ kp := List.getElem_mem _
      have h2 : kp[j] ∈ el := h ▸ List.getElem_mem _
      exact absurd h2 ((hpart _ (hk _ h1)).mp h1)
    · simp only [Sum.elim_inr, idxFn, Fin.mk.injEq] at h
      exact congrArg Sum.inr (Fin.ext ((List.Nodup.getElem_inj_iff hne).mp h))
  · intro x
    by_cases hx : x.val ∈ kp
    · obtain ⟨i, hi, e⟩ := List.getElem_of_mem hx
      exact ⟨.inl ⟨i, hi⟩, Fin.ext e⟩
    · have : x.val ∈ el := by
        by_contra hne'
        exact hx ((hpart _ x.isLt).mpr hne')
      obtain ⟨i, hi, e⟩ := List.getElem_of_mem this
      exact ⟨.inr ⟨i, hi⟩, Fin.ext e⟩


end Reduce

end CtrlVerif
