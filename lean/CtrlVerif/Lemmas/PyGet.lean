/-
Helper lemmas for the source-text tie of the three `__getitem__` methods (`Props/C17GenItem*.lean`):
what the generated `_process_subsys_index` returns in a form its callers can use (`psi_spec`), the
label lists, evaluation of the constructor primitives of `Model/PyGet.lean` on arrays of fitting
shapes.  Free to change; nothing here is a proof obligation.
-/
import CtrlVerif.Model.PyGet
import CtrlVerif.Props.C17Gen
import CtrlVerif.Lemmas.PyMat
import CtrlVerif.Lemmas.PyTF

namespace CtrlVerif.PyGet

open CtrlVerif Index C17Gen

/-! ### labels -/

/-- a list of names as the Python list of strings. -/
def pyLabelList (l : List String) : PyVal := .list (l.map .str)

theorem pyLabels_eq {n : Nat} (labels : Fin n → String) :
    pyLabels labels = pyLabelList (List.ofFn labels) := rfl

theorem ofFn_get_eq_map {β : Type} {n : Nat} (f : Fin n → β) (rows : List (Fin n)) :
    List.ofFn (fun i : Fin rows.length => f (rows.get i)) = rows.map f := by
  apply List.ext_getElem <;> simp

theorem pyLabels_select {n : Nat} (labels : Fin n → String) (rows : List (Fin n)) :
    pyLabels (fun i : Fin rows.length => labels (rows.get i)) = pyLabelList (rows.map labels) := by
  rw [pyLabels_eq, ofFn_get_eq_map]

theorem pyLabels_select_getElem {n : Nat} (labels : Fin n → String) (rows : List (Fin n)) :
    pyLabels (fun i : Fin rows.length => labels rows[i.val]) = pyLabelList (rows.map labels) :=
  pyLabels_select labels rows

@[simp] theorem labelCount_pyLabelList (l : List String) : labelCount (pyLabelList l) = .ok l.length := by
  simp [labelCount, pyLabelList]

@[simp] theorem len_pyLabelList (l : List String) : Py.len (pyLabelList l) = .ok (l.length : Int) := by
  simp [pyLabelList]

/-! ### what `_process_subsys_index` returns, as its callers use it -/

/-- the returned index object `idx` selects `rows` on an axis of length `n`: through NumPy indexing
(`slice_to_list=False`: `X[idx, :]`), resp. through iteration + integer subscripts
(`slice_to_list=True`: `for r, i in enumerate(idx): … X[i, j]`). -/
def IdxFor (n : Nat) (stl : Bool) (idx : PyVal) (rows : List (Fin n)) : Prop :=
  if stl then ∃ ints : List Int, Py.iter idx = .ok (ints.map .int) ∧ ints.mapM (normIdx n) = .ok rows
  else axisIdx n idx = .ok rows

theorem axisIdx_intList (n : Nat) (l : List Int) :
    axisIdx n (.list (l.map .int)) = l.mapM (normIdx n) := by
  simp only [axisIdx, Py.mapM_map]
  exact Py.mapM_congr _ _ _ (fun a _ => rfl)

theorem psi_int (xs : List PyVal) (i : Int) (stl : Bool) :
    (∃ e, intIdx xs.length i = .error e ∧
        Generated.processSubsysIndex (.int i) (.list xs) stl = .error e) ∨
    (∃ rows idx, intIdx xs.length i = .ok rows ∧
        Generated.processSubsysIndex (.int i) (.list xs) stl
          = .ok (idx, .list (rows.map fun k => xs.get k)) ∧ IdxFor xs.length stl idx rows) := by
  by_cases h : i < -(xs.length : Int) ∨ (xs.length : Int) ≤ i
  · exact Or.inl ⟨_, intIdx_err h, generated_int_out_of_range xs i stl h⟩
  · right
    have key : ∀ k : Int, ∀ hk : 0 ≤ k ∧ k < xs.length, (i = k ∨ i = k - xs.length) →
        intIdx xs.length i = .ok [⟨k.toNat, by omega⟩] →
        ∃ rows idx, intIdx xs.length i = .ok rows ∧
          Generated.processSubsysIndex (.int i) (.list xs) stl
            = .ok (idx, .list (rows.map fun k => xs.get k)) ∧ IdxFor xs.length stl idx rows := by
      intro k hk hi hint
      refine ⟨[⟨k.toNat, by omega⟩],
        (if stl then .range k (k + 1) 1 else .slice (some k) (some (k + 1)) (some 1)), hint, ?_, ?_⟩
      · rw [generated_int xs i k stl hk hi]; rfl
      · cases stl
        · simp [IdxFor, axisIdx, Py.sliceList_unit_int hk]
        · refine ⟨[k], ?_, ?_⟩
          · simp [Py.iter, Py.rangeList_unit]
          · simp [List.mapM_cons, normIdx_nonneg hk, bind, Except.bind, pure, Except.pure]
    by_cases h0 : i < 0
    · have hk : 0 ≤ i + xs.length ∧ i + xs.length < xs.length := by omega
      exact key (i + xs.length) hk (by omega) (intIdx_neg (by omega))
    · have hk : 0 ≤ i ∧ i < xs.length := by omega
      exact key i hk (by omega) (intIdx_nonneg hk)

/-- `_process_subsys_index` as the source text says it, on a name-free selector and a label list:
it raises exactly when `processIdx` raises (same error), and otherwise returns the labels of the
channels `processIdx` selects, in that order, together with an index object that selects exactly
these channels when used the way the callers use it. -/
theorem psi_spec_list (xs : List PyVal) (k : Key) (stl : Bool) :
    (∃ e, processIdx xs.length k = .error e ∧
        Generated.processSubsysIndex (toPy k) (.list xs) stl = .error e) ∨
    (∃ rows idx, processIdx xs.length k = .ok rows ∧
        Generated.processSubsysIndex (toPy k) (.list xs) stl
          = .ok (idx, .list (rows.map fun i => xs.get i)) ∧ IdxFor xs.length stl idx rows) := by
  cases k with
  | bad => exact Or.inl ⟨.badArg, rfl, generated_rejects _ _ _ (by decide)⟩
  | idx i => exact psi_int xs i stl
  | slice a b c =>
    simp only [toPy, processIdx]
    rw [generated_slice]
    by_cases hc : stepOf c = 0
    · left
      refine ⟨.badArg, ?_, ?_⟩ <;> simp [sliceIndices, sliceList, hc, bind, Except.bind]
    · right
      obtain ⟨s, e, l, h1, h2, -⟩ := sliceList_ok a b c xs.length hc
      have h3 := Py.range_slice_eq_sliceList xs.length a b c
      rw [h1, h2] at h3
      simp only [Except.bind, zero_add, mul_one, one_mul] at h3
      refine ⟨l, (if stl then .range s e (stepOf c) else .slice a b c), h2, ?_, ?_⟩
      · simp only [h1, h2, Except.bind, Except.map]
      · cases stl
        · simpa [IdxFor, axisIdx] using h2
        · exact ⟨_, rfl, h3⟩
  | list l =>
    by_cases hl : l.length = 1
    · match l, hl with
      | [i], _ =>
        have := psi_int xs i stl
        simpa only [toPy, List.map_cons, List.map_nil, generated_singleton, processIdx] using this
    · simp only [toPy]
      rw [generated_list xs l stl hl, processIdx_list]
      cases hm : l.mapM (normIdx xs.length) with
      | error e => exact Or.inl ⟨e, rfl, rfl⟩
      | ok rows =>
        right
        refine ⟨rows, .list (l.map .int), rfl, rfl, ?_⟩
        cases stl
        · simpa [IdxFor, axisIdx_intList] using hm
        · exact ⟨l, rfl, hm⟩

theorem psi_spec_aux (xs : List PyVal) {n : Nat} (hn : xs.length = n) (labels : Fin n → String)
    (hx : ∀ i : Fin n, xs[i.val]'(hn ▸ i.isLt) = .str (labels i)) (k : Key) (stl : Bool) :
    (∃ e, processIdx n k = .error e ∧
        Generated.processSubsysIndex (toPy k) (.list xs) stl = .error e) ∨
    (∃ rows idx, processIdx n k = .ok rows ∧
        Generated.processSubsysIndex (toPy k) (.list xs) stl
          = .ok (idx, pyLabelList (rows.map labels)) ∧ IdxFor n stl idx rows) := by
  subst hn
  rcases psi_spec_list xs k stl with h | ⟨rows, idx, h1, h2, h3⟩
  · exact Or.inl h
  · refine Or.inr ⟨rows, idx, h1, ?_, h3⟩
    rw [h2]
    simp only [pyLabelList, List.map_map]
    congr 3
    apply List.map_congr_left
    intro i _
    simpa using hx i

/-- the same for the label list of a system with `n` signals. -/
theorem psi_spec {n : Nat} (labels : Fin n → String) (k : Key) (stl : Bool) :
    (∃ e, processIdx n k = .error e ∧
        Generated.processSubsysIndex (toPy k) (pyLabels labels) stl = .error e) ∨
    (∃ rows idx, processIdx n k = .ok rows ∧
        Generated.processSubsysIndex (toPy k) (pyLabels labels) stl
          = .ok (idx, pyLabelList (rows.map labels)) ∧ IdxFor n stl idx rows) :=
  psi_spec_aux ((List.ofFn labels).map PyVal.str) (by simp) labels (by simp) k stl


/-! ### statement vocabulary of `Props/C17GenItem*.lean` -/

/-- the configuration of the model as the `config.defaults` dictionary: the two entries
`__getitem__` reads. -/
def defaultsOf (cfg : Cfg) : Defaults := fun key =>
  if key = "iosys.indexed_system_name_prefix" then some cfg.pre
  else if key = "iosys.indexed_system_name_suffix" then some cfg.suf
  else none

@[simp] theorem defaultsOf_pre (cfg : Cfg) :
    Defaults.getStr (defaultsOf cfg) "iosys.indexed_system_name_prefix" = .ok cfg.pre := by
  simp [Defaults.getStr, defaultsOf]

@[simp] theorem defaultsOf_suf (cfg : Cfg) :
    Defaults.getStr (defaultsOf cfg) "iosys.indexed_system_name_suffix" = .ok cfg.suf := by
  simp [Defaults.getStr, defaultsOf]

/-- the key `sys[rows, cols]` hands to `__getitem__`: the tuple of the two selectors. -/
def pairKey (kr kc : Sel) : PyVal := .tuple [selToPy kr, selToPy kc]

@[simp] theorem isIterable_pairKey (kr kc : Sel) : isIterable (pairKey kr kc) = .ok true := rfl
@[simp] theorem len_pairKey (kr kc : Sel) : Py.len (pairKey kr kc) = .ok 2 := rfl

@[simp] theorem getitem_pair0 (a b : PyVal) : Py.getitem (.tuple [a, b]) (.int 0) = .ok a := rfl
@[simp] theorem getitem_pair1 (a b : PyVal) : Py.getitem (.tuple [a, b]) (.int 1) = .ok b := rfl

/-! ### NumPy indexing with a resolved index object -/

section arrays
variable {K : Type}

theorem takeRows_mk (r c : Nat) (M : Matrix (Fin r) (Fin c) K) (idx : PyVal) (rows : List (Fin r))
    (h : axisIdx r idx = .ok rows) :
    takeRows ⟨r, c, M⟩ idx = .ok ⟨rows.length, c, M.submatrix (fun i => rows.get i) id⟩ := by
  simp [takeRows, h, bind, Except.bind, pure, Except.pure]

theorem takeCols_mk (r c : Nat) (M : Matrix (Fin r) (Fin c) K) (idx : PyVal) (cols : List (Fin c))
    (h : axisIdx c idx = .ok cols) :
    takeCols ⟨r, c, M⟩ idx = .ok ⟨r, cols.length, M.submatrix id (fun j => cols.get j)⟩ := by
  simp [takeCols, h, bind, Except.bind, pure, Except.pure]

variable {β : Type}

theorem takeRows3_mk (r c w : Nat) (d : Fin r → Fin c → List β) (idx : PyVal) (rows : List (Fin r))
    (h : axisIdx r idx = .ok rows) :
    takeRows3 ⟨r, c, w, d⟩ idx = .ok ⟨rows.length, c, w, fun i j => d (rows.get i) j⟩ := by
  simp [takeRows3, h, bind, Except.bind, pure, Except.pure]

theorem takeCols3_mk (r c w : Nat) (d : Fin r → Fin c → List β) (idx : PyVal) (cols : List (Fin c))
    (h : axisIdx c idx = .ok cols) :
    takeCols3 ⟨r, c, w, d⟩ idx = .ok ⟨r, cols.length, w, fun i j => d i (cols.get j)⟩ := by
  simp [takeCols3, h, bind, Except.bind, pure, Except.pure]

end arrays

/-! ### the `StateSpace` constructor on arrays of fitting shapes -/

section ss
variable {K : Type} [Field K]

set_option linter.unusedSimpArgs false

@[simp] theorem ssmatrix_mk (r c : Nat) (M : Matrix (Fin r) (Fin c) K) :
    ssmatrix ⟨r, c, M⟩ = if r = 1 ∧ c = 0 then ⟨0, 0, 0⟩ else ⟨r, c, M⟩ := rfl
omit [Field K] in
@[simp] theorem size_mk (r c : Nat) (M : Matrix (Fin r) (Fin c) K) : size (⟨r, c, M⟩ : PMat K) = r * c := rfl
@[simp] theorem reshapeEmpty_mk (r c r' c' : Nat) (M : Matrix (Fin r) (Fin c) K) :
    reshapeEmpty ⟨r, c, M⟩ r' c' = if r * c = 0 ∧ r' * c' = 0 then .ok ⟨r', c', 0⟩ else .error .shape := rfl

/-- `StateSpace(A, B, C, D, …)` on an `n × n`, `n × m`, `p × n`, `p × m` quadruple with `m` input
and `p` output labels: rejected exactly when `B` or `D` is a `1 × 0` array (no inputs and one state
or one output: `_ssmatrix` turns it into `0 × 0` and `_check_shape` then fails), otherwise the system
with these four matrices. -/
theorem mkStateSpace_mk (n p m : Nat) (A : Matrix (Fin n) (Fin n) K) (B : Matrix (Fin n) (Fin m) K)
    (C : Matrix (Fin p) (Fin n) K) (D : Matrix (Fin p) (Fin m) K) (dt : Dt) (name : String)
    (ins outs : List String) (hi : ins.length = m) (ho : outs.length = p) :
    mkStateSpace ⟨n, n, A⟩ ⟨n, m, B⟩ ⟨p, n, C⟩ ⟨p, m, D⟩ dt name (pyLabelList ins) (pyLabelList outs)
      = if m = 0 ∧ (n = 1 ∨ p = 1) then .error .shape
        else .ok ⟨⟨n, p, m, ⟨A, B, C, D⟩, dt⟩, name, pyLabelList ins, pyLabelList outs⟩ := by
  unfold mkStateSpace
  simp only [labelCount_pyLabelList, hi, ho, ssmatrix_mk]
  by_cases hm : m = 0
  · subst hm
    obtain rfl : B = 0 := Subsingleton.elim _ _
    obtain rfl : D = 0 := Subsingleton.elim _ _
    by_cases hn1 : n = 1
    · subst hn1
      by_cases hp1 : p = 1
      · subst hp1
        simp only [size_mk, reshapeEmpty_mk, PMat.zeros_def,  Nat.mul_zero, Nat.zero_mul, Nat.lt_irrefl, Nat.mul_one, Nat.one_mul, Nat.pos_iff_ne_zero, Nat.mul_ne_zero_iff, Nat.mul_eq_zero, ne_eq, not_true_eq_false, not_false_eq_true, and_true, and_false, true_and, false_and, or_self, or_false, false_or, if_true, if_false, OfNat.ofNat_ne_zero, OfNat.zero_ne_ofNat, one_ne_zero, zero_ne_one, reduceCtorEq]
        simp [PySS.mk, bind, Except.bind, pure, Except.pure, throw, throwThe, MonadExceptOf.throw, *]
      · simp only [size_mk, reshapeEmpty_mk, PMat.zeros_def, hp1, Nat.mul_zero, Nat.zero_mul, Nat.lt_irrefl, Nat.mul_one, Nat.one_mul, Nat.pos_iff_ne_zero, Nat.mul_ne_zero_iff, Nat.mul_eq_zero, ne_eq, not_true_eq_false, not_false_eq_true, and_true, and_false, true_and, false_and, or_self, or_false, false_or, if_true, if_false, OfNat.ofNat_ne_zero, OfNat.zero_ne_ofNat, one_ne_zero, zero_ne_one, reduceCtorEq]
        simp [PySS.mk, bind, Except.bind, pure, Except.pure, throw, throwThe, MonadExceptOf.throw, *]
    · by_cases hp1 : p = 1
      · subst hp1
        by_cases hn0 : n = 0
        · subst hn0
          simp only [size_mk, reshapeEmpty_mk, PMat.zeros_def,  Nat.mul_zero, Nat.zero_mul, Nat.lt_irrefl, Nat.mul_one, Nat.one_mul, Nat.pos_iff_ne_zero, Nat.mul_ne_zero_iff, Nat.mul_eq_zero, ne_eq, not_true_eq_false, not_false_eq_true, and_true, and_false, true_and, false_and, or_self, or_false, false_or, if_true, if_false, OfNat.ofNat_ne_zero, OfNat.zero_ne_ofNat, one_ne_zero, zero_ne_one, reduceCtorEq]
          simp [PySS.mk, bind, Except.bind, pure, Except.pure, throw, throwThe, MonadExceptOf.throw, *]
        · simp only [size_mk, reshapeEmpty_mk, PMat.zeros_def, hn0, hn1, Nat.mul_zero, Nat.zero_mul, Nat.lt_irrefl, Nat.mul_one, Nat.one_mul, Nat.pos_iff_ne_zero, Nat.mul_ne_zero_iff, Nat.mul_eq_zero, ne_eq, not_true_eq_false, not_false_eq_true, and_true, and_false, true_and, false_and, or_self, or_false, false_or, if_true, if_false, OfNat.ofNat_ne_zero, OfNat.zero_ne_ofNat, one_ne_zero, zero_ne_one, reduceCtorEq]
          simp [PySS.mk, bind, Except.bind, pure, Except.pure, throw, throwThe, MonadExceptOf.throw, *]
      · by_cases hn0 : n = 0
        · subst hn0
          obtain rfl : C = 0 := Subsingleton.elim _ _
          simp only [size_mk, reshapeEmpty_mk, PMat.zeros_def, hp1, Nat.mul_zero, Nat.zero_mul, Nat.lt_irrefl, Nat.mul_one, Nat.one_mul, Nat.pos_iff_ne_zero, Nat.mul_ne_zero_iff, Nat.mul_eq_zero, ne_eq, not_true_eq_false, not_false_eq_true, and_true, and_false, true_and, false_and, or_self, or_false, false_or, if_true, if_false, OfNat.ofNat_ne_zero, OfNat.zero_ne_ofNat, one_ne_zero, zero_ne_one, reduceCtorEq]
          simp [PySS.mk, bind, Except.bind, pure, Except.pure, throw, throwThe, MonadExceptOf.throw, *]
        · simp only [size_mk, reshapeEmpty_mk, PMat.zeros_def, hn0, hn1, hp1, Nat.mul_zero, Nat.zero_mul, Nat.lt_irrefl, Nat.mul_one, Nat.one_mul, Nat.pos_iff_ne_zero, Nat.mul_ne_zero_iff, Nat.mul_eq_zero, ne_eq, not_true_eq_false, not_false_eq_true, and_true, and_false, true_and, false_and, or_self, or_false, false_or, if_true, if_false, OfNat.ofNat_ne_zero, OfNat.zero_ne_ofNat, one_ne_zero, zero_ne_one, reduceCtorEq]
          simp [PySS.mk, bind, Except.bind, pure, Except.pure, throw, throwThe, MonadExceptOf.throw, *]
  · by_cases hn0 : n = 0
    · subst hn0
      obtain rfl : B = 0 := Subsingleton.elim _ _
      obtain rfl : C = 0 := Subsingleton.elim _ _
      by_cases hp0 : p = 0
      · subst hp0
        obtain rfl : D = 0 := Subsingleton.elim _ _
        simp only [size_mk, reshapeEmpty_mk, PMat.zeros_def, hm, Nat.mul_zero, Nat.zero_mul, Nat.lt_irrefl, Nat.mul_one, Nat.one_mul, Nat.pos_iff_ne_zero, Nat.mul_ne_zero_iff, Nat.mul_eq_zero, ne_eq, not_true_eq_false, not_false_eq_true, and_true, and_false, true_and, false_and, or_self, or_false, false_or, if_true, if_false, OfNat.ofNat_ne_zero, OfNat.zero_ne_ofNat, one_ne_zero, zero_ne_one, reduceCtorEq]
        simp [PySS.mk, bind, Except.bind, pure, Except.pure, throw, throwThe, MonadExceptOf.throw, *]
      · by_cases hp1 : p = 1
        · subst hp1
          simp only [size_mk, reshapeEmpty_mk, PMat.zeros_def, hm, Nat.mul_zero, Nat.zero_mul, Nat.lt_irrefl, Nat.mul_one, Nat.one_mul, Nat.pos_iff_ne_zero, Nat.mul_ne_zero_iff, Nat.mul_eq_zero, ne_eq, not_true_eq_false, not_false_eq_true, and_true, and_false, true_and, false_and, or_self, or_false, false_or, if_true, if_false, OfNat.ofNat_ne_zero, OfNat.zero_ne_ofNat, one_ne_zero, zero_ne_one, reduceCtorEq]
          simp [PySS.mk, bind, Except.bind, pure, Except.pure, throw, throwThe, MonadExceptOf.throw, *]
        · simp only [size_mk, reshapeEmpty_mk, PMat.zeros_def, hm, hp0, hp1, Nat.mul_zero, Nat.zero_mul, Nat.lt_irrefl, Nat.mul_one, Nat.one_mul, Nat.pos_iff_ne_zero, Nat.mul_ne_zero_iff, Nat.mul_eq_zero, ne_eq, not_true_eq_false, not_false_eq_true, and_true, and_false, true_and, false_and, or_self, or_false, false_or, if_true, if_false, OfNat.ofNat_ne_zero, OfNat.zero_ne_ofNat, one_ne_zero, zero_ne_one, reduceCtorEq]
          simp [PySS.mk, bind, Except.bind, pure, Except.pure, throw, throwThe, MonadExceptOf.throw, *]
    · by_cases hp0 : p = 0
      · subst hp0
        obtain rfl : C = 0 := Subsingleton.elim _ _
        obtain rfl : D = 0 := Subsingleton.elim _ _
        simp only [size_mk, reshapeEmpty_mk, PMat.zeros_def, hm, hn0, Nat.mul_zero, Nat.zero_mul, Nat.lt_irrefl, Nat.mul_one, Nat.one_mul, Nat.pos_iff_ne_zero, Nat.mul_ne_zero_iff, Nat.mul_eq_zero, ne_eq, not_true_eq_false, not_false_eq_true, and_true, and_false, true_and, false_and, or_self, or_false, false_or, if_true, if_false, OfNat.ofNat_ne_zero, OfNat.zero_ne_ofNat, one_ne_zero, zero_ne_one, reduceCtorEq]
        simp [PySS.mk, bind, Except.bind, pure, Except.pure, throw, throwThe, MonadExceptOf.throw, *]
      · simp only [size_mk, reshapeEmpty_mk, PMat.zeros_def, hm, hn0, hp0, Nat.mul_zero, Nat.zero_mul, Nat.lt_irrefl, Nat.mul_one, Nat.one_mul, Nat.pos_iff_ne_zero, Nat.mul_ne_zero_iff, Nat.mul_eq_zero, ne_eq, not_true_eq_false, not_false_eq_true, and_true, and_false, true_and, false_and, or_self, or_false, false_or, if_true, if_false, OfNat.ofNat_ne_zero, OfNat.zero_ne_ofNat, one_ne_zero, zero_ne_one, reduceCtorEq]
        simp [PySS.mk, bind, Except.bind, pure, Except.pure, throw, throwThe, MonadExceptOf.throw, *]

end ss


/-! ### the double loop of `TransferFunction.__getitem__` -/

section tf
variable {K : Type} [Field K] [DecidableEq K]

open PyTF

theorem normIdx_py {n : Nat} {i : Int} {k : Fin n} (h : Index.normIdx n i = .ok k) :
    PyArith.normIdx n i = .ok k.val := by
  unfold Index.normIdx at h
  unfold PyArith.normIdx
  split at h
  · rename_i h1
    cases h
    simp [h1]
  · split at h
    · rename_i h1 h2
      cases h
      have : ¬ (0 ≤ i ∧ i < n) := h1
      simp [this, h2.1, h2.2]
    · cases h

theorem numArray_getItem_norm (G : DTF K) {i j : Int} {r : Fin G.p} {c : Fin G.m}
    (hi : Index.normIdx G.p i = .ok r) (hj : Index.normIdx G.m j = .ok c) :
    (numArray G).getItem i j = .ok (G.sys.e r c).num := by
  simp [PolyArr.getItem, normIdx_py hi, normIdx_py hj, numArray, entry?_lt G r.isLt c.isLt]

theorem denArray_getItem_norm (G : DTF K) {i j : Int} {r : Fin G.p} {c : Fin G.m}
    (hi : Index.normIdx G.p i = .ok r) (hj : Index.normIdx G.m j = .ok c) :
    (denArray G).getItem i j = .ok (G.sys.e r c).den := by
  simp [PolyArr.getItem, normIdx_py hi, normIdx_py hj, denArray, entry?_lt G r.isLt c.isLt]

/-- `enumerate(idx)` when `idx` iterates over the integers `ints`. -/
def enumInts (ints : List Int) : List (Int × PyVal) :=
  ints.zipIdx.map fun ik => ((ik.2 : Int), PyVal.int ik.1)

theorem enumerate_ints (idx : PyVal) (ints : List Int) (h : Py.iter idx = .ok (ints.map .int)) :
    enumerate idx = .ok (enumInts ints) := by
  simp only [enumerate, h, bind, Except.bind, pure, Except.pure, enumInts]
  congr 1
  apply List.ext_getElem
  · simp
  · intro k h1 h2
    simp

@[simp] theorem enumInts_length (ints : List Int) : (enumInts ints).length = ints.length := by
  simp [enumInts]

theorem enumInts_getElem (ints : List Int) (k : Nat) (h : k < (enumInts ints).length) :
    (enumInts ints)[k] = ((k : Int), PyVal.int (ints[k]'(by simpa using h))) := by
  simp [enumInts]

@[simp] theorem asIndex_int (i : Int) : asIndex (.int i) = .ok i := rfl

end tf

end CtrlVerif.PyGet
