/-
How a function in `CfgM` (Model/PyDict.lean) runs on a dictionary: `pure`, `throw`, `>>=`, the
three primitives, and `for x in list do …` loops.
-/
import CtrlVerif.Model.PyDict

namespace CtrlVerif.PyDict

open Config

theorem run_pure {α : Type} (a : α) (c : Cfg) : run (pure a : CfgM α) c = (.ok a, c) := rfl

theorem run_throw {α : Type} (e : Err) (c : Cfg) : run (throw e : CfgM α) c = (.error e, c) := rfl

theorem run_bind {α β : Type} (x : CfgM α) (f : α → CfgM β) (c : Cfg) :
    run (x >>= f) c = match run x c with
      | (.ok a, c') => run (f a) c'
      | (.error e, c') => (.error e, c') := by
  simp only [run, ExceptT.run_bind]
  show (StateT.run (ExceptT.run x >>= _) c) = _
  simp only [StateT.run_bind]
  rcases h : StateT.run (ExceptT.run x) c with ⟨r, c'⟩
  cases r <;> simp_all <;> rfl

theorem run_contains (k : String) (c : Cfg) : run (contains k) c = (.ok (has c k), c) := rfl

theorem run_dataSet (k v : String) (c : Cfg) : run (dataSet k v) c = (.ok (), put c k v) := rfl

theorem run_dataGet (k : String) (c : Cfg) :
    run (dataGet k) c = (match Config.get c k with
      | some v => .ok v
      | none => .error .unknownName, c) := rfl

theorem run_ite {α : Type} (p : Prop) [Decidable p] (x y : CfgM α) (c : Cfg) :
    run (if p then x else y) c = if p then run x c else run y c := by
  split <;> rfl

/-- a `for x in l do body x` loop whose body never breaks: run the body on each element in turn,
stop at the first exception (the changes made so far are kept). -/
theorem run_forIn_nil {α : Type} (f : α → PUnit → CfgM (ForInStep PUnit)) (c : Cfg) :
    run (forIn ([] : List α) PUnit.unit f) c = (.ok PUnit.unit, c) := rfl

theorem run_forIn_cons {α : Type} (a : α) (l : List α) (f : α → PUnit → CfgM (ForInStep PUnit))
    (c : Cfg) :
    run (forIn (a :: l) PUnit.unit f) c = match run (f a PUnit.unit) c with
      | (.ok (.yield _), c') => run (forIn l PUnit.unit f) c'
      | (.ok (.done _), c') => (.ok PUnit.unit, c')
      | (.error e, c') => (.error e, c') := by
  rw [List.forIn_cons, run_bind]
  rcases run (f a PUnit.unit) c with ⟨r, c'⟩
  rcases r with e | s
  · rfl
  · cases s <;> rfl

theorem assignAll_append (c : Cfg) (l₁ l₂ : List (Key × Val)) :
    assignAll c (l₁ ++ l₂) = assignAll (assignAll c l₁) l₂ := by
  induction l₁ generalizing c with
  | nil => rfl
  | cons e t ih => obtain ⟨k, v⟩ := e; simp [assignAll, ih]

end CtrlVerif.PyDict
