/-
Symbolic evaluation of the primitives of `Model/PyNorm.lean` (the value model of the source-text tie
of C16, `harness/core/py2lean_norm.py`): each primitive applied to arrays in constructor form is the
typed Mathlib operation / the test of the hand-written model `Model/Norm.lean`.  Helper lemmas of the
equality proofs `Props/C16Gen*.lean`, free to change.
-/
import CtrlVerif.Model.PyNorm
import CtrlVerif.Lemmas.PyMat

namespace CtrlVerif.PyNorm

open Matrix CtrlVerif Norm

section field
variable {K : Type} [Field K]

theorem callLyap_mk (f : LyapFun K) (n : Nat) (A Q : Matrix (Fin n) (Fin n) K) :
    callLyap f ⟨n, n, A⟩ ⟨n, n, Q⟩ = .ok ⟨n, n, f n A Q⟩ := by
  simp [callLyap]

theorem trace_mk (n : Nat) (M : Matrix (Fin n) (Fin n) K) : trace ⟨n, n, M⟩ = Matrix.trace M := by
  simp [trace, Matrix.trace, Matrix.diag]

theorem mem_flat (p m : Nat) (D : Matrix (Fin p) (Fin m) K) (x : K) :
    x ∈ flat ⟨p, m, D⟩ ↔ ∃ i j, D i j = x := by
  simp [flat, List.mem_flatMap]

end field

section ordered
variable {K : Type} [Field K] [LinearOrder K]

theorem any_isclose_real_zero (poles : List (Pole K)) :
    any (isclose (real poles) 0) = onAxis poles := by
  simp [any, isclose, real, onAxis, List.any_map, Function.comp_def]

theorem any_gt_real_zero (poles : List (Pole K)) :
    any (gt (real poles) 0) = inRhp poles := by
  simp [any, gt, real, inRhp, List.any_map, Function.comp_def]

theorem any_absIsclose_one (poles : List (Pole K)) :
    any (absIsclose (abs poles) 1) = onCircle poles := by
  simp [any, absIsclose, abs, onCircle, Pole.absSq, List.any_map, Function.comp_def]
  rfl

theorem any_absGt_one (poles : List (Pole K)) :
    any (absGt (abs poles) 1) = outsideDisc poles := by
  simp [any, absGt, abs, outsideDisc, Pole.absSq, List.any_map, Function.comp_def]
  rfl

theorem any_iscloseC_zero (zs : List (Pole K)) :
    any (iscloseC zs 0) = atOrigin zs := by
  simp [any, iscloseC, atOrigin, List.any_map, Function.comp_def]

theorem any_ne_flat (p m : Nat) (D : Matrix (Fin p) (Fin m) K) :
    any (ne (flat ⟨p, m, D⟩) 0) = hasDirect D := by
  rw [Bool.eq_iff_iff]
  simp only [any, ne, List.any_map, List.any_eq_true, Function.comp_apply, id_eq, decide_eq_true_eq,
    hasDirect, mem_flat]
  constructor
  · rintro ⟨x, ⟨i, j, rfl⟩, hx⟩
    exact ⟨(i, j), hx⟩
  · rintro ⟨⟨i, j⟩, hx⟩
    exact ⟨_, ⟨i, j, rfl⟩, hx⟩

theorem isnan_sqrt (q : K) : isnan (sqrt q) = decide (q < 0) := rfl

end ordered

end CtrlVerif.PyNorm
