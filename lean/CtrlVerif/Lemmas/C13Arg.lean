/-
C13 (argument principle on the imaginary axis) — helper lemmas.

The continuous phase of a linear factor `jω - a` (`Re a ≠ 0`) along the imaginary axis, written with
`Real.arctan`, its polar form, monotonicity, limits, tail bounds, and the bookkeeping over lists of
roots (sums of phases, conjugation symmetry, counting of right-half-plane roots).
-/
import CtrlVerif.Lemmas.NyquistReal
import Mathlib.Analysis.SpecialFunctions.Trigonometric.Arctan
import Mathlib.Analysis.SpecialFunctions.Trigonometric.Bounds
import Mathlib.Analysis.SpecialFunctions.Trigonometric.ArctanDeriv
import Mathlib.Analysis.Calculus.MeanValue
import Mathlib.Analysis.SpecialFunctions.Complex.Arg
import Mathlib.Analysis.Complex.Norm
import Mathlib.Analysis.Real.Pi.Bounds
import Mathlib.Topology.Algebra.Monoid
import Mathlib.Order.Filter.AtTopBot.Field

namespace CtrlVerif.NyquistArg

open Real Filter Topology

/-! ## real lemmas about `arctan` -/

theorem sqrt_sq_add_sq (x y : ℝ) (hx : x ≠ 0) :
    √(x ^ 2 + y ^ 2) = |x| * √(1 + (y / x) ^ 2) := by
  rw [← Real.sqrt_sq (abs_nonneg x), ← Real.sqrt_mul (sq_nonneg _)]
  congr 1
  rw [sq_abs]
  field_simp

theorem sqrt_one_add_sq_pos (t : ℝ) : 0 < √(1 + t ^ 2) := Real.sqrt_pos.2 (by positivity)

theorem sqrt_mul_cos_arctan (x y : ℝ) (hx : x ≠ 0) :
    √(x ^ 2 + y ^ 2) * cos (arctan (y / x)) = |x| := by
  have h := (sqrt_one_add_sq_pos (y / x)).ne'
  rw [sqrt_sq_add_sq x y hx, cos_arctan]
  field_simp

theorem sqrt_mul_sin_arctan (x y : ℝ) (hx : x ≠ 0) :
    √(x ^ 2 + y ^ 2) * sin (arctan (y / x)) = |x| * (y / x) := by
  have h := (sqrt_one_add_sq_pos (y / x)).ne'
  rw [sqrt_sq_add_sq x y hx, sin_arctan]
  field_simp

/-- the branch offset: `π` when the real part `x` of the factor is negative. -/
noncomputable def branch (x : ℝ) : ℝ := if x < 0 then π else 0

theorem polar_re (x y : ℝ) (hx : x ≠ 0) :
    √(x ^ 2 + y ^ 2) * cos (arctan (y / x) + branch x) = x := by
  unfold branch
  split_ifs with h
  · rw [cos_add_pi, mul_neg, sqrt_mul_cos_arctan x y hx, abs_of_neg h]; ring
  · rw [add_zero, sqrt_mul_cos_arctan x y hx, abs_of_pos (lt_of_le_of_ne (not_lt.1 h) hx.symm)]

theorem polar_im (x y : ℝ) (hx : x ≠ 0) :
    √(x ^ 2 + y ^ 2) * sin (arctan (y / x) + branch x) = y := by
  unfold branch
  split_ifs with h
  · rw [sin_add_pi, mul_neg, sqrt_mul_sin_arctan x y hx, abs_of_neg h]; field_simp
  · rw [add_zero, sqrt_mul_sin_arctan x y hx, abs_of_pos (lt_of_le_of_ne (not_lt.1 h) hx.symm)]
    field_simp

/-- `arctan x ≤ x` for `x ≥ 0`. -/
theorem arctan_le_self {x : ℝ} (hx : 0 ≤ x) : arctan x ≤ x := by
  have h := Real.le_tan (arctan_nonneg.2 hx) (arctan_lt_pi_div_two x)
  rwa [tan_arctan] at h

/-- `arctan` is 1-Lipschitz (its derivative `1/(1+x²)` is at most 1). -/
theorem abs_arctan_sub_le (x y : ℝ) : |arctan y - arctan x| ≤ |y - x| := by
  have h := (convex_univ (𝕜 := ℝ) (E := ℝ)).norm_image_sub_le_of_norm_deriv_le (f := arctan) (C := 1)
    (fun x _ => differentiableAt_arctan x)
    (fun x _ => by
      rw [Real.deriv_arctan, Real.norm_eq_abs, abs_of_pos (by positivity)]
      rw [div_le_one (by positivity)]
      nlinarith [sq_nonneg x])
    (Set.mem_univ x) (Set.mem_univ y)
  simpa [Real.norm_eq_abs] using h

/-- `π/2 - arctan t = arctan (1/t)` for `t > 0`. -/
theorem pi_div_two_sub_arctan {t : ℝ} (ht : 0 < t) : π / 2 - arctan t = arctan t⁻¹ := by
  rw [arctan_inv_of_pos ht]

/-! ## the phase of one factor `jω - a` -/

/-- continuous phase of `jω - a` along the imaginary axis (`Re a ≠ 0`): `jω - a = x + j y` with
`x = -Re a`, `y = ω - Im a`; `arctan (y/x)` on the branch that is continuous in `ω`
(`+ π` when `x < 0`, i.e. when `a` is in the open right half plane). -/
noncomputable def phase (a : ℂ) (ω : ℝ) : ℝ := arctan ((ω - a.im) / (-a.re)) + branch (-a.re)

/-- total change of the phase of `jω - a` over `ω ∈ (-∞, ∞)`: `+π` for a left-half-plane root,
`-π` for a right-half-plane root. -/
noncomputable def turn (a : ℂ) : ℝ := if 0 < a.re then -π else π

theorem branch_neg_re (a : ℂ) : branch (-a.re) = if 0 < a.re then π else 0 := by
  unfold branch; simp

theorem factor_polar (a : ℂ) (ha : a.re ≠ 0) (ω : ℝ) :
    (ω : ℂ) * Complex.I - a =
      (‖(ω : ℂ) * Complex.I - a‖ : ℂ) * Complex.exp ((phase a ω : ℝ) * Complex.I) := by
  have hx : -a.re ≠ 0 := neg_ne_zero.2 ha
  have hn : ‖(ω : ℂ) * Complex.I - a‖ = √((-a.re) ^ 2 + (ω - a.im) ^ 2) := by
    rw [Complex.norm_eq_sqrt_sq_add_sq]; simp
  rw [hn]
  apply Complex.ext
  · rw [Complex.re_ofReal_mul, Complex.exp_ofReal_mul_I_re, phase, polar_re _ _ hx]; simp
  · rw [Complex.im_ofReal_mul, Complex.exp_ofReal_mul_I_im, phase, polar_im _ _ hx]; simp

theorem factor_ne_zero (a : ℂ) (ha : a.re ≠ 0) (ω : ℝ) : (ω : ℂ) * Complex.I - a ≠ 0 := by
  intro h
  have := congrArg Complex.re h
  simp at this
  exact ha this

theorem continuous_phase (a : ℂ) : Continuous (phase a) := by
  unfold phase
  exact (continuous_arctan.comp (by fun_prop)).add continuous_const

theorem phase_strictMono (a : ℂ) (ha : a.re < 0) : StrictMono (phase a) := by
  intro u v huv
  unfold phase
  have hx : 0 < -a.re := by linarith
  have : (u - a.im) / (-a.re) < (v - a.im) / (-a.re) :=
    div_lt_div_of_pos_right (by linarith) hx
  linarith [arctan_strictMono this]

theorem phase_strictAnti (a : ℂ) (ha : 0 < a.re) : StrictAnti (phase a) := by
  intro u v huv
  unfold phase
  have hx : -a.re < 0 := by linarith
  have : (v - a.im) / (-a.re) < (u - a.im) / (-a.re) :=
    div_lt_div_of_neg_of_lt hx (by linarith)
  linarith [arctan_strictMono this]

theorem tendsto_phase_atTop (a : ℂ) (ha : a.re ≠ 0) : Tendsto (phase a) atTop (𝓝 (π / 2)) := by
  have hsub : Tendsto (fun ω : ℝ => ω - a.im) atTop atTop :=
    tendsto_atTop_add_const_right _ _ tendsto_id
  unfold phase branch
  rcases lt_or_gt_of_ne ha with h | h
  · have hx : 0 < -a.re := by linarith
    have h1 : Tendsto (fun ω : ℝ => (ω - a.im) / (-a.re)) atTop atTop := hsub.atTop_div_const hx
    have h2 := (tendsto_arctan_atTop.mono_right nhdsWithin_le_nhds).comp h1
    rw [if_neg (by linarith)]
    simp only [add_zero]
    exact h2
  · have hx : -a.re < 0 := by linarith
    have h1 : Tendsto (fun ω : ℝ => (ω - a.im) / (-a.re)) atTop atBot :=
      hsub.atTop_div_const_of_neg hx
    have h2 := ((tendsto_arctan_atBot.mono_right nhdsWithin_le_nhds).comp h1).add_const π
    rw [if_pos hx]
    have e : -(π / 2) + π = π / 2 := by ring
    rw [e] at h2
    exact h2

theorem tendsto_phase_atBot (a : ℂ) (ha : a.re ≠ 0) :
    Tendsto (phase a) atBot (𝓝 (π / 2 - turn a)) := by
  have hsub : Tendsto (fun ω : ℝ => ω - a.im) atBot atBot :=
    tendsto_atBot_add_const_right _ _ tendsto_id
  unfold phase branch turn
  rcases lt_or_gt_of_ne ha with h | h
  · have hx : 0 < -a.re := by linarith
    have h1 : Tendsto (fun ω : ℝ => (ω - a.im) / (-a.re)) atBot atBot := hsub.atBot_div_const hx
    have h2 := (tendsto_arctan_atBot.mono_right nhdsWithin_le_nhds).comp h1
    rw [if_neg (by linarith), if_neg (by linarith)]
    have e : π / 2 - π = -(π / 2) := by ring
    rw [e]
    simp only [add_zero]
    exact h2
  · have hx : -a.re < 0 := by linarith
    have h1 : Tendsto (fun ω : ℝ => (ω - a.im) / (-a.re)) atBot atTop :=
      by simpa only [div_eq_mul_inv] using hsub.atBot_mul_const_of_neg (inv_lt_zero.2 hx)
    have h2 := ((tendsto_arctan_atTop.mono_right nhdsWithin_le_nhds).comp h1).add_const π
    rw [if_pos hx, if_pos h]
    have e : π / 2 - -π = π / 2 + π := by ring
    rw [e]
    exact h2

/-- the phase of `jω - a` and of `jω - conj a` at `ω = 0` are opposite up to the branch offsets. -/
theorem phase_zero (a : ℂ) : phase a 0 = arctan (a.im / a.re) + branch (-a.re) := by
  unfold phase
  rw [zero_sub, neg_div_neg_eq]

/-- above the root the distance of the phase to its limit `π/2` is an `arctan`:
`π/2 - φ_a(ω) = arctan (-Re a / (ω - Im a))`. -/
theorem pi_div_two_sub_phase (a : ℂ) (ha : a.re ≠ 0) {ω : ℝ} (hω : a.im < ω) :
    π / 2 - phase a ω = arctan (-a.re / (ω - a.im)) := by
  have hy : 0 < ω - a.im := by linarith
  have einv : -a.re / (ω - a.im) = ((ω - a.im) / (-a.re))⁻¹ := by rw [inv_div]
  unfold phase branch
  rcases lt_or_gt_of_ne ha with h | h
  · have hx : 0 < -a.re := by linarith
    rw [if_neg (by linarith), add_zero, einv, arctan_inv_of_pos (div_pos hy hx)]
  · have hx : -a.re < 0 := by linarith
    rw [if_pos hx, einv, arctan_inv_of_neg (div_neg_of_pos_of_neg hy hx)]
    ring

theorem abs_pi_div_two_sub_phase (a : ℂ) (ha : a.re ≠ 0) {ω : ℝ} (hω : a.im < ω) :
    |π / 2 - phase a ω| = arctan (|a.re| / (ω - a.im)) := by
  have hy : 0 < ω - a.im := by linarith
  rw [pi_div_two_sub_phase a ha hω]
  rcases lt_or_gt_of_ne ha with h | h
  · have hx : 0 < -a.re := by linarith
    rw [abs_of_pos (arctan_pos.2 (div_pos hx hy)), abs_of_neg h]
  · have e : -a.re / (ω - a.im) = -(a.re / (ω - a.im)) := by ring
    rw [e, arctan_neg, abs_neg, abs_of_pos (arctan_pos.2 (div_pos h hy)), abs_of_pos h]

theorem abs_pi_div_two_sub_phase_le (a : ℂ) (ha : a.re ≠ 0) {ω : ℝ} (hω : a.im < ω) :
    |π / 2 - phase a ω| ≤ |a.re| / (ω - a.im) := by
  rw [abs_pi_div_two_sub_phase a ha hω]
  exact arctan_le_self (div_nonneg (abs_nonneg _) (by linarith))

/-- the phase is 1/|Re a|-Lipschitz. -/
theorem phase_lipschitz (a : ℂ) (u v : ℝ) :
    |phase a v - phase a u| ≤ |v - u| / |a.re| := by
  unfold phase
  have h := abs_arctan_sub_le ((u - a.im) / (-a.re)) ((v - a.im) / (-a.re))
  have e : (v - a.im) / (-a.re) - (u - a.im) / (-a.re) = (v - u) / (-a.re) := by ring
  rw [e, abs_div, abs_neg] at h
  calc |arctan ((v - a.im) / -a.re) + branch (-a.re) - (arctan ((u - a.im) / -a.re) + branch (-a.re))|
      = |arctan ((v - a.im) / -a.re) - arctan ((u - a.im) / -a.re)| := by congr 1; ring
    _ ≤ _ := h

/-! ## lists of roots -/

/-- number of roots in the open right half plane. -/
noncomputable def rhp (l : List ℂ) : ℕ := l.countP (fun a => decide (0 < a.re))

/-- sum of the phases of the factors `jω - a`, `a ∈ l`. -/
noncomputable def sumPhase (l : List ℂ) (ω : ℝ) : ℝ := (l.map fun a => phase a ω).sum

/-- `Φ(ω) = arg k + Σ φ_{c_i}(ω) - Σ φ_{p_i}(ω)`. -/
noncomputable def Phi (k : ℂ) (cs ps : List ℂ) (ω : ℝ) : ℝ :=
  Complex.arg k + sumPhase cs ω - sumPhase ps ω

/-- `k ∏ (s - c_i) / ∏ (s - p_i)`. -/
noncomputable def ratfun (k : ℂ) (cs ps : List ℂ) (s : ℂ) : ℂ :=
  k * (cs.map fun c => s - c).prod / (ps.map fun p => s - p).prod

/-- product of the moduli `|jω - a|`. -/
noncomputable def normProd (l : List ℂ) (ω : ℝ) : ℝ :=
  (l.map fun a => ‖(ω : ℂ) * Complex.I - a‖).prod

@[simp] theorem sumPhase_nil (ω : ℝ) : sumPhase [] ω = 0 := rfl
@[simp] theorem sumPhase_cons (a : ℂ) (l : List ℂ) (ω : ℝ) :
    sumPhase (a :: l) ω = phase a ω + sumPhase l ω := by simp [sumPhase]
@[simp] theorem normProd_nil (ω : ℝ) : normProd [] ω = 1 := rfl
@[simp] theorem normProd_cons (a : ℂ) (l : List ℂ) (ω : ℝ) :
    normProd (a :: l) ω = ‖(ω : ℂ) * Complex.I - a‖ * normProd l ω := by simp [normProd]

theorem normProd_pos (l : List ℂ) (hl : ∀ a ∈ l, a.re ≠ 0) (ω : ℝ) : 0 < normProd l ω := by
  induction l with
  | nil => simp
  | cons a l ih =>
    rw [normProd_cons]
    exact mul_pos (norm_pos_iff.2 (factor_ne_zero a (hl a (by simp)) ω))
      (ih fun b hb => hl b (List.mem_cons_of_mem _ hb))

theorem prod_polar (l : List ℂ) (hl : ∀ a ∈ l, a.re ≠ 0) (ω : ℝ) :
    (l.map fun a => (ω : ℂ) * Complex.I - a).prod =
      (normProd l ω : ℂ) * Complex.exp ((sumPhase l ω : ℝ) * Complex.I) := by
  induction l with
  | nil => simp
  | cons a l ih =>
    rw [List.map_cons, List.prod_cons, ih fun b hb => hl b (List.mem_cons_of_mem _ hb),
      factor_polar a (hl a (by simp)) ω, normProd_cons, sumPhase_cons]
    push_cast
    rw [add_mul, Complex.exp_add]
    ring

/-- the modulus `|k| ∏|jω - c_i| / ∏|jω - p_i|`. -/
noncomputable def modulus (k : ℂ) (cs ps : List ℂ) (ω : ℝ) : ℝ :=
  ‖k‖ * normProd cs ω / normProd ps ω

theorem modulus_pos {k : ℂ} (hk : k ≠ 0) (cs ps : List ℂ) (hc : ∀ a ∈ cs, a.re ≠ 0)
    (hp : ∀ a ∈ ps, a.re ≠ 0) (ω : ℝ) : 0 < modulus k cs ps ω :=
  div_pos (mul_pos (norm_pos_iff.2 hk) (normProd_pos cs hc ω)) (normProd_pos ps hp ω)

theorem ratfun_polar (k : ℂ) (cs ps : List ℂ) (hc : ∀ a ∈ cs, a.re ≠ 0)
    (hp : ∀ a ∈ ps, a.re ≠ 0) (ω : ℝ) :
    ratfun k cs ps ((ω : ℂ) * Complex.I) =
      (modulus k cs ps ω : ℂ) * Complex.exp ((Phi k cs ps ω : ℝ) * Complex.I) := by
  have hpn : (normProd ps ω : ℂ) ≠ 0 := by exact_mod_cast (normProd_pos ps hp ω).ne'
  unfold ratfun modulus Phi
  rw [prod_polar cs hc, prod_polar ps hp]
  conv_lhs => rw [← Complex.norm_mul_exp_arg_mul_I k]
  push_cast
  rw [sub_mul, add_mul, Complex.exp_sub, Complex.exp_add]
  have he := Complex.exp_ne_zero ((sumPhase ps ω : ℂ) * Complex.I)
  field_simp

theorem norm_ratfun {k : ℂ} (hk : k ≠ 0) (cs ps : List ℂ) (hc : ∀ a ∈ cs, a.re ≠ 0)
    (hp : ∀ a ∈ ps, a.re ≠ 0) (ω : ℝ) :
    ‖ratfun k cs ps ((ω : ℂ) * Complex.I)‖ = modulus k cs ps ω := by
  rw [ratfun_polar k cs ps hc hp, norm_mul, Complex.norm_exp_ofReal_mul_I, mul_one,
    Complex.norm_real, Real.norm_eq_abs, abs_of_pos (modulus_pos hk cs ps hc hp ω)]

theorem continuous_sumPhase (l : List ℂ) : Continuous (sumPhase l) := by
  unfold sumPhase
  exact continuous_list_sum l fun a _ => continuous_phase a

theorem sum_map_const_real {α : Type} (l : List α) (c : ℝ) :
    (l.map fun _ => c).sum = l.length * c := by
  induction l with
  | nil => simp
  | cons a l ih => rw [List.map_cons, List.sum_cons, ih, List.length_cons]; push_cast; ring

/-- `Σ (if p a then x else y) = #p · x + (n - #p) · y`. -/
theorem sum_map_ite {α : Type} (l : List α) (p : α → Prop) [DecidablePred p] (x y : ℝ) :
    (l.map fun a => if p a then x else y).sum =
      (l.countP (fun a => decide (p a)) : ℝ) * x +
        ((l.length : ℝ) - l.countP (fun a => decide (p a))) * y := by
  induction l with
  | nil => simp
  | cons a l ih =>
    rw [List.map_cons, List.sum_cons, ih, List.length_cons, List.countP_cons]
    by_cases h : p a
    · simp only [h, if_true, decide_true]; push_cast; ring
    · simp only [h, if_false, decide_false]; push_cast; ring

theorem sum_turn (l : List ℂ) : (l.map turn).sum = π * ((l.length : ℝ) - 2 * rhp l) := by
  have := sum_map_ite l (fun a : ℂ => 0 < a.re) (-π) π
  have e : turn = fun a : ℂ => if 0 < a.re then -π else π := funext fun a => rfl
  unfold rhp
  rw [e, this]; ring

theorem sum_branch (l : List ℂ) : (l.map fun a => branch (-a.re)).sum = π * rhp l := by
  have := sum_map_ite l (fun a : ℂ => 0 < a.re) π 0
  unfold rhp
  simp only [branch_neg_re]
  rw [this]; ring

theorem tendsto_sumPhase_atTop (l : List ℂ) (hl : ∀ a ∈ l, a.re ≠ 0) :
    Tendsto (sumPhase l) atTop (𝓝 (l.length * (π / 2))) := by
  have := tendsto_list_sum l (f := fun a ω => phase a ω) (a := fun _ => π / 2) (x := atTop)
    fun a ha => tendsto_phase_atTop a (hl a ha)
  rw [sum_map_const_real] at this
  exact this

theorem tendsto_sumPhase_atBot (l : List ℂ) (hl : ∀ a ∈ l, a.re ≠ 0) :
    Tendsto (sumPhase l) atBot (𝓝 (l.length * (π / 2) - π * ((l.length : ℝ) - 2 * rhp l))) := by
  have := tendsto_list_sum l (f := fun a ω => phase a ω) (a := fun a => π / 2 - turn a)
    (x := atBot) fun a ha => tendsto_phase_atBot a (hl a ha)
  have e : (l.map fun a => π / 2 - turn a).sum = (l.map fun _ => π / 2).sum - (l.map turn).sum := by
    induction l with
    | nil => simp
    | cons a l ih =>
      simp only [List.map_cons, List.sum_cons]
      rw [ih fun b hb => hl b (List.mem_cons_of_mem _ hb)]
      · ring
      · exact tendsto_list_sum l fun a ha => tendsto_phase_atBot a
          (hl a (List.mem_cons_of_mem _ ha))
  rw [e, sum_map_const_real, sum_turn] at this
  exact this

theorem sum_map_neg_fun {α : Type} (l : List α) (g : α → ℝ) :
    (l.map fun a => -g a).sum = -(l.map g).sum := by
  induction l with
  | nil => simp
  | cons a l ih => rw [List.map_cons, List.sum_cons, ih, List.map_cons, List.sum_cons]; ring

/-- a sum of an odd function over a list closed under an involution-like map vanishes. -/
theorem sum_eq_zero_of_odd (l : List ℂ) (σ : ℂ → ℂ) (g : ℂ → ℝ) (hg : ∀ a, g (σ a) = -g a)
    (hl : (l.map σ).Perm l) : (l.map g).sum = 0 := by
  have h1 : ((l.map σ).map g).sum = (l.map g).sum := (hl.map g).sum_eq
  rw [List.map_map] at h1
  have h2 : (l.map (g ∘ σ)).sum = -(l.map g).sum := by
    have : (g ∘ σ) = fun a => -g a := funext fun a => hg a
    rw [this]
    exact sum_map_neg_fun l g
  linarith

/-- conjugate symmetry at `ω = 0`: the `arctan` parts cancel, only the branch offsets remain. -/
theorem sumPhase_zero (l : List ℂ) (hl : (l.map (starRingEnd ℂ)).Perm l) :
    sumPhase l 0 = π * rhp l := by
  have h0 := sum_eq_zero_of_odd l (starRingEnd ℂ) (fun a => arctan (a.im / a.re))
    (fun a => by simp [neg_div, arctan_neg]) hl
  unfold sumPhase
  have : (l.map fun a => phase a 0) =
      l.map fun a => arctan (a.im / a.re) + branch (-a.re) := by
    congr 1; funext a; exact phase_zero a
  rw [this, List.sum_map_add, h0, zero_add, sum_branch]

/-! ## tail and step bounds -/

/-- the explicit tail bound `Σ arctan (|Re a| / (ω - Im a))`. -/
noncomputable def tailArctan (l : List ℂ) (ω : ℝ) : ℝ :=
  (l.map fun a => arctan (|a.re| / (ω - a.im))).sum

/-- the weaker rational tail bound `Σ |Re a| / (ω - Im a)`. -/
noncomputable def tailRat (l : List ℂ) (ω : ℝ) : ℝ :=
  (l.map fun a => |a.re| / (ω - a.im)).sum

theorem tailArctan_le_tailRat (l : List ℂ) (ω : ℝ) (hω : ∀ a ∈ l, a.im < ω) :
    tailArctan l ω ≤ tailRat l ω := by
  unfold tailArctan tailRat
  apply List.sum_le_sum
  intro a ha
  exact arctan_le_self (div_nonneg (abs_nonneg _) (by linarith [hω a ha]))

theorem abs_limit_sub_sumPhase (l : List ℂ) (hl : ∀ a ∈ l, a.re ≠ 0) (ω : ℝ)
    (hω : ∀ a ∈ l, a.im < ω) :
    |l.length * (π / 2) - sumPhase l ω| ≤ tailArctan l ω := by
  induction l with
  | nil => simp [tailArctan]
  | cons a l ih =>
    have iha := ih (fun b hb => hl b (List.mem_cons_of_mem _ hb))
      (fun b hb => hω b (List.mem_cons_of_mem _ hb))
    have h1 := abs_pi_div_two_sub_phase a (hl a (by simp)) (hω a (by simp))
    have e : ((a :: l).length : ℝ) * (π / 2) - sumPhase (a :: l) ω =
        (π / 2 - phase a ω) + (l.length * (π / 2) - sumPhase l ω) := by
      rw [sumPhase_cons, List.length_cons]; push_cast; ring
    rw [e]
    have : tailArctan (a :: l) ω = arctan (|a.re| / (ω - a.im)) + tailArctan l ω := by
      simp [tailArctan]
    rw [this]
    calc _ ≤ |π / 2 - phase a ω| + |l.length * (π / 2) - sumPhase l ω| := abs_add_le _ _
      _ ≤ _ := by rw [h1]; linarith

/-- Lipschitz constant of `Σ φ_a`: `Σ 1/|Re a|`. -/
noncomputable def lipConst (l : List ℂ) : ℝ := (l.map fun a => 1 / |a.re|).sum

theorem sumPhase_lipschitz (l : List ℂ) (u v : ℝ) :
    |sumPhase l v - sumPhase l u| ≤ |v - u| * lipConst l := by
  induction l with
  | nil => simp [lipConst]
  | cons a l ih =>
    have h1 := phase_lipschitz a u v
    have e : sumPhase (a :: l) v - sumPhase (a :: l) u =
        (phase a v - phase a u) + (sumPhase l v - sumPhase l u) := by
      simp only [sumPhase_cons]; ring
    have e2 : lipConst (a :: l) = 1 / |a.re| + lipConst l := by simp [lipConst]
    rw [e, e2]
    calc _ ≤ |phase a v - phase a u| + |sumPhase l v - sumPhase l u| := abs_add_le _ _
      _ ≤ |v - u| / |a.re| + |v - u| * lipConst l := add_le_add h1 ih
      _ = _ := by ring

open CtrlVerif.Nyquist in
/-- a step bound for `f` transfers a grid-spacing condition to the increments of `f` on the grid. -/
theorem diff_map_lt (f : ℝ → ℝ) (C B : ℝ) (hf : ∀ u v, |f v - f u| ≤ |v - u| * C) (l : List ℝ)
    (h : ∀ δ ∈ diff l, |δ| * C < B) : ∀ δ ∈ diff (l.map f), |δ| < B := by
  induction l with
  | nil => intro δ hδ; simp at hδ
  | cons a t ih =>
    cases t with
    | nil => intro δ hδ; simp at hδ
    | cons b t =>
      intro δ hδ
      simp only [List.map_cons, diff_cons_cons, List.mem_cons] at hδ
      rcases hδ with rfl | hδ
      · exact lt_of_le_of_lt (hf a b) (h (b - a) (by simp))
      · exact ih (fun d hd => h d (by simp only [diff_cons_cons, List.mem_cons]; right; exact hd))
          δ (by simpa using hδ)

end CtrlVerif.NyquistArg
