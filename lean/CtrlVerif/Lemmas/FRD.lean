/-
Helper lemmas for the FRD model: the certified inverse, `Except` plumbing, list lookups,
and the square expression trees used by the tree theorem of C09.
-/
import CtrlVerif.Model.FRDDyn
import CtrlVerif.Lemmas.SS
import CtrlVerif.Lemmas.Poly
import Mathlib.LinearAlgebra.Matrix.NonsingularInverse
import Mathlib.Tactic.Abel

namespace CtrlVerif

open Matrix

variable {K : Type*} [Field K]

/-- `invQ` is a two-sided inverse when the determinant is not zero. -/
theorem invQ_mul_self {ι : Type*} [Fintype ι] [DecidableEq ι] (F : Matrix ι ι K) (h : F.det ≠ 0) :
    SS.invQ F * F = 1 := by
  unfold SS.invQ
  rw [Matrix.smul_mul, Matrix.adjugate_mul, smul_smul, inv_mul_cancel₀ h, one_smul]

theorem self_mul_invQ {ι : Type*} [Fintype ι] [DecidableEq ι] (F : Matrix ι ι K) (h : F.det ≠ 0) :
    F * SS.invQ F = 1 := by
  unfold SS.invQ
  rw [Matrix.mul_smul, Matrix.mul_adjugate, smul_smul, inv_mul_cancel₀ h, one_smul]

theorem invQ_eq_inv {ι : Type*} [Fintype ι] [DecidableEq ι] (F : Matrix ι ι K) (h : F.det ≠ 0) :
    SS.invQ F = F⁻¹ :=
  (Matrix.inv_eq_left_inv (invQ_mul_self F h)).symm

/-- push-through: `(1 - s•(G H)) G = G (1 - s•(H G))`. -/
theorem push_through {o ι : Type*} [Fintype o] [Fintype ι] [DecidableEq o] [DecidableEq ι]
    (G : Matrix o ι K) (H : Matrix ι o K) (s : K) :
    (1 - s • (G * H)) * G = G * (1 - s • (H * G)) := by
  simp [Matrix.sub_mul, Matrix.mul_sub, Matrix.mul_assoc]

namespace FRD

variable {n : Nat} {o ι : Type*}

/-- the first stored index with frequency `w`. -/
theorem find?_some_iff (G : FRD n o ι K) (w : ℚ) (k : Fin n) :
    G.find? w = some k ↔ G.omega k = w ∧ ∀ k' : Fin n, k' < k → G.omega k' ≠ w := by
  unfold find?
  rw [List.find?_eq_some_iff_getElem]
  constructor
  · rintro ⟨hk, i, hi, hik, hlt⟩
    have hi' : i < n := by simpa using hi
    have hki : k = ⟨i, hi'⟩ := by simpa [List.getElem_finRange] using hik.symm
    subst hki
    refine ⟨by simpa using hk, fun k' hk' => ?_⟩
    have := hlt k'.val hk'
    simpa [List.getElem_finRange] using this
  · rintro ⟨hk, hlt⟩
    refine ⟨by simpa using hk, k.val, by simp, by simp [List.getElem_finRange], fun j hj => ?_⟩
    have hj' : j < n := lt_trans hj k.isLt
    have := hlt ⟨j, hj'⟩ hj
    simpa [List.getElem_finRange] using this

theorem find?_none_iff (G : FRD n o ι K) (w : ℚ) :
    G.find? w = none ↔ ∀ k, G.omega k ≠ w := by
  unfold find?
  simp [List.find?_eq_none]

theorem find?_of_injective (G : FRD n o ι K) (hinj : Function.Injective G.omega) (k : Fin n) :
    G.find? (G.omega k) = some k := by
  rw [find?_some_iff]
  exact ⟨rfl, fun k' hk' h => (ne_of_lt hk') (hinj h)⟩

end FRD

/-- `mapM` in `Except` succeeds with the mapped list when every element succeeds. -/
theorem mapM_except_ok {ε α β : Type*} (f : α → Except ε β) (g : α → β) :
    ∀ (l : List α), (∀ a ∈ l, f a = .ok (g a)) → l.mapM f = .ok (l.map g)
  | [], _ => rfl
  | a :: l, h => by
    have h1 := h a (by simp)
    have h2 := mapM_except_ok f g l (fun b hb => h b (by simp [hb]))
    simp [List.mapM_cons, h1, h2, bind, Except.bind, pure, Except.pure]

/-- `mapM` in `Except` fails with `e` when some element fails with `e` and all fail only
with `e`. -/
theorem mapM_except_error {ε α β : Type*} (f : α → Except ε β) (e : ε) :
    ∀ (l : List α), (∃ a ∈ l, f a = .error e) → (∀ a ∈ l, ∀ e', f a = .error e' → e' = e) →
      l.mapM f = .error e
  | [], h, _ => by simp at h
  | a :: l, h, hall => by
    rw [List.mapM_cons]
    cases hfa : f a with
    | error e' =>
      have := hall a (by simp) e' hfa
      subst this
      rfl
    | ok b =>
      have hl : ∃ a' ∈ l, f a' = .error e := by
        obtain ⟨a', ha', hf⟩ := h
        rcases List.mem_cons.mp ha' with rfl | hm
        · rw [hfa] at hf; cases hf
        · exact ⟨a', hm, hf⟩
      have ih := mapM_except_error f e l hl (fun b hb => hall b (by simp [hb]))
      simp [ih, bind, Except.bind]

end CtrlVerif
