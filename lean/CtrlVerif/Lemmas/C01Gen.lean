/-
Model-side decompositions used by `Props/C01Gen*.lean`: each run-time operator of
`Model/TFDyn.lean` written as "conversion / SISO promotion, then the shaped core", the way the
source text of control/xferfcn.py is laid out.  Only consequences of the model's definitions;
nothing here mentions a generated file.
-/
import CtrlVerif.Lemmas.PyTF
import CtrlVerif.Lemmas.TF
import Batteries.Data.List.Lemmas

namespace CtrlVerif.C01Gen
open CtrlVerif

variable {K : Type} [Field K] [DecidableEq K]

/-! ## `__add__` -/

/-- the SISO promotion step of `__add__`. -/
def addPromote (G H : DTF K) : Except Err (DTF K × DTF K) :=
  if G.isSiso = true ∧ ¬ H.isSiso = true then do
    let t ← DTF.onesTimes H.p H.m G
    pure (t, H)
  else if ¬ G.isSiso = true ∧ H.isSiso = true then do
    let t ← DTF.onesTimes G.p G.m H
    pure (G, t)
  else pure (G, H)

/-- `__add__` after promotion: shape checks, timebase, entrywise `_add_siso`, constructor. -/
def addShaped (G H : DTF K) : Except Err (DTF K) :=
  if hm : G.m = H.m then
    if hp : G.p = H.p then do
      let dt ← common G.dt H.dt
      let s ← TFM.add G.sys (TFM.cast hp.symm hm.symm H.sys)
      pure ⟨G.p, G.m, s, dt⟩
    else .error .shape
  else .error .shape

theorem addCore_eq (G H : DTF K) :
    DTF.addCore G H = (addPromote G H >>= fun r => addShaped r.1 r.2) := by
  unfold DTF.addCore addPromote addShaped
  cases hG : G.isSiso <;> cases hH : H.isSiso <;> simp

/-! ## `__mul__` / `__rmul__` -/

/-- the entry at `(r, c)`, `0/1` outside the shape (a total function for stating loop states). -/
def entryD (G : DTF K) (r c : Nat) : Frac K :=
  match PyTF.entry? G r c with
  | some e => e
  | none => Frac.zero

theorem entryD_lt (G : DTF K) {r c : Nat} (hr : r < G.p) (hc : c < G.m) :
    entryD G r c = G.sys.e ⟨r, hr⟩ ⟨c, hc⟩ := by
  simp [entryD, PyTF.entry?_lt G hr hc]

/-- the value of entry `(r, c)` of the product after `k` rounds of the accumulate loop. -/
def mulAcc (G H : DTF K) (r c k : Nat) : Frac K :=
  (List.range k).foldl (fun a k' => addSiso a (mulSiso (entryD G r k') (entryD H k' c))) Frac.zero

theorem mulAcc_zero (G H : DTF K) (r c : Nat) : mulAcc G H r c 0 = Frac.zero := rfl

theorem mulAcc_succ (G H : DTF K) (r c k : Nat) :
    mulAcc G H r c (k + 1) = addSiso (mulAcc G H r c k) (mulSiso (entryD G r k) (entryD H k c)) := by
  simp [mulAcc, List.range_succ, List.foldl_append]

/-- all rounds done: the model's `mulEntry`. -/
theorem mulAcc_full (G H : DTF K) (h : G.m = H.p) (i : Fin G.p) (j : Fin H.m) :
    mulAcc G H i j G.m
      = mulEntry (fun k => G.sys.e i k) (fun k => (TFM.cast h.symm rfl H.sys).e k j) := by
  unfold mulAcc mulEntry
  rw [← List.map_coe_finRange_eq_range, List.foldl_map]
  apply List.foldl_ext
  intro a k _
  rw [entryD_lt G i.isLt k.isLt, entryD_lt H (h ▸ k.isLt) j.isLt]
  rfl

/-- the SISO promotion step of `__mul__` (`bdalg.append` of copies on the diagonal). -/
def mulPromote (G H : DTF K) : Except Err (DTF K × DTF K) :=
  if G.isSiso = true ∧ ¬ H.isSiso = true then pure (G.diagOf H.p, H)
  else if ¬ G.isSiso = true ∧ H.isSiso = true then pure (G, H.diagOf G.m)
  else pure (G, H)

/-- `__mul__` after promotion: shape check, timebase, accumulate loop, constructor. -/
def mulShaped (G H : DTF K) : Except Err (DTF K) :=
  if h : G.m = H.p then do
    let dt ← common G.dt H.dt
    let s ← TFM.mul G.sys (TFM.cast h.symm rfl H.sys)
    pure ⟨G.p, H.m, s, dt⟩
  else .error .shape

theorem mulCore_def (G H : DTF K) :
    DTF.mulCore G H = mulShaped (if G.isSiso && !H.isSiso then G.diagOf H.p else G)
      (if !G.isSiso && H.isSiso then H.diagOf G.m else H) := rfl

theorem mulCore_eq (G H : DTF K) :
    DTF.mulCore G H = (mulPromote G H >>= fun r => mulShaped r.1 r.2) := by
  rw [mulCore_def]
  unfold mulPromote
  by_cases hG : G.isSiso = true <;> by_cases hH : H.isSiso = true <;>
    simp [hG, hH, pure, Except.pure, bind, Except.bind]

/-- the SISO promotion step of `__rmul__` (`other * self`; note the sizes). -/
def rmulPromote (self other : DTF K) : Except Err (DTF K × DTF K) :=
  if self.isSiso = true ∧ ¬ other.isSiso = true then pure (self.diagOf other.m, other)
  else if ¬ self.isSiso = true ∧ other.isSiso = true then pure (self, other.diagOf self.p)
  else pure (self, other)

/-- `__rmul__` after promotion (`common_timebase(self.dt, other.dt)`: `self` first). -/
def rmulShaped (self other : DTF K) : Except Err (DTF K) :=
  if h : other.m = self.p then do
    let dt ← common self.dt other.dt
    let s ← TFM.mul other.sys (TFM.cast h.symm rfl self.sys)
    pure ⟨other.p, self.m, s, dt⟩
  else .error .shape

theorem rmulCore_def (self other : DTF K) :
    DTF.rmulCore self other
      = rmulShaped (if self.isSiso && !other.isSiso then self.diagOf other.m else self)
          (if !self.isSiso && other.isSiso then other.diagOf self.p else other) := rfl

theorem rmulCore_eq (self other : DTF K) :
    DTF.rmulCore self other = (rmulPromote self other >>= fun r => rmulShaped r.1 r.2) := by
  rw [rmulCore_def]
  unfold rmulPromote
  by_cases hG : self.isSiso = true <;> by_cases hH : other.isSiso = true <;>
    simp [hG, hH, pure, Except.pure, bind, Except.bind]

/-! ## conversions, `TransferFunction([1], [1])`, SISO tests (`/`, `**`, `feedback`) -/

/-- `np.eye(n) * c`, converted, is the model's `ofScaledEye`. -/
theorem convert_scaledEye (n : Nat) (c : K) :
    PyTF.convert (PyTF.scaledEye (n : Int) c) 1 1 = .ok (DTF.ofScaledEye c n) := rfl

theorem convert_tf (G : DTF K) (a b : Int) : PyTF.convert (.tf G) a b = .ok G := rfl

theorem mkSiso_one_none : PyTF.mkSiso ([1] : List K) [1] none = .ok DTF.unity := by
  have h1 : (1 : K) ≠ 0 := one_ne_zero
  simp [PyTF.mkSiso, TFM.mk', isZero, Frac.norm, trim, h1, TFM.siso, Frac.one, bind, Except.bind,
    pure, Except.pure, DTF.unity]

theorem mkSiso_one_some (d : Dt) :
    PyTF.mkSiso ([1] : List K) [1] (some d) = .ok { (DTF.unity : DTF K) with dt := d } := by
  have h1 : (1 : K) ≠ 0 := one_ne_zero
  simp [PyTF.mkSiso, TFM.mk', isZero, Frac.norm, trim, h1, TFM.siso, Frac.one, bind, Except.bind,
    pure, Except.pure, DTF.unity]

theorem numArray_getItem_zero (G : DTF K) (hp : 0 < G.p) (hm : 0 < G.m) :
    (PyTF.numArray G).getItem 0 0 = .ok G.frac00.num := by
  have := PyTF.numArray_getItem G hp hm
  simpa [DTF.frac00, hp, hm] using this

theorem denArray_getItem_zero (G : DTF K) (hp : 0 < G.p) (hm : 0 < G.m) :
    (PyTF.denArray G).getItem 0 0 = .ok G.frac00.den := by
  have := PyTF.denArray_getItem G hp hm
  simpa [DTF.frac00, hp, hm] using this

theorem isSiso_iff (G : DTF K) : G.isSiso = true ↔ G.p = 1 ∧ G.m = 1 := by
  simp [DTF.isSiso]

theorem powNegNat_succ (G : DTF K) (k : Nat) :
    DTF.powNegNat G (k + 1) = (do let i ← DTF.recip G; let r ← DTF.powNegNat G k; DTF.mulCore i r) := rfl

/-- `TransferFunction([1], [1]) / g` in the model. -/
theorem truedivCore_unity (G : DTF K) : DTF.truedivCore DTF.unity G = DTF.recip G := by
  unfold DTF.truedivCore DTF.recip
  have e : (DTF.unity : DTF K).isSiso = true := rfl
  cases hs : G.isSiso <;> simp [e]

theorem not_siso_gt (G : DTF K) (hG : 0 < G.p ∧ 0 < G.m) (hs : ¬ G.isSiso = true) :
    1 < PyTF.ninputs G ∨ 1 < PyTF.noutputs G := by
  have : ¬ (G.p = 1 ∧ G.m = 1) := fun h => hs ((isSiso_iff G).mpr h)
  simp only [PyTF.ninputs, PyTF.noutputs]
  omega

theorem numArray_getItem_zero_empty (G : DTF K) (h : G.p = 0 ∨ G.m = 0) :
    (PyTF.numArray G).getItem 0 0 = .error .indexRange := by
  rcases h with h | h
  · exact PyTF.PolyArr.getItem_zero_row_empty _ h
  · exact PyTF.PolyArr.getItem_zero_col_empty _ h

theorem denArray_getItem_zero_empty (G : DTF K) (h : G.p = 0 ∨ G.m = 0) :
    (PyTF.denArray G).getItem 0 0 = .error .indexRange := by
  rcases h with h | h
  · exact PyTF.PolyArr.getItem_zero_row_empty _ h
  · exact PyTF.PolyArr.getItem_zero_col_empty _ h

/-- operands that are not empty arrays / systems (no empty transfer function exists). -/
def opNonempty : Operand K → Prop
  | .sys H => 0 < H.p ∧ 0 < H.m
  | .scalar _ => True
  | .array p m _ => 0 < p ∧ 0 < m

theorem frac00_wf (G : DTF K) (hs : G.isSiso = true) (hG : G.sys.WF) : G.frac00.WF := by
  obtain ⟨hp, hm⟩ := (isSiso_iff G).mp hs
  have h : 0 < G.p ∧ 0 < G.m := by omega
  simp only [DTF.frac00, dif_pos h]
  exact hG _ _

theorem siso_sem (f : Frac K) : (TFM.siso f).sem 0 0 = f.sem := by
  simp [TFM.sem, TFM.siso]

theorem siso_wf (f : Frac K) (h : f.WF) : (TFM.siso f).WF := fun _ _ => h

end CtrlVerif.C01Gen
