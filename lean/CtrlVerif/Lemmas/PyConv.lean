/-
Helper lemmas about the primitives of `Model/PyConv.lean` (not proof obligations): Python's list
comparison is the model's `lexGt`, nested `max`, the fill loop over `itertools.product`, the
constructor calls on the parts of a system.
-/
import CtrlVerif.Model.PyConv
import CtrlVerif.Lemmas.Convert
import CtrlVerif.Lemmas.PyMat

namespace CtrlVerif.PyConv

open CtrlVerif CtrlVerif.Convert

variable {K : Type} [Field K] [DecidableEq K]

@[simp] theorem ok_bind {α β : Type} (a : α) (f : α → Except Err β) :
    ((Except.ok a : Except Err α) >>= f) = f a := rfl

@[simp] theorem error_bind {α β : Type} (e : Err) (f : α → Except Err β) :
    ((Except.error e : Except Err α) >>= f) = Except.error e := rfl

@[simp] theorem throw_bind {α β : Type} (e : Err) (f : α → Except Err β) :
    ((throw e : Except Err α) >>= f) = Except.error e := rfl

theorem copyNames_ss (new : SSObj K) (μ : Meta) (ups : Bool) :
    SSObj.copyNames new μ (if ups = true then some "converted" else none)
      = .ok ⟨new.sys, ⟨if ups then μ.name ++ "$converted" else μ.name, μ.inputs, μ.outputs⟩⟩ := by
  cases ups <;> rfl

theorem copyNames_tf (new : TFObj K) (μ : Meta) :
    TFObj.copyNames new μ (some "converted")
      = .ok ⟨new.sys, ⟨μ.name ++ "$converted", μ.inputs, μ.outputs⟩⟩ := rfl

/-! ### list comparison -/

theorem listGt_natGt (a b : List Nat) : listGt natGt a b = lexGtNat a b := by
  induction a generalizing b with
  | nil => cases b <;> rfl
  | cons x xs ih =>
    cases b with
    | nil => rfl
    | cons y ys => simp only [listGt, lexGtNat, ih, natGt]

theorem listGt_listGt_natGt (a b : List (List Nat)) : listGt (listGt natGt) a b = lexGt a b := by
  induction a generalizing b with
  | nil => cases b <;> rfl
  | cons x xs ih =>
    cases b with
    | nil => rfl
    | cons y ys => simp only [listGt, lexGt, ih, listGt_natGt]

theorem nested_lens (x : TFObj K) (f : Frac K → List K) :
    ((TF.nested x f).map fun col => col.map fun c => List.length c) = lens x.sys f := by
  simp [TF.nested, lens, List.map_map, Function.comp_def]

/-! ### `max` -/

theorem le_foldl_max (l : List Nat) (b : Nat) : b ≤ l.foldl max b := by
  induction l generalizing b with
  | nil => exact le_refl _
  | cons a as ih => exact le_trans (le_max_left _ _) (ih _)

theorem mem_le_foldl_max (l : List Nat) (b a : Nat) (h : a ∈ l) : a ≤ l.foldl max b := by
  induction l generalizing b with
  | nil => cases h
  | cons c cs ih =>
    rcases List.mem_cons.1 h with rfl | h
    · exact le_trans (le_max_right _ _) (le_foldl_max _ _)
    · exact ih _ h

theorem foldl_max_le (l : List Nat) (b c : Nat) (hb : b ≤ c) (h : ∀ a ∈ l, a ≤ c) :
    l.foldl max b ≤ c := by
  induction l generalizing b with
  | nil => exact hb
  | cons a as ih =>
    exact ih _ (max_le hb (h a (List.mem_cons_self ..)))
      (fun x hx => h x (List.mem_cons_of_mem _ hx))

/-- `max` of a non-empty list of sizes that are all at least one is `1` iff all are `1`. -/
theorem maxNat_eq_one (l : List Nat) (hne : l ≠ []) (h1 : ∀ a ∈ l, 1 ≤ a) :
    ∃ M, maxNat l = .ok M ∧ 1 ≤ M ∧ (1 = M ↔ ∀ a ∈ l, a = 1) := by
  cases l with
  | nil => exact absurd rfl hne
  | cons a as =>
    refine ⟨as.foldl max a, rfl, le_trans (h1 a (List.mem_cons_self ..)) (le_foldl_max _ _), ?_⟩
    constructor
    · intro hM x hx
      have h2 : x ≤ 1 := by
        rw [hM]
        rcases List.mem_cons.1 hx with rfl | hx
        · exact le_foldl_max _ _
        · exact mem_le_foldl_max _ _ _ hx
      exact le_antisymm h2 (h1 x hx)
    · intro hall
      apply le_antisymm
      · exact le_trans (h1 a (List.mem_cons_self ..)) (le_foldl_max _ _)
      · exact foldl_max_le _ _ _ (le_of_eq (hall a (List.mem_cons_self ..)))
          (fun x hx => le_of_eq (hall x (List.mem_cons_of_mem _ hx)))

theorem mapM_ok {α β : Type} (l : List α) (f : α → Except Err β) (g : α → β)
    (h : ∀ a ∈ l, f a = .ok (g a)) : l.mapM f = .ok (l.map g) := by
  induction l with
  | nil => rfl
  | cons a as ih =>
    rw [List.mapM_cons, h a (List.mem_cons_self ..), ih (fun x hx => h x (List.mem_cons_of_mem _ hx))]
    rfl

/-- the nested `max(max(len(c) for c in row) for row in rows)` of a non-empty rectangular nested
list with no empty array is `1` iff every array has exactly one item. -/
theorem nestedMax_eq_one {α : Type} (xs : List (List α)) (f : α → Nat) (h0 : xs ≠ [])
    (h1 : ∀ r ∈ xs, r ≠ []) (h2 : ∀ r ∈ xs, ∀ a ∈ r, 1 ≤ f a) :
    ∃ L M, (xs.mapM fun r => maxNat (r.map f)) = .ok L ∧ maxNat L = .ok M ∧
      (1 = M ↔ ∀ r ∈ xs, ∀ a ∈ r, f a = 1) := by
  have hrow : ∀ r ∈ xs, ∃ M, maxNat (r.map f) = .ok M ∧ 1 ≤ M ∧ (1 = M ↔ ∀ a ∈ r, f a = 1) := by
    intro r hr
    obtain ⟨M, hM, h1M, hiff⟩ := maxNat_eq_one (r.map f) (by simpa using h1 r hr)
      (by intro a ha; obtain ⟨b, hb, rfl⟩ := List.mem_map.1 ha; exact h2 r hr b hb)
    refine ⟨M, hM, h1M, hiff.trans ?_⟩
    simp
  classical
  let g : List α → Nat := fun r => match maxNat (r.map f) with | .ok M => M | .error _ => 0
  have hg : ∀ r ∈ xs, maxNat (r.map f) = .ok (g r) := by
    intro r hr
    obtain ⟨M, hM, _⟩ := hrow r hr
    simp only [g, hM]
  have hgspec : ∀ r ∈ xs, 1 ≤ g r ∧ (1 = g r ↔ ∀ a ∈ r, f a = 1) := by
    intro r hr
    obtain ⟨M, hM, h1M, hiff⟩ := hrow r hr
    have : g r = M := by simp only [g, hM]
    rw [this]; exact ⟨h1M, hiff⟩
  obtain ⟨M, hM, _, hiff⟩ := maxNat_eq_one (xs.map g) (by simpa using h0)
    (by intro a ha; obtain ⟨r, hr, rfl⟩ := List.mem_map.1 ha; exact (hgspec r hr).1)
  refine ⟨xs.map g, M, mapM_ok xs _ g hg, hM, hiff.trans ?_⟩
  constructor
  · intro h r hr
    exact ((hgspec r hr).2).1 (h (g r) (List.mem_map_of_mem hr)).symm
  · intro h a ha
    obtain ⟨r, hr, rfl⟩ := List.mem_map.1 ha
    exact (((hgspec r hr).2).2 (h r hr)).symm

theorem allLenOne_iff (x : TFObj K) (f : Frac K → List K) :
    allLenOne x.sys f = true ↔ ∀ r ∈ TF.nested x f, ∀ a ∈ r, a.length = 1 := by
  simp [allLenOne, lens, TF.nested, List.all_eq_true]

theorem nested_ne_nil (x : TFObj K) (f : Frac K → List K) (hp : 0 < x.sys.p) : TF.nested x f ≠ [] := by
  intro h
  have := congrArg List.length h
  simp [TF.nested] at this
  omega

theorem nested_row_ne_nil (x : TFObj K) (f : Frac K → List K) (hm : 0 < x.sys.m) :
    ∀ r ∈ TF.nested x f, r ≠ [] := by
  intro r hr h
  simp only [TF.nested, List.mem_map] at hr
  obtain ⟨i, _, rfl⟩ := hr
  have := congrArg List.length h
  simp at this
  omega

theorem nested_forall (x : TFObj K) (f : Frac K → List K) (P : List K → Prop) :
    (∀ r ∈ TF.nested x f, ∀ a ∈ r, P a) ↔ ∀ i j, P (f (x.sys.sys.e i j)) := by
  simp [TF.nested]

/-! ### the fill loop -/

theorem mem_product {α β : Type} (xs : List α) (ys : List β) (a : α) (b : β) :
    (a, b) ∈ product xs ys ↔ a ∈ xs ∧ b ∈ ys := by
  simp [product]

/-- a loop over index pairs whose body assigns `f i j` to `D[i, j]` fills exactly these entries. -/
theorem foldlM_fill (r c : Nat) (l : List (Nat × Nat)) (f : Nat → Nat → K)
    (body : EArr K → Nat × Nat → Except Err (EArr K))
    (hl : ∀ ij ∈ l, ij.1 < r ∧ ij.2 < c)
    (hb : ∀ (D : EArr K) ij, ij ∈ l → D.r = r → D.c = c →
      body D ij = EArr.setItem D ij.1 ij.2 (f ij.1 ij.2))
    (D : EArr K) (hr : D.r = r) (hc : D.c = c) :
    List.foldlM body D l
      = .ok ⟨r, c, fun i j => if (i, j) ∈ l then some (f i j) else D.get i j⟩ := by
  induction l generalizing D with
  | nil => subst hr hc; simp [List.foldlM]; rfl
  | cons a as ih =>
    rw [List.foldlM_cons, hb D a (List.mem_cons_self ..) hr hc]
    have ha := hl a (List.mem_cons_self ..)
    simp only [EArr.setItem, hr, hc, ha.1, ha.2, and_self, if_true]
    rw [show (Except.ok (⟨r, c, fun i' j' => if i' = a.1 ∧ j' = a.2 then some (f a.1 a.2)
        else D.get i' j'⟩ : EArr K) >>= fun s' => List.foldlM body s' as)
      = List.foldlM body ⟨r, c, fun i' j' => if i' = a.1 ∧ j' = a.2 then some (f a.1 a.2)
        else D.get i' j'⟩ as from rfl]
    rw [ih (fun ij h => hl ij (List.mem_cons_of_mem _ h))
      (fun D ij h => hb D ij (List.mem_cons_of_mem _ h)) _ rfl rfl]
    congr 2
    funext i j
    by_cases h1 : (i, j) ∈ as
    · simp [h1]
    · by_cases h2 : (i, j) = a
      · subst h2; simp
      · have : ¬ (i = a.1 ∧ j = a.2) := fun h => h2 (Prod.ext h.1 h.2)
        simp [h1, h2, this]

theorem freeze_full (r c : Nat) (g : Nat → Nat → Option K) (f : Nat → Nat → K)
    (h : ∀ i j, i < r → j < c → g i j = some (f i j)) :
    EArr.freeze (⟨r, c, g⟩ : EArr K) = .ok ⟨r, c, Matrix.of fun i j => f i.val j.val⟩ := by
  unfold EArr.freeze
  have hall : ∀ (i : Fin r) (j : Fin c), (g i.val j.val).isSome = true := by
    intro i j; rw [h _ _ i.isLt j.isLt]; rfl
  rw [dif_pos hall]
  congr 2
  funext i j
  simp [h _ _ i.isLt j.isLt]

/-! ### fields -/

theorem entryAt_lt (x : TFObj K) (f : Frac K → List K) {i j : Nat} (hi : i < x.sys.p)
    (hj : j < x.sys.m) : TF.entryAt x f i j = .ok (f (x.sys.sys.e ⟨i, hi⟩ ⟨j, hj⟩)) := by
  simp [TF.entryAt, hi, hj]

theorem getNat_cons_zero {α : Type} (a : α) (as : List α) : getNat (a :: as) 0 = .ok a := rfl

/-- `squeeze(sys.num)` of a SISO system is the coefficient array of its entry. -/
theorem squeezeSiso_nested (sys : TFM (Fin 1) (Fin 1) K) (dt : Dt) (μ : Meta) (f : Frac K → List K) :
    squeezeSiso (TF.nested (⟨⟨1, 1, sys, dt⟩, μ⟩ : TFObj K) f) = .ok (f (sys.e 0 0)) := by
  simp [TF.nested, squeezeSiso, List.finRange_succ]

/-! ### constructors -/

theorem PySS_mk_parts (S : DSS K) (dt : Dt) :
    PySS.mk (PySS.A S) (PySS.B S) (PySS.C S) (PySS.D S) dt = .ok { S with dt := dt } := by
  obtain ⟨n, p, m, sys, d0⟩ := S
  unfold PySS.mk
  rw [dif_pos (by exact ⟨rfl, rfl, rfl, rfl, rfl⟩)]
  rfl

theorem tf2ssList_dt (num den : List K) (dt : Dt) :
    tf2ssList num den dt = (tf2ssList num den .none).map fun S => { S with dt := dt } := by
  unfold tf2ssList
  split
  · rfl
  · split <;> rfl

end CtrlVerif.PyConv

namespace CtrlVerif.PyConv

open CtrlVerif CtrlVerif.Convert

variable {K : Type} [Field K] [DecidableEq K]

/-! ### nested lists in tabulated form -/

/-- the `p × m` nested list with entry `g i j`. -/
def tab {α : Type} (p m : Nat) (g : Nat → Nat → α) : List (List α) :=
  (List.range p).map fun i => (List.range m).map fun j => g i j

theorem tab_congr {α : Type} (p m : Nat) (g g' : Nat → Nat → α)
    (h : ∀ i j, i < p → j < m → g i j = g' i j) : tab p m g = tab p m g' := by
  unfold tab
  apply List.map_congr_left
  intro i hi
  apply List.map_congr_left
  intro j hj
  exact h i j (List.mem_range.1 hi) (List.mem_range.1 hj)

theorem tab_get {α : Type} (p m : Nat) (g : Nat → Nat → α) {i j : Nat} (hi : i < p) (hj : j < m) :
    ((tab p m g)[i]?).bind (·[j]?) = some (g i j) := by
  simp [tab, hi, hj]

theorem tab_length {α : Type} (p m : Nat) (g : Nat → Nat → α) : (tab p m g).length = p := by
  simp [tab]

theorem tab_row_length {α : Type} (p m : Nat) (g : Nat → Nat → α) :
    ∀ r ∈ tab p m g, r.length = m := by
  intro r hr
  simp only [tab, List.mem_map] at hr
  obtain ⟨i, _, rfl⟩ := hr
  simp

theorem tab_headD_length {α : Type} (p m : Nat) (g : Nat → Nat → α) (hp : 0 < p) :
    ((tab p m g).headD []).length = m := by
  obtain ⟨q, rfl⟩ := Nat.exists_eq_succ_of_ne_zero (Nat.pos_iff_ne_zero.1 hp)
  simp [tab, List.range_succ_eq_map]

theorem frac?_tab (p m : Nat) (gn gd : Nat → Nat → List K) {i j : Nat} (hi : i < p) (hj : j < m) :
    frac? (tab p m gn) (tab p m gd) i j = some ⟨gn i j, gd i j⟩ := by
  unfold frac?
  rw [tab_get p m gn hi hj, tab_get p m gd hi hj]

/-- the constructor call on two tabulated nested lists is the model's constructor `TFM.mk'`. -/
theorem mkTF_tab (p m : Nat) (hp : 0 < p) (hm : 0 < m) (gn gd : Nat → Nat → List K) (dt : Dt) :
    mkTF (tab p m gn) (tab p m gd) (some dt)
      = (TFM.mk' (o := Fin p) (ι := Fin m) fun i j => ⟨gn i.val j.val, gd i.val j.val⟩).bind
          fun s => .ok ⟨⟨p, m, s, dt⟩, Meta.default p m⟩ := by
  have key : ∀ (num den : List (List (List K))) (p' m' : Nat) (e1 : p' = p) (e2 : m' = m)
      (hn : num = tab p m gn) (hd : den = tab p m gd)
      (h : ∀ (i : Fin p') (j : Fin m'), (frac? num den i.val j.val).isSome = true),
      (do
        let s ← TFM.mk' (o := Fin p') (ι := Fin m') fun i j => (frac? num den i.val j.val).get (h i j)
        pure (⟨⟨p', m', s, dt⟩, Meta.default p' m'⟩ : TFObj K))
      = (TFM.mk' (o := Fin p) (ι := Fin m) fun i j => ⟨gn i.val j.val, gd i.val j.val⟩).bind
          fun s => .ok ⟨⟨p, m, s, dt⟩, Meta.default p m⟩ := by
    intro num den p' m' e1 e2 hn hd h
    subst e1 e2 hn hd
    have : (fun (i : Fin p') (j : Fin m') => (frac? (tab p' m' gn) (tab p' m' gd) i.val j.val).get (h i j))
        = fun i j => ⟨gn i.val j.val, gd i.val j.val⟩ := by
      funext i j
      simp [frac?_tab p' m' gn gd i.isLt j.isLt]
    rw [this]
    rfl
  unfold mkTF
  have hc : 0 < (tab p m gn).length ∧ 0 < ((tab p m gn).headD []).length ∧
      (tab p m gd).length = (tab p m gn).length ∧
      (∀ r ∈ tab p m gn, r.length = ((tab p m gn).headD []).length) ∧
      (∀ r ∈ tab p m gd, r.length = ((tab p m gn).headD []).length) := by
    rw [tab_length, tab_length, tab_headD_length p m gn hp]
    exact ⟨hp, hm, rfl, tab_row_length p m gn, tab_row_length p m gd⟩
  simp only []
  rw [if_pos hc]
  have hall : ∀ (i : Fin (tab p m gn).length) (j : Fin ((tab p m gn).headD []).length),
      (frac? (tab p m gn) (tab p m gd) i.val j.val).isSome = true := by
    intro i j
    have hi : i.val < p := lt_of_lt_of_eq i.isLt (tab_length p m gn)
    have hj : j.val < m := lt_of_lt_of_eq j.isLt (tab_headD_length p m gn hp)
    rw [frac?_tab p m gn gd hi hj]; rfl
  rw [dif_pos hall]
  exact key _ _ _ _ (tab_length p m gn) (tab_headD_length p m gn hp) rfl rfl hall

/-- `mkTF` without a timebase argument on tabulated lists whose arrays all have one item. -/
theorem mkTF_tab_static (p m : Nat) (hp : 0 < p) (hm : 0 < m) (gn gd : Nat → Nat → K) :
    mkTF (tab p m fun i j => [gn i j]) (tab p m fun i j => [gd i j]) none
      = (TFM.mk' (o := Fin p) (ι := Fin m) fun i j => ⟨[gn i.val j.val], [gd i.val j.val]⟩).bind
          fun s => .ok ⟨⟨p, m, s, .none⟩, Meta.default p m⟩ := by
  have h1 := mkTF_tab p m hp hm (fun i j => [gn i j]) (fun i j => [gd i j]) .none
  rw [← h1]
  unfold mkTF
  have hs : ∀ g : Nat → Nat → K, ((tab p m fun i j => [g i j]).all fun r => r.all fun c =>
      decide (c.length ≤ 1)) = true := by
    intro g
    simp [tab, List.all_eq_true]
  simp only [hs, Bool.and_self, if_true]

theorem matGet_lt (X : PMat K) {i j : Nat} (hi : i < X.r) (hj : j < X.c) :
    matGet X i j = .ok (X.M ⟨i, hi⟩ ⟨j, hj⟩) := by
  simp [matGet, hi, hj]

/-- the entries of a 2-D array, by position (`0` outside: never read). -/
def ent (X : PMat K) (i j : Nat) : K := if h : i < X.r ∧ j < X.c then X.M ⟨i, h.1⟩ ⟨j, h.2⟩ else 0

theorem mapM_matGet (X : PMat K) :
    ((List.range X.r).mapM fun i => ((List.range X.c).mapM fun j =>
      (matGet X i j >>= fun t => pure [t] : Except Err (List K)) : Except Err (List (List K))))
      = .ok (tab X.r X.c fun i j => [ent X i j]) := by
  unfold tab
  apply mapM_ok
  intro i hi
  apply mapM_ok
  intro j hj
  have hi' := List.mem_range.1 hi
  have hj' := List.mem_range.1 hj
  rw [matGet_lt X hi' hj']
  simp [ent, hi', hj']

/-! ### loops over `range` with a known state -/

theorem foldlM_range_state {σ : Type} (n : Nat) (body : σ → Nat → Except Err σ) (F : Nat → σ)
    (h : ∀ k, k < n → body (F k) k = .ok (F (k + 1))) :
    List.foldlM body (F 0) (List.range n) = .ok (F n) := by
  induction n with
  | zero => rfl
  | succ n ih =>
    rw [List.range_succ, List.foldlM_append, ih (fun k hk => h k (Nat.lt_succ_of_lt hk))]
    simp only [ok_bind, List.foldlM_cons, List.foldlM_nil, h n (Nat.lt_succ_self n)]
    rfl

theorem set2_tab {α : Type} (p m : Nat) (g : Nat → Nat → α) {i j : Nat} (hi : i < p) (hj : j < m)
    (v : α) :
    set2 (tab p m g) i j v = .ok (tab p m fun i' j' => if i' = i ∧ j' = j then v else g i' j') := by
  unfold set2
  have hrow : (tab p m g)[i]? = some ((List.range m).map fun j' => g i j') := by
    simp [tab, hi]
  rw [hrow]
  simp only [List.length_map, List.length_range, hj, if_true]
  congr 1
  apply List.ext_getElem?
  intro a
  by_cases ha : a < p
  · by_cases hai : a = i
    · subst hai
      simp only [tab, List.getElem?_set, List.length_map, List.length_range, ha, if_true,
        List.getElem?_map, List.getElem?_range ha, Option.map_some]
      congr 1
      apply List.ext_getElem?
      intro b
      by_cases hb : b < m
      · by_cases hbj : b = j
        · subst hbj; simp [hb]
        · simp [List.getElem?_set, hb, hbj, Ne.symm hbj]
      · simp [List.getElem?_set, hb, not_lt.1 hb]
    · simp [tab, List.getElem?_set, ha, hai, Ne.symm hai]
  · simp [tab, List.getElem?_set, ha, not_lt.1 ha]

theorem getNat_map_finRange {α : Type} (p : Nat) (f : Fin p → α) {i : Nat} (hi : i < p) :
    getNat ((List.finRange p).map f) i = .ok (f ⟨i, hi⟩) := by
  unfold getNat
  simp [hi]

end CtrlVerif.PyConv
