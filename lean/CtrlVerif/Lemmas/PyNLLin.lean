/-
Helper lemmas for the source-text tie of `NonlinearIOSystem.linearize` (Props/C08GenLin.lean):
arrays filled column by column, the perturbed point, loops over `range`.  Free to change.
-/
import CtrlVerif.Lemmas.PyNL
import CtrlVerif.Lemmas.IOSys

namespace CtrlVerif.PyNL

open CtrlVerif

variable {K : Type} [Field K]

/-- a typed matrix as the column-wise array of the generated code. -/
def colsOf {r c : Nat} (M : Matrix (Fin r) (Fin c) K) : CMat K :=
  ⟨r, List.ofFn fun j => List.ofFn fun i => M i j⟩

/-- the columns `0 … k-1` filled with `col`, the others still zero. -/
def partialCols (r c k : Nat) (col : Fin c → Fin r → K) : List (List K) :=
  List.ofFn fun j : Fin c => if j.val < k then List.ofFn (col j) else List.replicate r 0

theorem partialCols_zero (r c : Nat) (col : Fin c → Fin r → K) :
    partialCols r c 0 col = List.replicate c (List.replicate r 0) := by
  unfold partialCols
  apply List.ext_getElem <;> simp

theorem partialCols_full (r c : Nat) (col : Fin c → Fin r → K) :
    partialCols r c c col = List.ofFn fun j => List.ofFn (col j) := by
  unfold partialCols
  congr 1
  funext j
  simp [j.isLt]

theorem partialCols_length (r c k : Nat) (col : Fin c → Fin r → K) : (partialCols r c k col).length = c := by
  simp [partialCols]

theorem partialCols_set (r c k : Nat) (hk : k < c) (col : Fin c → Fin r → K) :
    (partialCols r c k col).set k (List.ofFn (col ⟨k, hk⟩)) = partialCols r c (k + 1) col := by
  unfold partialCols
  apply List.ext_getElem
  · simp
  · intro i h1 h2
    simp only [List.length_set, List.length_ofFn] at h1
    simp only [List.getElem_set, List.getElem_ofFn]
    by_cases hik : k = i
    · subst hik; simp
    · have : (i < k + 1) ↔ (i < k) := by omega
      simp [hik, this]

theorem zeros_eq (r c : Nat) : (CMat.zeros (K := K) (r : Int) (c : Int)) = ⟨r, List.replicate c (List.replicate r 0)⟩ := by
  simp [CMat.zeros]

theorem setItem_natCast {α : Type} (xs : List α) (j : Nat) (h : j < xs.length) (v : α) :
    PyArith.setItem xs (j : Int) v = .ok (xs.set j v) := by
  unfold PyArith.setItem PyArith.normIdx
  have h' : (0 : Int) ≤ (j : Int) ∧ (j : Int) < (xs.length : Int) := ⟨by omega, by omega⟩
  rw [if_pos h']
  simp

theorem setCol_natCast (r : Nat) (cols : List (List K)) (j : Nat) (h : j < cols.length) (v : List K)
    (hv : v.length = r) :
    CMat.setCol (⟨r, cols⟩ : CMat K) (j : Int) v = .ok ⟨r, cols.set j v⟩ := by
  unfold CMat.setCol
  simp only [hv, if_true, setItem_natCast cols j h]

/-- `dx = zeros; dx[j] = eps`. -/
theorem setItem_vzeros {n : Nat} (j : Fin n) (eps : K) :
    PyArith.setItem (vzeros (K := K) (n : Int)) ((j.val : Nat) : Int) eps
      = .ok ((List.replicate n (0 : K)).set j.val eps) := by
  have hz : vzeros (K := K) (n : Int) = List.replicate n 0 := by simp [vzeros]
  rw [hz, setItem_natCast _ _ (by simp)]

/-- `x0 + dx`. -/
theorem vadd_perturb {n : Nat} (x0 : Fin n → K) (j : Fin n) (eps : K) :
    vadd (List.ofFn x0) ((List.replicate n (0 : K)).set j.val eps)
      = .ok (List.ofFn (x0 + Pi.single j eps)) := by
  simp only [vadd, List.length_ofFn, List.length_set, List.length_replicate, if_true]
  congr 1
  apply List.ext_getElem
  · simp
  · intro i h1 h2
    simp only [List.length_ofFn] at h2
    simp only [List.getElem_zipWith, List.getElem_ofFn, List.getElem_set, List.getElem_replicate,
      Pi.add_apply]
    by_cases hij : j.val = i
    · have : j = ⟨i, h2⟩ := Fin.ext hij
      subst this
      simp
    · have : j ≠ ⟨i, h2⟩ := fun h => hij (by rw [h])
      simp [hij, Pi.single_apply, Ne.symm this]

/-! ### `seqFin` -/

theorem seqFin_ok_iff {α : Type*} : ∀ {n : Nat} (g : Fin n → Except Err α) (v : Fin n → α),
    IOSys.seqFin g = .ok v ↔ ∀ i, g i = .ok (v i) := by
  intro n
  induction n with
  | zero =>
    intro g v
    constructor
    · intro _ i; exact i.elim0
    · intro _; simp only [IOSys.seqFin]; congr 1; funext i; exact i.elim0
  | succ n ih =>
    intro g v
    constructor
    · intro h
      simp only [IOSys.seqFin] at h
      cases h0 : g 0 with
      | error e => simp [h0] at h
      | ok a =>
        cases hr : IOSys.seqFin (fun i => g i.succ) with
        | error e => simp [h0, hr] at h
        | ok r =>
          simp only [h0, hr, Except.ok.injEq] at h
          have hr' := (ih (fun i => g i.succ) r).mp hr
          intro i
          refine Fin.cases ?_ ?_ i
          · rw [h0, ← h]; simp
          · intro i; rw [hr' i, ← h]; simp
    · exact IOSys.seqFin_ok g v

theorem seqFin_isOk {α : Type*} : ∀ {n : Nat} (g : Fin n → Except Err α),
    (∀ i, ∃ a, g i = .ok a) → ∃ v, IOSys.seqFin g = .ok v := by
  intro n
  induction n with
  | zero => intro g _; exact ⟨Fin.elim0, rfl⟩
  | succ n ih =>
    intro g h
    obtain ⟨a, ha⟩ := h 0
    obtain ⟨r, hr⟩ := ih (fun i => g i.succ) (fun i => h i.succ)
    exact ⟨Fin.cons a r, by simp only [IOSys.seqFin, ha, hr]⟩

/-! ### a loop over `range(c)` that fills two arrays column by column -/

theorem range_zero (c : Nat) : PyArith.range 0 (c : Int) = (List.range c).map (fun i : Nat => (i : Int)) := by
  unfold PyArith.range
  simp

section fill
variable {r1 r2 c : Nat}
variable (ga : Fin c → Except Err (Fin r1 → K)) (gc : Fin c → Except Err (Fin r2 → K))
variable (body : CMat K × CMat K → Int → Except Err (CMat K × CMat K))

/-- the step specification of the loop body. -/
def FillSpec : Prop :=
  ∀ (Ac Cc : List (List K)) (j : Fin c), Ac.length = c → Cc.length = c →
    body (⟨r1, Ac⟩, ⟨r2, Cc⟩) ((j.val : Nat) : Int) =
      match ga j with
      | .error e => .error e
      | .ok a =>
        match gc j with
        | .error e => .error e
        | .ok cc => .ok (⟨r1, Ac.set j (List.ofFn a)⟩, ⟨r2, Cc.set j (List.ofFn cc)⟩)

theorem fill_prefix_ok (hb : FillSpec ga gc body) (a : Fin c → Fin r1 → K) (cc : Fin c → Fin r2 → K) :
    ∀ k, k ≤ c → (∀ j : Fin c, j.val < k → ga j = .ok (a j) ∧ gc j = .ok (cc j)) →
      List.foldlM body (⟨r1, partialCols r1 c 0 a⟩, ⟨r2, partialCols r2 c 0 cc⟩)
        ((List.range k).map (fun i : Nat => (i : Int)))
      = .ok (⟨r1, partialCols r1 c k a⟩, ⟨r2, partialCols r2 c k cc⟩) := by
  intro k
  induction k with
  | zero => intro _ _; simp [pure, Except.pure]
  | succ k ih =>
    intro hk hok
    have ih' := ih (by omega) (fun j hj => hok j (by omega))
    rw [List.range_succ, List.map_append, List.foldlM_append, ih']
    simp only [List.map_cons, List.map_nil, List.foldlM_cons, List.foldlM_nil, bind, Except.bind]
    have hkc : k < c := by omega
    have hs := hb (partialCols r1 c k a) (partialCols r2 c k cc) ⟨k, hkc⟩
      (partialCols_length _ _ _ _) (partialCols_length _ _ _ _)
    obtain ⟨h1, h2⟩ := hok ⟨k, hkc⟩ (by simp)
    rw [h1, h2] at hs
    simp only at hs
    rw [hs]
    simp only [partialCols_set, pure, Except.pure]

theorem fill_prefix_inv (hb : FillSpec ga gc body) (Ac0 Cc0 : List (List K)) (h1 : Ac0.length = c)
    (h2 : Cc0.length = c) :
    ∀ k, k ≤ c → ∀ s, List.foldlM body (⟨r1, Ac0⟩, ⟨r2, Cc0⟩) ((List.range k).map (fun i : Nat => (i : Int))) = .ok s →
      (∀ j : Fin c, j.val < k → (∃ a, ga j = .ok a) ∧ (∃ cc, gc j = .ok cc)) ∧
      s.1.r = r1 ∧ s.1.cols.length = c ∧ s.2.r = r2 ∧ s.2.cols.length = c := by
  intro k
  induction k with
  | zero =>
    intro _ s hs
    simp only [List.range_zero, List.map_nil, List.foldlM_nil, pure, Except.pure, Except.ok.injEq] at hs
    subst hs
    exact ⟨fun j hj => absurd hj (by omega), rfl, h1, rfl, h2⟩
  | succ k ih =>
    intro hk s hs
    rw [List.range_succ, List.map_append, List.foldlM_append] at hs
    cases hp : List.foldlM body (⟨r1, Ac0⟩, ⟨r2, Cc0⟩) ((List.range k).map (fun i : Nat => (i : Int))) with
    | error e => simp [hp, bind, Except.bind] at hs
    | ok s' =>
      obtain ⟨hall, e1, e2, e3, e4⟩ := ih (by omega) s' hp
      simp only [hp, bind, Except.bind, List.map_cons, List.map_nil, List.foldlM_cons, List.foldlM_nil] at hs
      obtain ⟨⟨ra, Ac⟩, ⟨rc, Cc⟩⟩ := s'
      simp only at e1 e2 e3 e4
      subst e1 e3
      have hkc : k < c := by omega
      have hsp := hb Ac Cc ⟨k, hkc⟩ e2 e4
      simp only at hsp
      rw [hsp] at hs
      cases hga : ga ⟨k, hkc⟩ with
      | error e => simp [hga] at hs
      | ok av =>
        cases hgc : gc ⟨k, hkc⟩ with
        | error e => simp [hga, hgc] at hs
        | ok cv =>
          simp only [hga, hgc, pure, Except.pure] at hs
          cases hs' : (Except.ok (⟨ra, Ac.set k (List.ofFn av)⟩, ⟨rc, Cc.set k (List.ofFn cv)⟩) :
              Except Err (CMat K × CMat K)) with
          | error e => simp at hs'
          | ok s2 =>
            have : s = (⟨ra, Ac.set k (List.ofFn av)⟩, ⟨rc, Cc.set k (List.ofFn cv)⟩) := by
              simpa using hs.symm
            subst this
            refine ⟨?_, rfl, by simp [e2], rfl, by simp [e4]⟩
            intro j hj
            by_cases hjk : j.val < k
            · exact hall j hjk
            · have hjv : j.val = k := by omega
              have : j = ⟨k, hkc⟩ := Fin.ext hjv
              subst this
              exact ⟨⟨av, hga⟩, ⟨cv, hgc⟩⟩

end fill

end CtrlVerif.PyNL
