/-
Lemmas for `Props/C20Cert.lean`: the code-following construction of `Model/Flat.lean` always
passes its certificate on reachable pairs.

* Jacobi's formula for the characteristic matrix (`derivative_charpoly`),
* the Faddeev–LeVerrier recursion computes the coefficients of the characteristic polynomial
  (`charCoeff_eq`, characteristic zero),
* `untab (tab M) = M`, the specification of `invCert`,
* the row-flipped `Wrz Wrx⁻¹` satisfies the chain-of-integrators equations,
* Hermite interpolation: the stacked boundary matrix of the polynomial basis has full row rank.
-/
import CtrlVerif.Lemmas.Flat
import CtrlVerif.Lemmas.FlatBasis
import CtrlVerif.Lemmas.FlatBrunovsky
import CtrlVerif.Lemmas.Canonical
import Mathlib.LinearAlgebra.Matrix.Adjugate
import Mathlib.LinearAlgebra.Matrix.Charpoly.Basic
import Mathlib.LinearAlgebra.Matrix.Charpoly.Coeff
import Mathlib.Algebra.Polynomial.Derivative
import Mathlib.Algebra.Polynomial.Taylor
import Mathlib.Algebra.Polynomial.HasseDeriv
import Mathlib.Algebra.Polynomial.Degree.Support
import Mathlib.LinearAlgebra.Matrix.Rank
import Mathlib.Algebra.Polynomial.Roots
import Mathlib.Algebra.CharZero.Infinite
import Mathlib.LinearAlgebra.Matrix.ToLin
import Mathlib.Tactic.Ring
import Mathlib.Tactic.LinearCombination
import Mathlib.Tactic.FieldSimp

namespace CtrlVerif

open Matrix Polynomial Finset

/-! ### Jacobi's formula -/

section jacobi

variable {m : Type*} [Fintype m] [DecidableEq m] {R : Type*} [CommRing R]

/-- the derivative of a determinant of polynomials is the sum of the determinants with one
column differentiated. -/
theorem derivative_det_eq_sum_updateCol (M : Matrix m m R[X]) :
    derivative M.det = ∑ i, (M.updateCol i fun k => derivative (M k i)).det := by
  simp only [det_apply', map_sum]
  rw [Finset.sum_comm]
  refine Finset.sum_congr rfl fun σ _ => ?_
  rw [derivative_intCast_mul, derivative_prod_finset, Finset.mul_sum]
  refine Finset.sum_congr rfl fun i _ => ?_
  congr 1
  rw [← Finset.prod_erase_mul _ _ (Finset.mem_univ i)]
  congr 1
  · refine Finset.prod_congr rfl fun j hj => ?_
    rw [updateCol_ne (Finset.ne_of_mem_erase hj)]
  · rw [updateCol_self]

/-- Jacobi's formula: `(det M)' = tr (adj M · M')`. -/
theorem derivative_det_eq_trace (M : Matrix m m R[X]) :
    derivative M.det = (adjugate M * M.map (derivative (R := R))).trace := by
  rw [derivative_det_eq_sum_updateCol, trace]
  refine Finset.sum_congr rfl fun i _ => ?_
  rw [← cramer_apply, cramer_eq_adjugate_mulVec, diag_apply, mul_apply]
  rfl

theorem derivative_charmatrix (A : Matrix m m R) :
    (charmatrix A).map (derivative (R := R)) = 1 := by
  ext i j
  by_cases h : i = j
  · subst h; simp [charmatrix_apply]
  · simp [charmatrix_apply, h]

/-- the derivative of the characteristic polynomial is the trace of the adjugate of the
characteristic matrix. -/
theorem derivative_charpoly (A : Matrix m m R) :
    derivative A.charpoly = (adjugate (charmatrix A)).trace := by
  rw [charpoly, derivative_det_eq_trace, derivative_charmatrix, mul_one]

end jacobi

/-! ### the coefficient matrices of `adj (X - A)` -/

section fl

variable {K : Type} [Field K] [DecidableEq K] {n : Nat} (A : Matrix (Fin n) (Fin n) K)

/-- coefficient `j` of the adjugate of the characteristic matrix. -/
noncomputable def adjCoeff (j : Nat) : Matrix (Fin n) (Fin n) K :=
  fun i l => (adjugate (charmatrix A) i l).coeff j

theorem charmatrix_mul_adjugate_apply (i l : Fin n) :
    X * adjugate (charmatrix A) i l - ∑ k, C (A i k) * adjugate (charmatrix A) k l
      = if i = l then A.charpoly else 0 := by
  have h := congrFun (congrFun (mul_adjugate (charmatrix A)) i) l
  rw [mul_apply] at h
  simp only [charmatrix_apply, sub_mul, Finset.sum_sub_distrib, diagonal_apply, ite_mul, zero_mul,
    Finset.sum_ite_eq, Finset.mem_univ, if_true] at h
  rw [h, Matrix.smul_apply, Matrix.one_apply, charpoly]
  split <;> simp

/-- `N_j = A N_{j+1} + c_{j+1} I`. -/
theorem adjCoeff_rec (j : Nat) :
    adjCoeff A j = A * adjCoeff A (j + 1) + A.charpoly.coeff (j + 1) • 1 := by
  ext i l
  have h := congrArg (fun p => p.coeff (j + 1)) (charmatrix_mul_adjugate_apply A i l)
  simp only [coeff_sub, coeff_X_mul, finsetSum_coeff, coeff_C_mul] at h
  simp only [Matrix.add_apply, Matrix.mul_apply, Matrix.smul_apply, Matrix.one_apply, smul_eq_mul, adjCoeff]
  rw [sub_eq_iff_eq_add] at h
  rw [h]
  split <;> simp [add_comm]

/-- `0 = A N_0 + c_0 I`. -/
theorem adjCoeff_zero_rec : A * adjCoeff A 0 + A.charpoly.coeff 0 • 1 = 0 := by
  ext i l
  have h := congrArg (fun p => p.coeff 0) (charmatrix_mul_adjugate_apply A i l)
  simp only [coeff_sub, coeff_X_mul_zero, finsetSum_coeff, coeff_C_mul, zero_sub] at h
  simp only [Matrix.add_apply, Matrix.mul_apply, Matrix.smul_apply, Matrix.one_apply, smul_eq_mul, adjCoeff, Matrix.zero_apply]
  rw [neg_eq_iff_eq_neg] at h
  rw [h]
  split <;> simp

theorem adjCoeff_eventually_zero : ∃ D, ∀ j, D ≤ j → adjCoeff A j = 0 := by
  refine ⟨(univ.sup fun i : Fin n => univ.sup fun l : Fin n =>
    (adjugate (charmatrix A) i l).natDegree) + 1, fun j hj => ?_⟩
  ext i l
  apply coeff_eq_zero_of_natDegree_lt
  have h1 : (adjugate (charmatrix A) i l).natDegree
      ≤ univ.sup fun l : Fin n => (adjugate (charmatrix A) i l).natDegree :=
    Finset.le_sup (f := fun l : Fin n => (adjugate (charmatrix A) i l).natDegree) (mem_univ l)
  have h2 := Finset.le_sup (f := fun i : Fin n => univ.sup fun l : Fin n =>
    (adjugate (charmatrix A) i l).natDegree) (mem_univ i)
  have h3 : (adjugate (charmatrix A) i l).natDegree ≤ univ.sup fun i : Fin n =>
      univ.sup fun l : Fin n => (adjugate (charmatrix A) i l).natDegree := le_trans h1 h2
  omega

theorem charpoly_coeff_eq_zero_of_lt {j : Nat} (h : n < j) : A.charpoly.coeff j = 0 := by
  apply coeff_eq_zero_of_natDegree_lt
  rw [charpoly_natDegree_eq_dim, Fintype.card_fin]
  exact h

theorem charpoly_coeff_card : A.charpoly.coeff n = 1 := by
  have := (charpoly_monic A).coeff_natDegree
  rwa [charpoly_natDegree_eq_dim, Fintype.card_fin] at this

/-- `N_j = 0` for `j ≥ n`. -/
theorem adjCoeff_eq_zero {j : Nat} (h : n ≤ j) : adjCoeff A j = 0 := by
  obtain ⟨D, hD⟩ := adjCoeff_eventually_zero A
  -- downward induction from `D`
  have key : ∀ d j, n ≤ j → D ≤ j + d → adjCoeff A j = 0 := by
    intro d
    induction d with
    | zero => intro j _ hj; exact hD j hj
    | succ d ih =>
      intro j hn hj
      rw [adjCoeff_rec, ih (j + 1) (by omega) (by omega),
        charpoly_coeff_eq_zero_of_lt A (by omega : n < j + 1)]
      simp
  exact key D j h (by omega)

/-- `tr N_j = (j+1) c_{j+1}` (Jacobi's formula, coefficient by coefficient). -/
theorem trace_adjCoeff (j : Nat) :
    (adjCoeff A j).trace = ((j : K) + 1) * A.charpoly.coeff (j + 1) := by
  have h := congrArg (fun p => p.coeff j) (derivative_charpoly A)
  simp only [coeff_derivative, trace, finsetSum_coeff, diag_apply] at h
  simp only [trace, diag_apply, adjCoeff]
  rw [← h]
  ring

/-- `tr (A N_j) = (j - n) c_j`. -/
theorem trace_mul_adjCoeff (j : Nat) :
    (A * adjCoeff A j).trace = ((j : K) - (n : K)) * A.charpoly.coeff j := by
  cases j with
  | zero =>
    have h := congrArg Matrix.trace (adjCoeff_zero_rec A)
    rw [trace_add, trace_smul, trace_one, Fintype.card_fin, trace_zero, smul_eq_mul] at h
    push_cast
    linear_combination h
  | succ j =>
    have h := congrArg Matrix.trace (adjCoeff_rec A j)
    rw [trace_add, trace_smul, trace_one, Fintype.card_fin, smul_eq_mul, trace_adjCoeff] at h
    push_cast
    linear_combination -h

end fl

/-! ### tabulation is the identity -/

section tabs

variable {K : Type} [Field K] [DecidableEq K]

@[simp] theorem untab_tab {p m : Nat} (M : Matrix (Fin p) (Fin m) K) : untab (tab M) = M := by
  ext i j
  simp [untab, tab]

/-- the same for a matrix given as a bare function (the row flip in `construct`). -/
theorem untab_tab' {p m : Nat} (M : Fin p → Fin m → K) :
    (untab (tab (M : Matrix (Fin p) (Fin m) K)) : Matrix (Fin p) (Fin m) K) = M :=
  untab_tab M

@[simp] theorem untabV_tabV {p : Nat} (v : Fin p → K) : untabV (tabV v) = v := by
  funext i
  simp [untabV, tabV]

end tabs

/-! ### Faddeev–LeVerrier -/

section fl2

variable {K : Type} [Field K] [DecidableEq K] {n : Nat} (A : Matrix (Fin n) (Fin n) K)

theorem flStep_eq (k : Nat) (M : Matrix (Fin n) (Fin n) K) (a : K) :
    flStep A k (M, a) = (A * M + a • 1, -(A * (A * M + a • 1)).trace / ((k : K) + 1)) := by
  simp [flStep]

/-- after `k ≤ n` steps the Faddeev–LeVerrier iteration holds the coefficient matrix `N_{n-k}` of
`adj (X - A)` and the coefficient `c_{n-k}` of the characteristic polynomial. -/
theorem flIter_eq [CharZero K] : ∀ k, k ≤ n →
    flIter A k = (adjCoeff A (n - k), A.charpoly.coeff (n - k))
  | 0, _ => by
    simp [flIter, adjCoeff_eq_zero A (le_refl n), charpoly_coeff_card A]
  | k + 1, hk => by
    have ih := flIter_eq k (Nat.le_of_succ_le hk)
    have e : n - k = (n - (k + 1)) + 1 := by omega
    rw [flIter, ih, flStep_eq, e, ← adjCoeff_rec, trace_mul_adjCoeff]
    have hk1 : ((k : K) + 1) ≠ 0 := Nat.cast_add_one_ne_zero k
    have hc : ((n - (k + 1) : Nat) : K) - (n : K) = -((k : K) + 1) := by
      rw [Nat.cast_sub hk]
      push_cast
      ring
    rw [hc]
    congr 1
    field_simp

/-- `numpy.poly(A)[k]` (exact: Faddeev–LeVerrier) is the coefficient of `X^(n-k)` of the
characteristic polynomial. -/
theorem charCoeff_eq [CharZero K] (k : Nat) (hk : k ≤ n) :
    charCoeff A k = A.charpoly.coeff (n - k) := by
  rw [charCoeff, flIter_eq A k hk]

theorem charCoeff_zero : charCoeff A 0 = 1 := rfl

/-- the partial Horner sums of the computed coefficients are the coefficient matrices of the
adjugate. -/
theorem hornerMat_charCoeff [CharZero K] : ∀ k, k < n →
    SS.hornerMat A (charCoeff A) k = adjCoeff A (n - 1 - k)
  | 0, hk => by
    have e : n - 1 - 0 = n - 1 := rfl
    rw [SS.hornerMat, charCoeff_zero, adjCoeff_rec, (by omega : n - 1 - 0 + 1 = n),
      adjCoeff_eq_zero A (le_refl n), charpoly_coeff_card]
    simp
  | k + 1, hk => by
    rw [SS.hornerMat, hornerMat_charCoeff k (by omega), charCoeff_eq A (k + 1) (by omega),
      adjCoeff_rec A (n - 1 - (k + 1)), (by omega : n - 1 - (k + 1) + 1 = n - 1 - k),
      (by omega : n - (k + 1) = n - 1 - k)]

/-- Cayley–Hamilton for the computed coefficients: `a₀ Aⁿ + a₁ Aⁿ⁻¹ + … + a_n = 0`. -/
theorem hornerMat_charCoeff_card [CharZero K] : SS.hornerMat A (charCoeff A) n = 0 := by
  cases n with
  | zero => exact Subsingleton.elim _ _
  | succ k =>
    rw [SS.hornerMat, hornerMat_charCoeff A k (by omega), charCoeff_eq A (k + 1) (le_refl _)]
    simpa using adjCoeff_zero_rec A

end fl2

/-! ### the certified inverse -/

section inv

variable {K : Type} [Field K] [DecidableEq K] {n : Nat}

theorem det_ne_zero_of_mul_eq_one (F X : Matrix (Fin n) (Fin n) K) (h : F * X = 1) :
    F.det ≠ 0 := by
  intro hdet
  have := congrArg Matrix.det h
  rw [Matrix.det_mul, hdet, zero_mul, Matrix.det_one] at this
  exact zero_ne_one this

/-- whatever `invCert` returns is a right (hence two-sided) inverse. -/
theorem invCert_spec {F X : Matrix (Fin n) (Fin n) K} (h : invCert F = .ok X) : F * X = 1 := by
  unfold invCert at h
  simp only at h
  split at h
  · rename_i hFX
    injection h with h
    subst h
    exact hFX
  · split at h
    · exact absurd h (by simp)
    · rename_i hdet
      injection h with h
      subst h
      rw [untab_tab]
      unfold SS.invQ
      rw [Matrix.mul_smul, Matrix.mul_adjugate, smul_smul, inv_mul_cancel₀ hdet, one_smul]

/-- `invCert` raises (`LinAlgError` / "not controllable") exactly on singular matrices. -/
theorem invCert_singular {F : Matrix (Fin n) (Fin n) K} (h : F.det = 0) :
    invCert F = .error .illPosed := by
  unfold invCert
  simp only
  rw [if_neg (fun hFX => det_ne_zero_of_mul_eq_one F _ hFX h), if_pos h]

/-- `invCert` succeeds on every invertible matrix. -/
theorem invCert_ok {F : Matrix (Fin n) (Fin n) K} (h : F.det ≠ 0) :
    ∃ X, invCert F = .ok X ∧ F * X = 1 := by
  unfold invCert
  simp only
  split
  · rename_i hFX
    exact ⟨_, rfl, hFX⟩
  · refine ⟨_, rfl, ?_⟩
    rw [untab_tab]
    unfold SS.invQ
    rw [Matrix.mul_smul, Matrix.mul_adjugate, smul_smul, inv_mul_cancel₀ h, one_smul]

end inv

/-! ### the code-following construction -/

section construct

variable {K : Type} [Field K] [DecidableEq K] {n : Nat}

/-- a vector as a one-column matrix (`B` of a single-input system). -/
def colMat (b : Fin n → K) : Matrix (Fin n) (Fin 1) K := fun i _ => b i

/-- `Tr[::-1, ::]`. -/
def flipRows (T : Matrix (Fin n) (Fin n) K) : Matrix (Fin n) (Fin n) K := fun i j => T (Fin.rev i) j

/-- the first unit vector (`zsys.B`). -/
def e0vec (n : Nat) : Fin n → K := fun i => if i.val = 0 then 1 else 0

theorem ctrb_eq_ctrb1 (A : Matrix (Fin n) (Fin n) K) (b : Fin n → K) :
    ctrb A b = SS.ctrb1 A (colMat b) := by
  ext i j
  simp [ctrb, SS.ctrb1, colMat, Matrix.mul_apply, mulVec, dotProduct]

theorem companion_eq (a : Nat → K) :
    companion (fun k : Fin (n + 1) => a k.val) = SS.companionR n a := by
  ext i j
  simp [companion, SS.companionR]

theorem colMat_e0 : colMat (e0vec (K := K) n) = SS.e1col n := rfl

/-- the flat structure assembled by `LinearFlatSystem.__init__` from `Wrx⁻¹` and `Tr⁻¹`. -/
def assemble (hn : 0 < n) (A : Matrix (Fin n) (Fin n) K) (b : Fin n → K)
    (Wi Ti : Matrix (Fin n) (Fin n) K) : LinFlat n K :=
  let a : Fin (n + 1) → K := fun k => charCoeff A k.val
  let Tr := flipRows (ctrb (companion a) (e0vec n) * Wi)
  ⟨A, b, fun j => companion a ⟨0, hn⟩ (Fin.rev j), Tr, Ti, Tr ⟨0, hn⟩⟩

/-- `LinFlat.construct` without the tabulation. -/
theorem construct_eq (hn : 0 < n) (A : Matrix (Fin n) (Fin n) K) (b : Fin n → K) :
    LinFlat.construct A b =
      match invCert (ctrb A b) with
      | .error e => .error (.py e)
      | .ok Wi =>
        match invCert (flipRows (ctrb (companion fun k : Fin (n + 1) => charCoeff A k.val)
            (e0vec n) * Wi)) with
        | .error e => .error (.py e)
        | .ok Ti =>
          if (assemble hn A b Wi Ti).validB then .ok (assemble hn A b Wi Ti)
          else .error (.cert "LinFlat.Valid") := by
  unfold LinFlat.construct
  rw [dif_neg (Nat.pos_iff_ne_zero.mp hn)]
  simp only [untab_tab, untabV_tabV]
  cases invCert (ctrb A b) with
  | error e => rfl
  | ok Wi =>
    simp only [untab_tab, untab_tab']
    rfl

theorem flipRows_vecMul (T : Matrix (Fin n) (Fin n) K) (A : Matrix (Fin n) (Fin n) K)
    (i l : Fin n) : (flipRows T i ᵥ* A) l = (T * A) (Fin.rev i) l := rfl

theorem flipRows_mulVec (T : Matrix (Fin n) (Fin n) K) (b : Fin n → K) (i : Fin n) :
    (flipRows T *ᵥ b) i = (T *ᵥ b) (Fin.rev i) := rfl

/-- flipping the rows of an invertible matrix gives an invertible matrix. -/
theorem flipRows_det_ne_zero (T Q : Matrix (Fin n) (Fin n) K) (h : T * Q = 1) :
    (flipRows T).det ≠ 0 := by
  apply det_ne_zero_of_mul_eq_one (flipRows T) (Matrix.of fun i j => Q i (Fin.rev j))
  ext i j
  have e : (flipRows T * Matrix.of fun i j => Q i (Fin.rev j)) i j
      = (T * Q) (Fin.rev i) (Fin.rev j) := rfl
  rw [e, h, Matrix.one_apply, Matrix.one_apply]
  simp only [Fin.rev_inj]

/-- **the chain-of-integrators equations hold for the row-flipped transformation to reachable
form.**  If `Tzx A = A_c Tzx` and `Tzx b = e₀` for the companion matrix `A_c` of coefficients `a`,
then `T = Tzx[::-1]`, `F = A_c[0, ::-1]`, `Cf = T[0]` and any right inverse `Ti` of `T` form a
valid flat structure. -/
theorem flip_valid (hn : 0 < n) (A : Matrix (Fin n) (Fin n) K) (b : Fin n → K) (a : Nat → K)
    (Tzx Ti : Matrix (Fin n) (Fin n) K)
    (h1 : Tzx * A = SS.companionR n a * Tzx) (h2 : Tzx *ᵥ b = e0vec n)
    (h3 : flipRows Tzx * Ti = 1) :
    (⟨A, b, fun j => SS.companionR n a ⟨0, hn⟩ (Fin.rev j), flipRows Tzx, Ti,
      flipRows Tzx ⟨0, hn⟩⟩ : LinFlat n K).Valid := by
  refine ⟨h3, ?_, ?_, ?_, ?_⟩
  · intro i l hi
    have : i = ⟨0, hn⟩ := Fin.ext hi
    subst this
    rfl
  · intro i j l hij
    show (flipRows Tzx i ᵥ* A) l = flipRows Tzx j l
    rw [flipRows_vecMul, h1, Matrix.mul_apply, Finset.sum_eq_single (Fin.rev j)]
    · have e1 : ¬ ((Fin.rev i).val = 0) := by rw [Fin.val_rev]; omega
      have e2 : (Fin.rev i).val = (Fin.rev j).val + 1 := by
        rw [Fin.val_rev, Fin.val_rev]; omega
      simp only [SS.companionR, e1, if_false]
      rw [if_pos e2, one_mul]
      rfl
    · intro m _ hm
      have e1 : ¬ ((Fin.rev i).val = 0) := by rw [Fin.val_rev]; omega
      have e2 : ¬ ((Fin.rev i).val = m.val + 1) := by
        intro e
        apply hm
        apply Fin.ext
        rw [Fin.val_rev] at e ⊢
        omega
      simp only [SS.companionR, e1, e2, if_false, zero_mul]
    · intro h; exact absurd (Finset.mem_univ _) h
  · intro i l hi
    show (flipRows Tzx i ᵥ* A) l
      = ((fun j => SS.companionR n a ⟨0, hn⟩ (Fin.rev j)) ᵥ* flipRows Tzx) l
    have hr : Fin.rev i = ⟨0, hn⟩ := by
      apply Fin.ext
      rw [Fin.val_rev]
      show n - (i.val + 1) = 0
      omega
    rw [flipRows_vecMul, h1, Matrix.mul_apply, hr]
    exact (Equiv.sum_comp Fin.revPerm
      (fun m => SS.companionR n a ⟨0, hn⟩ m * Tzx m l)).symm
  · intro i
    show (flipRows Tzx *ᵥ b) i = _
    rw [flipRows_mulVec, h2, e0vec, Fin.val_rev]
    have : (n - (i.val + 1) = 0) ↔ (i.val + 1 = n) := by have := i.isLt; omega
    simp only [this]

/-- **the code-following construction passes its certificate on every reachable pair** (any
order `n ≥ 1`, characteristic zero for the divisions of the Faddeev–LeVerrier recursion). -/
theorem construct_ok [CharZero K] (hn : 0 < n) (A : Matrix (Fin n) (Fin n) K) (b : Fin n → K)
    (h : (ctrb A b).det ≠ 0) :
    ∃ Wi Ti, LinFlat.construct A b = .ok (assemble hn A b Wi Ti)
      ∧ (assemble hn A b Wi Ti).Valid ∧ ctrb A b * Wi = 1 := by
  obtain ⟨Wi, hWi, hW⟩ := invCert_ok h
  have ha0 : charCoeff A 0 ≠ 0 := by rw [charCoeff_zero]; exact one_ne_zero
  have hM : SS.hornerMat A (charCoeff A) n * colMat b = 0 := by
    rw [hornerMat_charCoeff_card, Matrix.zero_mul]
  have hW' : SS.ctrb1 A (colMat b) * Wi = 1 := by rw [← ctrb_eq_ctrb1]; exact hW
  obtain ⟨hi1, hi2⟩ := SS.reachT_intertwine A (colMat b) (charCoeff A) ha0 hM Wi hW'
  obtain ⟨-, hq⟩ := SS.reachT_inv A (colMat b) (charCoeff A) ha0 hM Wi hW'
  -- the transformation of the model is `reachT`
  have hT : ctrb (companion fun k : Fin (n + 1) => charCoeff A k.val) (e0vec n) * Wi
      = SS.reachT (charCoeff A) Wi := by
    rw [companion_eq, ctrb_eq_ctrb1, colMat_e0]
    rfl
  have h2 : SS.reachT (charCoeff A) Wi *ᵥ b = e0vec n := by
    funext i
    exact congrFun (congrFun hi2 i) 0
  have hdet := flipRows_det_ne_zero _ _ hq
  obtain ⟨Ti, hTi, hTT⟩ := invCert_ok hdet
  have hv : (assemble hn A b Wi Ti).Valid := by
    have := flip_valid hn A b (charCoeff A) (SS.reachT (charCoeff A) Wi) Ti hi1 h2 hTT
    unfold assemble
    simp only [hT, companion_eq]
    exact this
  refine ⟨Wi, Ti, ?_, hv, hW⟩
  rw [construct_eq hn, hWi]
  simp only [hT, hTi]
  rw [if_pos ((LinFlat.validB_iff _).mpr hv)]

/-- on an unreachable pair the construction raises (`ValueError: System not controllable`). -/
theorem construct_unreachable (hn : 0 < n) (A : Matrix (Fin n) (Fin n) K) (b : Fin n → K)
    (h : (ctrb A b).det = 0) : LinFlat.construct A b = .error (.py .illPosed) := by
  rw [construct_eq hn, invCert_singular h]

end construct

/-! ### uniqueness: a valid structure is the Brunovsky structure of its first row -/

section unique

variable {K : Type} [Field K] [DecidableEq K] {n : Nat}

theorem LinFlat.ext' {L M : LinFlat n K} (hA : L.A = M.A) (hb : L.b = M.b) (hF : L.F = M.F)
    (hT : L.T = M.T) (hTi : L.Tinv = M.Tinv) (hC : L.Cf = M.Cf) : L = M := by
  cases L; cases M; simp_all

theorem LinFlat.rowPow_eq (L : LinFlat n K) : ∀ k, L.rowPow k = L.Cf ᵥ* L.A ^ k
  | 0 => by simp [LinFlat.rowPow]
  | k + 1 => by rw [LinFlat.rowPow, LinFlat.rowPow_eq L k, vecMul_vecMul, pow_succ]

theorem LinFlat.Valid.T_eq {L : LinFlat n K} (h : L.Valid) (i : Fin n) :
    L.T i = L.Cf ᵥ* L.A ^ i.val := by
  rw [← LinFlat.rowPow_eq, LinFlat.Valid.rowPow_lt h i.val i.isLt]

theorem LinFlat.Valid.isFlatRow {L : LinFlat n K} (h : L.Valid) : IsFlatRow L.A L.b L.Cf := by
  intro j hj
  rw [dotProduct_mulVec, ← LinFlat.Valid.T_eq h ⟨j, hj⟩]
  exact LinFlat.Valid.T_dot_b h ⟨j, hj⟩

/-- **uniqueness**: a structure satisfying the chain-of-integrators equations is the Brunovsky
structure of its first row `Cf`: `T_i = Cf A^i`, `F_i = - coeff_i (charpoly A)`, `Tinv = T⁻¹`. -/
theorem LinFlat.Valid.eq_brunovsky {L : LinFlat n K} (h : L.Valid) (hn : 0 < n) :
    L = brunovsky L.A L.b L.Cf := by
  have hT : L.T = (brunovsky L.A L.b L.Cf).T := by
    funext i
    exact LinFlat.Valid.T_eq h i
  have hv := brunovsky_valid L.A L.b L.Cf (LinFlat.Valid.isFlatRow h)
  refine LinFlat.ext' rfl rfl ?_ hT ?_ rfl
  · -- `F T = Cf A^n = F' T` and `T` is invertible
    have e1 := LinFlat.Valid.rowPow_n h hn
    have e2 := LinFlat.Valid.rowPow_n hv hn
    have e3 : (brunovsky L.A L.b L.Cf).rowPow n = L.rowPow n := by
      rw [LinFlat.rowPow_eq, LinFlat.rowPow_eq]
      rfl
    rw [e3, e1, ← hT] at e2
    have := congrArg (fun w => w ᵥ* L.Tinv) e2
    simp only [vecMul_vecMul, h.1, vecMul_one] at this
    exact this
  · have : L.T⁻¹ = L.Tinv := Matrix.inv_eq_right_inv h.1
    rw [← this]
    show L.T⁻¹ = (Matrix.of fun i : Fin n => L.Cf ᵥ* L.A ^ i.val)⁻¹
    congr 1

/-- the first row of `T` of a valid structure is the last row of the inverse reachability
matrix. -/
theorem LinFlat.Valid.Cf_eq {L : LinFlat n K} (h : L.Valid) (hn : 0 < n)
    (hdet : (ctrb L.A L.b).det ≠ 0) :
    L.Cf = (ctrb L.A L.b)⁻¹ ⟨n - 1, by omega⟩ := by
  have hq := LinFlat.Valid.isFlatRow h
  have e : L.Cf ᵥ* ctrb L.A L.b = Pi.single (⟨n - 1, by omega⟩ : Fin n) 1 := by
    funext j
    have := hq j.val j.isLt
    show L.Cf ⬝ᵥ (fun i => ctrb L.A L.b i j) = _
    rw [show (fun i => ctrb L.A L.b i j) = L.A ^ j.val *ᵥ L.b from rfl, this, Pi.single_apply]
    have : (j = (⟨n - 1, by omega⟩ : Fin n)) ↔ j.val + 1 = n := by
      rw [Fin.ext_iff]
      show j.val = n - 1 ↔ _
      have := j.isLt; omega
    simp only [this]
  have := congrArg (fun w => w ᵥ* (ctrb L.A L.b)⁻¹) e
  simp only [vecMul_vecMul, Matrix.mul_nonsing_inv _ (isUnit_iff_ne_zero.mpr hdet), vecMul_one,
    single_one_vecMul] at this
  exact this

end unique

/-! ### Hermite interpolation: the stacked boundary matrix has full row rank -/

section hermite

variable {K : Type} [Field K] [DecidableEq K]

/-- the `k`-th derivative at `a` is `k!` times the `k`-th Taylor coefficient at `a`. -/
theorem eval_iterate_derivative_eq (a : K) (p : K[X]) (k : Nat) :
    eval a (derivative^[k] p) = (k.factorial : K) * (taylor a p).coeff k := by
  rw [← factorial_smul_hasseDeriv, taylor_coeff]
  simp [nsmul_eq_mul]

theorem taylor_X_sub_C (a : K) : taylor a (X - C a) = X := by
  rw [map_sub, taylor_X, taylor_C, add_sub_cancel_right]

/-- the functional `p ↦ Σ_k v_k p⁽ᵏ⁾(a) + Σ_k w_k p⁽ᵏ⁾(c)`. -/
noncomputable def hermiteFun {r : Nat} (a c : K) (v w : Fin r → K) : K[X] →ₗ[K] K :=
  (∑ k : Fin r, v k • (leval a).comp ((derivative : K[X] →ₗ[K] K[X]) ^ k.val))
    + ∑ k : Fin r, w k • (leval c).comp ((derivative : K[X] →ₗ[K] K[X]) ^ k.val)

theorem hermiteFun_apply {r : Nat} (a c : K) (v w : Fin r → K) (p : K[X]) :
    hermiteFun a c v w p = ∑ k : Fin r, v k * eval a (derivative^[k.val] p)
      + ∑ k : Fin r, w k * eval c (derivative^[k.val] p) := by
  simp [hermiteFun, LinearMap.sum_apply, Module.End.pow_apply]

theorem hermiteFun_swap {r : Nat} (a c : K) (v w : Fin r → K) :
    hermiteFun a c v w = hermiteFun c a w v := by
  unfold hermiteFun
  rw [add_comm]

theorem natDegree_hermiteTest (a c : K) (k r : Nat) :
    ((X - C a) ^ k * (X - C c) ^ r).natDegree ≤ k + r := by
  refine le_trans natDegree_mul_le (Nat.add_le_add ?_ ?_)
  · exact le_trans natDegree_pow_le (by rw [natDegree_X_sub_C, mul_one])
  · exact le_trans natDegree_pow_le (by rw [natDegree_X_sub_C, mul_one])

/-- a functional of Hermite type at two distinct points that vanishes on all polynomials of
degree `< 2r` has zero weights at the first point. -/
theorem hermite_left [CharZero K] {r : Nat} (a c : K) (hac : a ≠ c) (v w : Fin r → K)
    (h : ∀ p : K[X], p.natDegree < 2 * r → hermiteFun a c v w p = 0) : v = 0 := by
  -- the value of the functional on `(X-a)^k (X-c)^r`
  have hval : ∀ k, k < r → ∑ j : Fin r, v j * ((j.val.factorial : K)
      * (if k ≤ j.val then ((X + C (a - c)) ^ r : K[X]).coeff (j.val - k) else 0)) = 0 := by
    intro k hk
    have h1 := h ((X - C a) ^ k * (X - C c) ^ r)
      (lt_of_le_of_lt (natDegree_hermiteTest a c k r) (by omega))
    rw [hermiteFun_apply] at h1
    have hc : ∀ j : Fin r, eval c (derivative^[j.val] ((X - C a) ^ k * (X - C c) ^ r)) = 0 := by
      intro j
      rw [eval_iterate_derivative_eq, taylor_mul, taylor_pow, taylor_pow, taylor_X_sub_C,
        coeff_mul_X_pow', if_neg (by have := j.isLt; omega), mul_zero]
    have ha : ∀ j : Fin r, eval a (derivative^[j.val] ((X - C a) ^ k * (X - C c) ^ r))
        = (j.val.factorial : K)
          * (if k ≤ j.val then ((X + C (a - c)) ^ r : K[X]).coeff (j.val - k) else 0) := by
      intro j
      rw [eval_iterate_derivative_eq, taylor_mul, taylor_pow, taylor_pow, taylor_X_sub_C,
        coeff_X_pow_mul', map_sub, taylor_X, taylor_C, add_sub_assoc, ← C_sub]
    simp only [hc, mul_zero, Finset.sum_const_zero, add_zero, ha] at h1
    exact h1
  have hg : ((X + C (a - c)) ^ r : K[X]).coeff 0 ≠ 0 := by
    rw [coeff_zero_eq_eval_zero, eval_pow, eval_add, eval_X, eval_C, zero_add]
    exact pow_ne_zero _ (sub_ne_zero.mpr hac)
  -- downward induction
  have key : ∀ m, ∀ j : Fin r, r ≤ j.val + m → v j = 0 := by
    intro m
    induction m with
    | zero => intro j hj; exact absurd j.isLt (by omega)
    | succ m ih =>
      intro j hj
      by_cases hj' : r ≤ j.val + m
      · exact ih j hj'
      · have hk := hval j.val j.isLt
        rw [Finset.sum_eq_single j] at hk
        · simp only [le_refl, if_true, Nat.sub_self] at hk
          have hf : (j.val.factorial : K) ≠ 0 := Nat.cast_ne_zero.mpr (Nat.factorial_ne_zero _)
          rcases mul_eq_zero.mp hk with h0 | h0
          · exact h0
          · exact absurd h0 (mul_ne_zero hf hg)
        · intro i _ hi
          by_cases hle : j.val ≤ i.val
          · have hne : j.val ≠ i.val := fun e => hi (Fin.ext e.symm)
            rw [ih i (by omega), zero_mul]
          · rw [if_neg hle, mul_zero, mul_zero]
        · intro hn; exact absurd (Finset.mem_univ j) hn
  funext j
  exact key r j (by omega)

/-- both weight vectors vanish. -/
theorem hermite_indep [CharZero K] {r : Nat} (a c : K) (hac : a ≠ c) (v w : Fin r → K)
    (h : ∀ p : K[X], p.natDegree < 2 * r → hermiteFun a c v w p = 0) : v = 0 ∧ w = 0 :=
  ⟨hermite_left a c hac v w h,
    hermite_left c a hac.symm w v (fun p hp => by rw [← hermiteFun_swap]; exact h p hp)⟩

theorem iterate_derivative_toPoly (bs : Basis K) (j : Fin bs.N) (k : Nat) :
    derivative^[k] (bs.toPoly j 0) = bs.toPoly j k := by
  induction k with
  | zero => rfl
  | succ k ih => rw [Function.iterate_succ_apply', ih, Basis.derivative_toPoly]

/-- a left combination of the rows of the stacked boundary matrix is the Hermite functional
applied to the basis polynomials. -/
theorem vecMul_stackM [CharZero K] {n : Nat} (bs : Basis K) (hT : bs.T ≠ 0) (T0 Tf : K)
    (v : Fin ((n + 1) + (n + 1)) → K) (j : Fin bs.N) :
    (v ᵥ* stackM (n := n) bs T0 Tf) j
      = hermiteFun T0 Tf (fun k => v (Fin.castAdd (n + 1) k)) (fun k => v (Fin.natAdd (n + 1) k))
          (bs.toPoly j 0) := by
  rw [hermiteFun_apply]
  simp only [vecMul, dotProduct, Fin.sum_univ_add, stackM_castAdd, stackM_natAdd, flagMatrix,
    iterate_derivative_toPoly, Basis.eval_toPoly bs hT]

/-- **row independence of the boundary system** for any basis whose functions span the
polynomials of degree `< 2(n+1)`. -/
theorem stackM_rowIndep_of_span [CharZero K] {n : Nat} (bs : Basis K) (hT : bs.T ≠ 0) (T0 Tf : K)
    (h0f : T0 ≠ Tf)
    (hspan : ∀ p : K[X], p.natDegree < 2 * (n + 1) →
      p ∈ Submodule.span K (Set.range fun j : Fin bs.N => bs.toPoly j 0))
    (v : Fin ((n + 1) + (n + 1)) → K) (hv : v ᵥ* stackM (n := n) bs T0 Tf = 0) : v = 0 := by
  set Φ := hermiteFun T0 Tf (fun k => v (Fin.castAdd (n + 1) k))
    (fun k => v (Fin.natAdd (n + 1) k)) with hΦ
  have hle : Submodule.span K (Set.range fun j : Fin bs.N => bs.toPoly j 0)
      ≤ LinearMap.ker Φ := by
    rw [Submodule.span_le]
    rintro _ ⟨j, rfl⟩
    show Φ (bs.toPoly j 0) = 0
    rw [hΦ, ← vecMul_stackM bs hT T0 Tf v j, hv]
    rfl
  obtain ⟨h1, h2⟩ := hermite_indep T0 Tf h0f _ _ (fun p hp => hle (hspan p hp))
  funext i
  refine Fin.addCases (fun k => ?_) (fun k => ?_) i
  · exact congrFun h1 k
  · exact congrFun h2 k

/-- a submodule containing the scaled monomials `(X/T)^i`, `i < N`, contains every polynomial of
degree `< N`. -/
theorem mem_of_monoPoly_mem (N : Nat) (T : K) (hT : T ≠ 0) (S : Submodule K K[X])
    (h : ∀ i, i < N → Basis.monoPoly T i 0 ∈ S) (p : K[X]) (hp : p.natDegree < N) : p ∈ S := by
  rw [as_sum_range' p N hp]
  refine Submodule.sum_mem _ fun i hi => ?_
  have hi' : i < N := Finset.mem_range.mp hi
  have e : monomial i (p.coeff i) = (p.coeff i * T ^ i) • Basis.monoPoly T i 0 := by
    rw [Basis.monoPoly, Nat.descFactorial_zero, Nat.cast_one, Nat.sub_zero, smul_eq_C_mul,
      ← mul_assoc, ← C_mul, ← C_mul_X_pow_eq_monomial]
    congr 2
    field_simp
  rw [e]
  exact Submodule.smul_mem _ _ (h i hi')

/-- the scaled monomials of `PolyFamily(N, T)` span the polynomials of degree `< N`. -/
theorem poly_span (N : Nat) (T : K) (hT : T ≠ 0) (p : K[X]) (hp : p.natDegree < N) :
    p ∈ Submodule.span K (Set.range fun j : Fin (Basis.poly N T).N =>
      (Basis.poly N T).toPoly j 0) :=
  mem_of_monoPoly_mem N T hT _
    (fun i hi => Submodule.subset_span
      (Set.mem_range.mpr ⟨(⟨i, hi⟩ : Fin (Basis.poly N T).N), rfl⟩)) p hp

/-- the Bernstein polynomials of `BezierFamily(N, T)` span the polynomials of degree `< N`
(triangular change of basis; the binomial coefficients are non-zero in characteristic zero). -/
theorem bezier_span [CharZero K] (N : Nat) (T : K) (hT : T ≠ 0) (p : K[X])
    (hp : p.natDegree < N) :
    p ∈ Submodule.span K (Set.range fun j : Fin (Basis.bezier N T).N =>
      (Basis.bezier N T).toPoly j 0) := by
  set S := Submodule.span K (Set.range fun j : Fin (Basis.bezier N T).N =>
      (Basis.bezier N T).toPoly j 0) with hS
  have hb : ∀ i, i < N → Basis.bezPoly N T i 0 ∈ S := fun i hi =>
    Submodule.subset_span (Set.mem_range.mpr ⟨(⟨i, hi⟩ : Fin (Basis.bezier N T).N), rfl⟩)
  -- downward induction on the index
  have key : ∀ d i, i < N → N ≤ i + d + 1 → Basis.monoPoly T i 0 ∈ S := by
    intro d
    induction d with
    | zero =>
      intro i hi hd
      have hiN : N - 1 - i = 0 := by omega
      have hc : ((N - 1).choose i : K) ≠ 0 :=
        Nat.cast_ne_zero.mpr (Nat.choose_pos (by omega)).ne'
      have h1 := hb i hi
      have e : Basis.bezPoly N T i 0 = ((N - 1).choose i : K) • Basis.monoPoly T i 0 := by
        simp [Basis.bezPoly, hiN, smul_eq_C_mul]
      rw [e] at h1
      have := Submodule.smul_mem S ((N - 1).choose i : K)⁻¹ h1
      rwa [smul_smul, inv_mul_cancel₀ hc, one_smul] at this
    | succ d ih =>
      intro i hi hd
      have hc : ((N - 1).choose i : K) ≠ 0 :=
        Nat.cast_ne_zero.mpr (Nat.choose_pos (by omega)).ne'
      have h1 := hb i hi
      have e : Basis.bezPoly N T i 0 = ((N - 1).choose i : K) •
          (Basis.monoPoly T i 0 + ∑ l ∈ range (N - 1 - i),
            ((-1 : K) ^ (l + 1) * ((N - 1 - i).choose (l + 1) : K))
              • Basis.monoPoly T (i + (l + 1)) 0) := by
        rw [Basis.bezPoly, Finset.sum_range_succ', smul_eq_C_mul]
        congr 1
        rw [add_comm]
        congr 1
        · simp
        · refine Finset.sum_congr rfl fun l _ => ?_
          rw [smul_eq_C_mul]
      rw [e] at h1
      have h2 := Submodule.smul_mem S ((N - 1).choose i : K)⁻¹ h1
      rw [smul_smul, inv_mul_cancel₀ hc, one_smul] at h2
      have h3 : ∑ l ∈ range (N - 1 - i),
          ((-1 : K) ^ (l + 1) * ((N - 1 - i).choose (l + 1) : K))
            • Basis.monoPoly T (i + (l + 1)) 0 ∈ S := by
        refine Submodule.sum_mem _ fun l hl => Submodule.smul_mem _ _ ?_
        have := Finset.mem_range.mp hl
        exact ih (i + (l + 1)) (by omega) (by omega)
      have := Submodule.sub_mem S h2 h3
      rwa [add_sub_cancel_right] at this
  exact mem_of_monoPoly_mem N T hT S (fun i hi => key N i hi (by omega)) p hp

/-- **full row rank of the boundary system** `vstack([M(T0), M(Tf)])` built by
`_basis_flag_matrix` for `PolyFamily` and `BezierFamily` with at least `2(n+1)` basis functions,
`T ≠ 0`, on an interval `T0 ≠ Tf`: the rows are linearly independent. -/
theorem stackM_rowIndep [CharZero K] {n : Nat} (bs : Basis K) (hT : bs.T ≠ 0)
    (hN : 2 * (n + 1) ≤ bs.N) (T0 Tf : K) (h0f : T0 ≠ Tf)
    (v : Fin ((n + 1) + (n + 1)) → K) (hv : v ᵥ* stackM (n := n) bs T0 Tf = 0) : v = 0 := by
  refine stackM_rowIndep_of_span bs hT T0 Tf h0f (fun p hp => ?_) v hv
  cases bs with
  | poly N T => exact poly_span N T hT p (lt_of_lt_of_le hp hN)
  | bezier N T => exact bezier_span N T hT p (lt_of_lt_of_le hp hN)

/-- full row rank ⟹ the system `M α = z` is solvable for every right-hand side. -/
theorem mulVec_surjective_of_vecMul_injective {p q : Nat} (M : Matrix (Fin p) (Fin q) K)
    (h : ∀ v, v ᵥ* M = 0 → v = 0) (z : Fin p → K) : ∃ α, M *ᵥ α = z := by
  have hinj : Function.Injective M.vecMul := by
    intro v w hvw
    have hvw' : v ᵥ* M = w ᵥ* M := hvw
    have : (v - w) ᵥ* M = 0 := by rw [sub_vecMul, hvw', sub_self]
    exact sub_eq_zero.mp (h _ this)
  have hrank : M.rank = Fintype.card (Fin p) :=
    (Matrix.vecMul_injective_iff.mp hinj).rank_matrix
  have htop : LinearMap.range M.mulVecLin = ⊤ := by
    apply Submodule.eq_top_of_finrank_eq
    rw [← Matrix.rank, hrank, Module.finrank_fintype_fun_eq_card]
  have : z ∈ LinearMap.range M.mulVecLin := by rw [htop]; trivial
  obtain ⟨α, hα⟩ := this
  exact ⟨α, hα⟩

end hermite

/-! ### the trajectory as polynomials (feasibility over any field of characteristic zero) -/

section trajpoly

variable {K : Type} [Field K] [DecidableEq K] {n : Nat}

/-- the `k`-th flag entry of the trajectory as a polynomial in `t`. -/
noncomputable def flagPoly (bs : Basis K) (α : Fin bs.N → K) (k : Nat) : K[X] :=
  ∑ j : Fin bs.N, C (α j) * bs.toPoly j k

/-- the `i`-th state of the trajectory as a polynomial in `t`. -/
noncomputable def statePoly (L : LinFlat n K) (bs : Basis K) (α : Fin bs.N → K) (i : Fin n) : K[X] :=
  ∑ l : Fin n, C (L.Tinv i l) * flagPoly bs α l.val

/-- the input of the trajectory as a polynomial in `t`. -/
noncomputable def inputPoly (L : LinFlat n K) (bs : Basis K) (α : Fin bs.N → K) : K[X] :=
  flagPoly bs α n - ∑ l : Fin n, C (L.F l) * flagPoly bs α l.val

theorem eval_flagPoly [CharZero K] (bs : Basis K) (hT : bs.T ≠ 0) (α : Fin bs.N → K)
    (len : Nat) (k : Fin len) (t : K) :
    eval t (flagPoly bs α k.val) = trajFlag bs α len t k := by
  simp only [flagPoly, eval_finsetSum, eval_mul, eval_C, Basis.eval_toPoly bs hT, trajFlag,
    mulVec, dotProduct, flagMatrix]
  exact Finset.sum_congr rfl fun j _ => mul_comm _ _

theorem derivative_flagPoly (bs : Basis K) (α : Fin bs.N → K) (k : Nat) :
    derivative (flagPoly bs α k) = flagPoly bs α (k + 1) := by
  simp only [flagPoly, derivative_sum, derivative_C_mul, Basis.derivative_toPoly]

theorem eval_statePoly [CharZero K] (L : LinFlat n K) (bs : Basis K) (hT : bs.T ≠ 0)
    (α : Fin bs.N → K) (i : Fin n) (t : K) :
    eval t (statePoly L bs α i) = (trajEval L bs α t).1 i := by
  simp only [statePoly, eval_finsetSum, eval_mul, eval_C, trajEval, LinFlat.reverse, mulVec,
    dotProduct, LinFlat.flagHead]
  refine Finset.sum_congr rfl fun l _ => ?_
  rw [← eval_flagPoly bs hT α (n + 1) l.castSucc t]
  rfl

theorem eval_inputPoly [CharZero K] (L : LinFlat n K) (bs : Basis K) (hT : bs.T ≠ 0)
    (α : Fin bs.N → K) (t : K) :
    eval t (inputPoly L bs α) = (trajEval L bs α t).2 := by
  simp only [inputPoly, eval_sub, eval_finsetSum, eval_mul, eval_C, trajEval, LinFlat.reverse,
    dotProduct, LinFlat.flagHead]
  congr 1
  · exact eval_flagPoly bs hT α (n + 1) (Fin.last n) t
  · refine Finset.sum_congr rfl fun l _ => ?_
    rw [← eval_flagPoly bs hT α (n + 1) l.castSucc t]
    rfl

end trajpoly

end CtrlVerif
