/-
Concrete run-time systems over `ℚ` (non-square shapes) used by the non-vacuity `example`s of
`Props/C02Glue.lean` / `Props/C02GlueTree.lean`, with their responses at `s = 0`.
-/
import CtrlVerif.Lemmas.C02Glue
import CtrlVerif.Props.C02
import Mathlib.Tactic.FinCases
import Mathlib.Tactic.NormNum.Basic

namespace CtrlVerif.DSS.Ex

open CtrlVerif Matrix DSS

theorem exists_ok {α : Type} {r : Except Err α} (h : ∀ e, r = .error e → False) :
    ∃ R, r = .ok R := by
  cases r with
  | ok R => exact ⟨R, rfl⟩
  | error e => exact (h e rfl).elim

theorem sqD_mk {K : Type} [Field K] {n p : Nat} (sys : SS (Fin n) (Fin p) (Fin p) K) (dt : Dt)
    (h : p = p) : sqD ⟨n, p, p, sys, dt⟩ h = sys.D := by
  unfold sqD; ext i j; rfl

theorem fbF_mk {K : Type} [Field K] {n n' p m : Nat} (sys : SS (Fin n) (Fin m) (Fin p) K)
    (sys' : SS (Fin n') (Fin p) (Fin m) K) (dt dt' : Dt) (h : m = m ∧ p = p) (sign : K) :
    fbF ⟨n, p, m, sys, dt⟩ ⟨n', m, p, sys', dt'⟩ h sign = 1 - sign • (sys'.D * sys.D) := by
  simp [fbF, SS.castIO_rfl]

/-- 2 outputs, 1 input, 1 state: `[1/(s+1); 2/(s+1) + 1]`, continuous time. -/
def G21 : DSS ℚ := ⟨1, 2, 1, ⟨!![-1], !![1], !![1; 2], !![0; 1]⟩, .cont⟩

theorem G21_resp : G21.Resp 0 2 1 !![1; 3] := by
  refine (Resp_mk _ _ _ _).mpr ⟨!![1], ?_, ?_⟩
  · ext i j; fin_cases i; fin_cases j; simp
  · ext i j; fin_cases i <;> fin_cases j <;> simp [Matrix.mul_apply] <;> norm_num

/-- SISO, 1 state: `1/(s+1) + 1` (direct term `1`), no timebase. -/
def S11 : DSS ℚ := ⟨1, 1, 1, ⟨!![-1], !![1], !![1], !![1]⟩, .none⟩

theorem S11_resp : S11.Resp 0 1 1 !![2] := by
  refine (Resp_mk _ _ _ _).mpr ⟨!![1], ?_, ?_⟩
  · ext i j; fin_cases i; fin_cases j; simp
  · ext i j; fin_cases i; fin_cases j; simp; norm_num

/-- a static `1 × 2` gain `[1 1]`, continuous time. -/
def K12 : DSS ℚ := ⟨0, 1, 2, SS.static !![1, 1], .cont⟩

theorem K12_resp : K12.Resp 0 1 2 !![1, 1] :=
  (Resp_mk _ _ _ _).mpr (C02.static_resp _ 0)

/-- square, 2 × 2, 1 state, direct term `I`: responds at `0` with `diag(2, 1)`. -/
def Q22 : DSS ℚ := ⟨1, 2, 2, ⟨!![-1], !![1, 0], !![1; 0], 1⟩, .cont⟩

theorem Q22_resp : Q22.Resp 0 2 2 !![2, 0; 0, 1] := by
  refine (Resp_mk _ _ _ _).mpr ⟨!![1, 0], ?_, ?_⟩
  · ext i j; fin_cases i; fin_cases j <;> simp
  · ext i j; fin_cases i <;> fin_cases j <;> simp [Matrix.mul_apply, Matrix.one_apply] <;> norm_num

/-- the upper operand of the `lft` example: 2 × 2, 1 state, `D = 0`, all-ones `B`, `C`. -/
def U22 : DSS ℚ := ⟨1, 2, 2, ⟨!![-1], !![1, 1], !![1; 1], 0⟩, .cont⟩

theorem U22_resp : U22.Resp 0 2 2 !![1, 1; 1, 1] := by
  refine (Resp_mk _ _ _ _).mpr ⟨!![1, 1], ?_, ?_⟩
  · ext i j; fin_cases i; fin_cases j <;> simp
  · ext i j; fin_cases i <;> fin_cases j <;> simp [Matrix.mul_apply]

/-- the lower operand of the `lft` example: static `[[2, 0], [0, 0]]`. -/
def L22 : DSS ℚ := ⟨0, 2, 2, SS.static !![2, 0; 0, 0], .cont⟩

theorem L22_resp : L22.Resp 0 2 2 !![2, 0; 0, 0] :=
  (Resp_mk _ _ _ _).mpr (C02.static_resp _ 0)

end CtrlVerif.DSS.Ex
