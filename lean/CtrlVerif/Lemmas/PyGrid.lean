/-
Helper lemmas for the source-text tie of the default frequency grid (`Model/PyGrid.lean`, `Props/C13GenGrid*.lean`).
Not proof obligations themselves.
-/
import CtrlVerif.Model.PyGrid
import CtrlVerif.Model.NyquistGrid
import CtrlVerif.Lemmas.PyNyq
import CtrlVerif.Lemmas.NyquistGrid

namespace CtrlVerif.PyGridLemmas

open CtrlVerif CtrlVerif.Nyquist CtrlVerif.PyGrid

variable {K : Type}

/-- `if np.any(m): a = a[~m]` is `a = a[~m]` -/
theorem filter_of_any {α : Type} (p : α → Bool) (l : List α) :
    (if l.any p then l.filter (fun x => !p x) else l) = l.filter (fun x => !p x) := by
  split_ifs with h
  · rfl
  · symm
    rw [List.filter_eq_self]
    intro a ha
    have : ¬ (p a = true) := fun hp => h (List.any_eq_true.2 ⟨a, ha, hp⟩)
    simpa using this

section field
variable [Field K]

theorem linspace_eq (a b : K) (n : ℕ) : PyGrid.linspace a b n = Nyquist.linspace a b n := rfl

end field

section order
variable [LinearOrder K]

theorem minOf_cons (a : K) (t : List K) : PyGrid.minOf (a :: t) = .ok (minL a t) := rfl
theorem maxOf_cons (a : K) (t : List K) : PyGrid.maxOf (a :: t) = .ok (maxL a t) := rfl
theorem minOf_nil : PyGrid.minOf ([] : List K) = .error .badArg := rfl
theorem maxOf_nil : PyGrid.maxOf ([] : List K) = .error .badArg := rfl

/-- a monotone map commutes with the minimum of a non-empty list -/
theorem minL_map {f : K → K} (hf : Monotone f) (a : K) (t : List K) :
    f (minL a t) = minL (f a) (t.map f) := by
  unfold minL
  induction t generalizing a with
  | nil => rfl
  | cons b u ih => simp only [List.foldl_cons, List.map_cons]; rw [ih, hf.map_min]

theorem maxL_map {f : K → K} (hf : Monotone f) (a : K) (t : List K) :
    f (maxL a t) = maxL (f a) (t.map f) := by
  unfold maxL
  induction t generalizing a with
  | nil => rfl
  | cons b u ih => simp only [List.foldl_cons, List.map_cons]; rw [ih, hf.map_max]

end order

section floor
variable [Field K] [LinearOrder K] [IsStrictOrderedRing K] [FloorRing K]

/-- `np.rint` as emitted (`PyNyq.round0`) is the model's `roundHalfEven` -/
theorem round0_eq (x : K) : PyNyq.round0 x = ((roundHalfEven x : ℤ) : K) := by
  rw [PyNyq.round0, PyNyq.rint_eq]

theorem isclose_zero_zero : PyGrid.isclose (0 : K) 0 = true := by
  simp [PyGrid.isclose]

end floor

end CtrlVerif.PyGridLemmas
