/-
Lemmas for `TransferFunction.minreal`: `numpy.poly` refines to a product of linear factors, the
cancellation loop preserves the quotient of the two products.
-/
import CtrlVerif.Model.Minreal
import CtrlVerif.Lemmas.TF
import Mathlib.Tactic.LinearCombination

namespace CtrlVerif

open Polynomial

variable {K : Type*} [Field K] [DecidableEq K]

/-- `∏ (X - r)` over a root list. -/
noncomputable def prodRoots (rs : List K) : K[X] := (rs.map fun r => X - C r).prod

omit [DecidableEq K] in
@[simp] theorem prodRoots_nil : prodRoots ([] : List K) = 1 := rfl

omit [DecidableEq K] in
@[simp] theorem prodRoots_cons (r : K) (rs : List K) :
    prodRoots (r :: rs) = (X - C r) * prodRoots rs := by
  simp [prodRoots]

omit [DecidableEq K] in
theorem prodRoots_ne_zero (rs : List K) : prodRoots rs ≠ 0 := by
  induction rs with
  | nil => simp
  | cons r rs ih => rw [prodRoots_cons]; exact mul_ne_zero (X_sub_C_ne_zero r) ih

omit [DecidableEq K] in
theorem toPoly_linear (r : K) : toPoly [1, -r] = X - C r := by
  simp [toPoly_cons, sub_eq_add_neg]

omit [DecidableEq K] in
theorem toPoly_polyFromRoots_foldl (rs : List K) (acc : List K) :
    toPoly (rs.foldl (fun acc r => polymul acc [1, -r]) acc) = toPoly acc * prodRoots rs := by
  induction rs generalizing acc with
  | nil => simp
  | cons r rs ih =>
    simp only [List.foldl_cons, prodRoots_cons]
    rw [ih, toPoly_polymul, toPoly_linear]
    ring

omit [DecidableEq K] in
/-- `numpy.poly(roots)` denotes `∏ (X - r)`. -/
theorem toPoly_polyFromRoots (rs : List K) : toPoly (polyFromRoots rs) = prodRoots rs := by
  unfold polyFromRoots
  rw [toPoly_polyFromRoots_foldl]
  simp [toPoly_cons]

omit [DecidableEq K] in
theorem removeFirst_spec (p : K → Bool) (l l' : List K) (h : removeFirst p l = some l') :
    ∃ x, p x = true ∧ prodRoots l = (X - C x) * prodRoots l' := by
  induction l generalizing l' with
  | nil => simp [removeFirst] at h
  | cons y ys ih =>
    unfold removeFirst at h
    by_cases hy : p y = true
    · simp only [hy, if_true, Option.some.injEq] at h
      subst h
      exact ⟨y, hy, prodRoots_cons y ys⟩
    · simp only [hy, Bool.false_eq_true, if_false, Option.map_eq_some_iff] at h
      obtain ⟨l'', hl'', rfl⟩ := h
      obtain ⟨x, hx, hp⟩ := ih l'' hl''
      refine ⟨x, hx, ?_⟩
      rw [prodRoots_cons, prodRoots_cons, hp]
      ring

omit [DecidableEq K] in
/-- the cancellation loop keeps `∏(X - z) / ∏(X - p)` (cross-multiplied), provided the tolerance
test only identifies equal roots. -/
theorem cancelRoots_spec (close : K → K → Bool) (hclose : ∀ z p, close z p = true → z = p)
    (zs ps : List K) :
    prodRoots zs * prodRoots (cancelRoots close zs ps).2
      = prodRoots (cancelRoots close zs ps).1 * prodRoots ps := by
  induction zs generalizing ps with
  | nil => simp [cancelRoots]
  | cons z zs ih =>
    unfold cancelRoots
    cases hrf : removeFirst (close z) ps with
    | none =>
      simp only [prodRoots_cons]
      linear_combination (X - C z) * ih ps
    | some ps' =>
      obtain ⟨x, hx, hp⟩ := removeFirst_spec (close z) ps ps' hrf
      have hzx : z = x := hclose z x hx
      subst hzx
      simp only [prodRoots_cons]
      rw [hp]
      linear_combination (X - C z) * ih ps'

theorem minrealEntry_spec (close : K → K → Bool) (f : Frac K) (zeros poles : List K)
    (n0 d0 : K) (nt dt : List K) (hn : f.num = n0 :: nt) (hd : f.den = d0 :: dt) (hd0 : d0 ≠ 0)
    (hzeros : toPoly f.num = C n0 * prodRoots zeros)
    (hpoles : toPoly f.den = C d0 * prodRoots poles)
    (hclose : ∀ z p, close z p = true → z = p) :
    ∃ g, minrealEntry close f zeros poles = .ok g ∧ g.WF ∧ g.sem = f.sem := by
  have hc := cancelRoots_spec close hclose zeros poles
  set r := cancelRoots close zeros poles with hr
  refine ⟨Frac.norm ⟨scale (n0 / d0) (polyFromRoots r.1), polyFromRoots r.2⟩, ?_, ?_, ?_⟩
  · simp [minrealEntry, hn, hd, hd0, ← hr, pure, Except.pure]
  · apply Frac.wf_norm
    simp only [Frac.WF, toPoly_polyFromRoots]
    exact prodRoots_ne_zero _
  · rw [Frac.sem_norm]
    simp only [Frac.sem, toPoly_scale, toPoly_polyFromRoots, hzeros, hpoles]
    have h2 : ι' (prodRoots r.2) ≠ 0 := ι'_ne_zero (prodRoots_ne_zero _)
    have h3 : ι' (C d0 * prodRoots poles) ≠ 0 :=
      ι'_ne_zero (mul_ne_zero (by simpa using hd0) (prodRoots_ne_zero _))
    rw [div_eq_div_iff h2 h3, ← ι'_mul, ← ι'_mul]
    congr 1
    have hC : (C (n0 / d0) : K[X]) * C d0 = C n0 := by
      rw [← C_mul, div_mul_cancel₀ _ hd0]
    linear_combination (prodRoots r.1 * prodRoots poles) * hC - C n0 * hc

/-! ### the hypothesis restricted to the roots at hand

`cancelRoots_spec` asks the tolerance test to identify only equal elements of the whole field, which
no positive tolerance satisfies.  What the loop needs is the statement for the zeros and poles it is
given; that one is decidable on the root lists (`rootsSeparated`) and is certified by the driver on
every call. -/

omit [DecidableEq K] in
theorem removeFirst_spec_mem (p : K → Bool) (l l' : List K) (h : removeFirst p l = some l') :
    ∃ x ∈ l, p x = true ∧ prodRoots l = (X - C x) * prodRoots l' ∧ ∀ y ∈ l', y ∈ l := by
  induction l generalizing l' with
  | nil => simp [removeFirst] at h
  | cons y ys ih =>
    unfold removeFirst at h
    by_cases hy : p y = true
    · simp only [hy, if_true, Option.some.injEq] at h
      subst h
      exact ⟨y, List.mem_cons_self, hy, prodRoots_cons y ys, fun w hw => List.mem_cons_of_mem _ hw⟩
    · simp only [hy, Bool.false_eq_true, if_false, Option.map_eq_some_iff] at h
      obtain ⟨l'', hl'', rfl⟩ := h
      obtain ⟨x, hxm, hx, hp, hsub⟩ := ih l'' hl''
      refine ⟨x, List.mem_cons_of_mem _ hxm, hx, ?_, ?_⟩
      · rw [prodRoots_cons, prodRoots_cons, hp]
        ring
      · intro w hw
        rcases List.mem_cons.mp hw with rfl | hw
        · exact List.mem_cons_self
        · exact List.mem_cons_of_mem _ (hsub w hw)

omit [DecidableEq K] in
/-- the cancellation loop keeps `∏(X - z) / ∏(X - p)` (cross-multiplied), provided the tolerance
test identifies only equal roots *among the given zeros and poles*. -/
theorem cancelRoots_spec_on (close : K → K → Bool) (zs ps : List K)
    (hclose : ∀ z ∈ zs, ∀ p ∈ ps, close z p = true → z = p) :
    prodRoots zs * prodRoots (cancelRoots close zs ps).2
      = prodRoots (cancelRoots close zs ps).1 * prodRoots ps := by
  induction zs generalizing ps with
  | nil => simp [cancelRoots]
  | cons z zs ih =>
    unfold cancelRoots
    cases hrf : removeFirst (close z) ps with
    | none =>
      simp only [prodRoots_cons]
      have := ih ps (fun z' hz' p hp => hclose z' (List.mem_cons_of_mem _ hz') p hp)
      linear_combination (X - C z) * this
    | some ps' =>
      obtain ⟨x, hxm, hx, hp, hsub⟩ := removeFirst_spec_mem (close z) ps ps' hrf
      have hzx : z = x := hclose z List.mem_cons_self x hxm hx
      subst hzx
      simp only [prodRoots_cons]
      rw [hp]
      have := ih ps' (fun z' hz' p hp' => hclose z' (List.mem_cons_of_mem _ hz') p (hsub p hp'))
      linear_combination (X - C z) * this

omit [DecidableEq K] in
/-- every zero kept by the loop is one of the given zeros, every remaining pole one of the given
poles (nothing is invented). -/
theorem cancelRoots_mem (close : K → K → Bool) (zs ps : List K) :
    (∀ z ∈ (cancelRoots close zs ps).1, z ∈ zs) ∧ (∀ p ∈ (cancelRoots close zs ps).2, p ∈ ps) := by
  induction zs generalizing ps with
  | nil => simp [cancelRoots]
  | cons z zs ih =>
    unfold cancelRoots
    cases hrf : removeFirst (close z) ps with
    | none =>
      obtain ⟨h1, h2⟩ := ih ps
      refine ⟨?_, h2⟩
      intro w hw
      rcases List.mem_cons.mp hw with rfl | hw
      · exact List.mem_cons_self
      · exact List.mem_cons_of_mem _ (h1 w hw)
    | some ps' =>
      obtain ⟨x, _, _, _, hsub⟩ := removeFirst_spec_mem (close z) ps ps' hrf
      obtain ⟨h1, h2⟩ := ih ps'
      exact ⟨fun w hw => List.mem_cons_of_mem _ (h1 w hw), fun w hw => hsub w (h2 w hw)⟩

omit [DecidableEq K] in
/-- the loop removes as many poles as zeros: the relative degree is unchanged. -/
theorem cancelRoots_length (close : K → K → Bool) (zs ps : List K) :
    (cancelRoots close zs ps).1.length + ps.length
      = (cancelRoots close zs ps).2.length + zs.length := by
  induction zs generalizing ps with
  | nil => simp [cancelRoots]
  | cons z zs ih =>
    unfold cancelRoots
    cases hrf : removeFirst (close z) ps with
    | none =>
      have := ih ps
      simp only [List.length_cons]
      omega
    | some ps' =>
      have hlen : ps.length = ps'.length + 1 := by
        clear ih
        induction ps generalizing ps' with
        | nil => simp [removeFirst] at hrf
        | cons y ys ihy =>
          unfold removeFirst at hrf
          by_cases hy : close z y = true
          · simp only [hy, if_true, Option.some.injEq] at hrf
            subst hrf; rfl
          · simp only [hy, Bool.false_eq_true, if_false, Option.map_eq_some_iff] at hrf
            obtain ⟨l'', hl'', rfl⟩ := hrf
            simp [ihy l'' hl'']
      have := ih ps'
      simp only [List.length_cons]
      omega

theorem rootsSeparated_iff (close : K → K → Bool) (zs ps : List K) :
    rootsSeparated close zs ps = true ↔ ∀ z ∈ zs, ∀ p ∈ ps, close z p = true → z = p := by
  simp only [rootsSeparated, List.all_eq_true, Bool.or_eq_true, Bool.not_eq_true',
    decide_eq_true_eq]
  constructor
  · intro h z hz p hp hc
    rcases h z hz p hp with h' | h'
    · rw [hc] at h'; cases h'
    · exact h'
  · intro h z hz p hp
    by_cases hc : close z p = true
    · exact Or.inr (h z hz p hp hc)
    · left; simpa using hc

theorem minrealEntry_spec_on (close : K → K → Bool) (f : Frac K) (zeros poles : List K)
    (n0 d0 : K) (nt dt : List K) (hn : f.num = n0 :: nt) (hd : f.den = d0 :: dt) (hd0 : d0 ≠ 0)
    (hzeros : toPoly f.num = C n0 * prodRoots zeros)
    (hpoles : toPoly f.den = C d0 * prodRoots poles)
    (hclose : ∀ z ∈ zeros, ∀ p ∈ poles, close z p = true → z = p) :
    ∃ g, minrealEntry close f zeros poles = .ok g ∧ g.WF ∧ g.sem = f.sem := by
  have hc := cancelRoots_spec_on close zeros poles hclose
  set r := cancelRoots close zeros poles with hr
  refine ⟨Frac.norm ⟨scale (n0 / d0) (polyFromRoots r.1), polyFromRoots r.2⟩, ?_, ?_, ?_⟩
  · simp [minrealEntry, hn, hd, hd0, ← hr, pure, Except.pure]
  · apply Frac.wf_norm
    simp only [Frac.WF, toPoly_polyFromRoots]
    exact prodRoots_ne_zero _
  · rw [Frac.sem_norm]
    simp only [Frac.sem, toPoly_scale, toPoly_polyFromRoots, hzeros, hpoles]
    have h2 : ι' (prodRoots r.2) ≠ 0 := ι'_ne_zero (prodRoots_ne_zero _)
    have h3 : ι' (C d0 * prodRoots poles) ≠ 0 :=
      ι'_ne_zero (mul_ne_zero (by simpa using hd0) (prodRoots_ne_zero _))
    rw [div_eq_div_iff h2 h3, ← ι'_mul, ← ι'_mul]
    congr 1
    have hC : (C (n0 / d0) : K[X]) * C d0 = C n0 := by
      rw [← C_mul, div_mul_cancel₀ _ hd0]
    linear_combination (prodRoots r.1 * prodRoots poles) * hC - C n0 * hc

end CtrlVerif
