/-
Symbolic evaluation of the primitives of `Model/PyTR.lean` (1-D arrays, signals stored by columns,
external functions on square matrices) on arrays whose sizes fit, and the two facts about the
continuous-time blocks of `forced_response` that the equality proofs `Props/C06Gen*.lean` need:
the `np.block` expression of the source is the model's `fohMFin` (re-typed), and the three slices of
`expM` are the model's `fohBlocksFin`.  Helper lemmas, free to change.
-/
import CtrlVerif.Model.PyTR
import CtrlVerif.Lemmas.PyMat
import CtrlVerif.Lemmas.PyArith
import CtrlVerif.Lemmas.TimeResp
import CtrlVerif.Props.C06

namespace CtrlVerif

open Matrix

namespace PVec
variable {K : Type} [Field K]

@[simp] theorem retype_rfl {n : Nat} (v : Fin n → K) (h : n = n) : retype h v = v := rfl

@[simp] theorem add_mk (n : Nat) (u v : Fin n → K) : add ⟨n, u⟩ ⟨n, v⟩ = .ok ⟨n, u + v⟩ := by
  simp [add]

end PVec

namespace PMat
variable {K : Type} [Field K]

@[simp] theorem matvec_mk (r c : Nat) (M : Matrix (Fin r) (Fin c) K) (v : Fin c → K) :
    matvec ⟨r, c, M⟩ ⟨c, v⟩ = .ok ⟨r, M *ᵥ v⟩ := by
  simp [matvec]

@[simp] theorem matsig_mk (r c : Nat) (M : Matrix (Fin r) (Fin c) K) (cols : List (Fin c → K)) :
    matsig ⟨r, c, M⟩ ⟨c, cols⟩ = .ok ⟨r, cols.map fun v => M *ᵥ v⟩ := by
  simp [matsig]

@[simp] theorem identity_def (n : Nat) : (identity n : PMat K) = ⟨n, n, 1⟩ := rfl

@[simp] theorem applySq_mk (f : SqFun K) (n : Nat) (M : Matrix (Fin n) (Fin n) K) :
    applySq f ⟨n, n, M⟩ = .ok ⟨n, n, f n M⟩ := by
  simp [applySq]

theorem vcat_ok (X Y : PMat K) (h : Y.c = X.c) :
    vcat X Y = .ok ⟨X.r + Y.r, X.c, (fromRows X.M (retype rfl h Y.M)).submatrix finSumFinEquiv.symm id⟩ :=
  dif_pos h

theorem retype_zero {r c r' c' : Nat} (hr : r = r') (hc : c = c') :
    retype hr hc (0 : Matrix (Fin r) (Fin c) K) = 0 := by
  subst hr hc; rfl

end PMat

namespace PSig
variable {K : Type} [Field K]

@[simp] theorem zeros_def (r k : Nat) : (zeros r k : PSig K) = ⟨r, List.replicate k 0⟩ := rfl

theorem getCol_nat (r : Nat) (cols : List (Fin r → K)) {i : Nat} (h : i < cols.length) :
    getCol ⟨r, cols⟩ (i : Int) = .ok ⟨r, cols[i]⟩ := by
  simp [getCol, PyArith.getItem_nat _ h]

theorem setCol_nat (r : Nat) (cols : List (Fin r → K)) {i : Nat} (h : i < cols.length) (v : Fin r → K) :
    setCol ⟨r, cols⟩ (i : Int) ⟨r, v⟩ = .ok ⟨r, cols.set i v⟩ := by
  simp [setCol, PyArith.normIdx_nat h]

@[simp] theorem add_mk (r : Nat) (xs ys : List (Fin r → K)) (h : ys.length = xs.length) :
    add ⟨r, xs⟩ ⟨r, ys⟩ = .ok ⟨r, List.zipWith (fun a b => a + b) xs ys⟩ := by
  simp [add, h]

end PSig

/-! ### the matrix handed to `expm` and the slices of the result -/

section foh
open TimeResp
variable {K : Type} [Field K]



theorem cast3_1 (n m : Nat) (h : n + (m + m) = n + m + m) (i : Fin n) :
    Fin.cast h (Fin.castAdd (m + m) i) = Fin.castAdd m (Fin.castAdd m i) := by ext; simp
theorem cast3_2 (n m : Nat) (h : n + (m + m) = n + m + m) (j : Fin m) :
    Fin.cast h (Fin.natAdd n (Fin.castAdd m j)) = Fin.castAdd m (Fin.natAdd n j) := by ext; simp
theorem cast3_3 (n m : Nat) (h : n + (m + m) = n + m + m) (j : Fin m) :
    Fin.cast h (Fin.natAdd n (Fin.natAdd m j)) = Fin.natAdd (n + m) j := by ext; simp; omega

theorem eFoh_symm_1 (n m : Nat) (i : Fin n) :
    (eFoh n m).symm (Fin.castAdd m (Fin.castAdd m i)) = Sum.inl (Sum.inl i) := by
  simp [eFoh]
theorem eFoh_symm_2 (n m : Nat) (j : Fin m) :
    (eFoh n m).symm (Fin.castAdd m (Fin.natAdd n j)) = Sum.inl (Sum.inr j) := by
  simp [eFoh]
theorem eFoh_symm_3 (n m : Nat) (j : Fin m) :
    (eFoh n m).symm (Fin.natAdd (n + m) j) = Sum.inr j := by
  simp [eFoh]

theorem block_foh (n m : Nat) (X : Matrix (Fin n) (Fin n) K) (Y : Matrix (Fin n) (Fin m) K) :
    PMat.block [[⟨n, n, X⟩, ⟨n, m, Y⟩, ⟨n, m, 0⟩], [⟨m, n + m, 0⟩, ⟨m, m, 1⟩], [⟨m, n + 2 * m, 0⟩]]
      = .ok ⟨n + (m + m), n + (m + m),
          ((fromBlocks (fromBlocks X Y 0 0) (fromRows 0 1) 0 0).submatrix (eFoh n m).symm (eFoh n m).symm).submatrix
            (Fin.cast (Nat.add_assoc n m m).symm) (Fin.cast (Nat.add_assoc n m m).symm)⟩ := by
  simp only [PMat.block, PMat.hcatList, PMat.vcatList, List.mapM_cons, List.mapM_nil, bind, pure, Except.pure,
    PMat.hcat_mk, Except.bind]
  rw [PMat.vcat_ok _ _ (by simp; omega)]
  simp only []
  rw [PMat.vcat_ok _ _ (by simp; omega)]
  simp only [PMat.retype_zero]
  refine congrArg Except.ok (PMat.ext' rfl rfl ?_)
  simp only [PMat.retype_rfl]
  ext i j
  refine Fin.addCases (fun i => ?_) (fun i => Fin.addCases (fun i => ?_) (fun i => ?_) i) i <;>
  refine Fin.addCases (fun j => ?_) (fun j => Fin.addCases (fun j => ?_) (fun j => ?_) j) j <;>
  simp only [submatrix_apply, cast3_1, cast3_2, cast3_3, eFoh_symm_1, eFoh_symm_2, eFoh_symm_3, PMat.retype,
    finSumFinEquiv_symm_apply_castAdd, finSumFinEquiv_symm_apply_natAdd, fromRows_apply_inl, fromRows_apply_inr,
    fromCols_apply_inl, fromCols_apply_inr, fromBlocks_apply₁₁, fromBlocks_apply₁₂, fromBlocks_apply₂₁,
    fromBlocks_apply₂₂, id, Matrix.zero_apply, Fin.cast_eq_self]

/-- the same with the widths of the zero blocks given by their VALUES (side conditions for `omega`). -/
theorem block_foh' (n m c2 c3 : Nat) (h2 : c2 = n + m) (h3 : c3 = n + m + m) (X : Matrix (Fin n) (Fin n) K)
    (Y : Matrix (Fin n) (Fin m) K) :
    PMat.block [[⟨n, n, X⟩, ⟨n, m, Y⟩, ⟨n, m, 0⟩], [⟨m, c2, 0⟩, ⟨m, m, 1⟩], [⟨m, c3, 0⟩]]
      = .ok ⟨n + (m + m), n + (m + m),
          ((fromBlocks (fromBlocks X Y 0 0) (fromRows 0 1) 0 0).submatrix (eFoh n m).symm (eFoh n m).symm).submatrix
            (Fin.cast (Nat.add_assoc n m m).symm) (Fin.cast (Nat.add_assoc n m m).symm)⟩ := by
  subst h2
  have : c3 = n + 2 * m := by omega
  subst this
  exact block_foh n m X Y

theorem SqFun.cast_nat (f : SqFun K) {k k' : Nat} (h : k' = k) (M : Matrix (Fin k) (Fin k) K) :
    f k' (M.submatrix (Fin.cast h) (Fin.cast h)) = (f k M).submatrix (Fin.cast h) (Fin.cast h) := by
  subst h; rfl

namespace PMat

theorem sliceRows_top (N c n : Nat) (M : Matrix (Fin N) (Fin c) K) (hi : Int) (h : hi = (n : Int)) (hn : n ≤ N) :
    sliceRows ⟨N, c, M⟩ none (some hi) = ⟨n, c, M.submatrix (fun i : Fin n => ⟨0 + i.val, by omega⟩) id⟩ :=
  sliceRows_bounds N c M _ _ 0 n (by omega) rfl (by rw [sb_int N N hi n h hn]; omega)

theorem sliceCols_int (r w : Nat) (M : Matrix (Fin r) (Fin w) K) (lo hi : Int) (a k : Nat)
    (hlo : lo = (a : Int)) (hhi : hi = (a : Int) + (k : Int)) (hw : a + k ≤ w) :
    sliceCols ⟨r, w, M⟩ (some lo) (some hi) = ⟨r, k, M.submatrix id (fun j : Fin k => ⟨a + j.val, by omega⟩)⟩ :=
  sliceCols_bounds r w M _ _ a k hw (sb_int w 0 lo a hlo (by omega)) (sb_int w w hi (a + k) (by omega) hw)

theorem sliceCols_left (r w : Nat) (M : Matrix (Fin r) (Fin w) K) (hi : Int) (k : Nat)
    (hhi : hi = (k : Int)) (hw : k ≤ w) :
    sliceCols ⟨r, w, M⟩ none (some hi) = ⟨r, k, M.submatrix id (fun j : Fin k => ⟨0 + j.val, by omega⟩)⟩ :=
  sliceCols_bounds r w M _ _ 0 k (by omega) rfl (by rw [sb_int w w hi k hhi hw]; omega)

theorem sliceCols_right (r w : Nat) (M : Matrix (Fin r) (Fin w) K) (lo : Int) (a k : Nat)
    (hlo : lo = (a : Int)) (hw : a + k = w) :
    sliceCols ⟨r, w, M⟩ (some lo) none = ⟨r, k, M.submatrix id (fun j : Fin k => ⟨a + j.val, by omega⟩)⟩ :=
  sliceCols_bounds r w M _ _ a k (by omega) (sb_int w 0 lo a hlo (by omega)) (by simp; omega)

end PMat

/-- the three slices of `expM` are the model's blocks. -/
theorem foh_slices (n m : Nat) (E : Matrix (Fin (n + m + m)) (Fin (n + m + m)) K)
    (a b c d e : Int) (ha : a = n) (hb : b = n) (hc : c = (n : Int) + m) (hd : d = n) (he : e = (n : Int) + m) :
    let X : PMat K := PMat.sliceRows ⟨n + (m + m), n + (m + m),
      E.submatrix (Fin.cast (Nat.add_assoc n m m).symm) (Fin.cast (Nat.add_assoc n m m).symm)⟩ none (some a)
    PMat.sliceCols X none (some b) = ⟨n, n, fohAd (E.submatrix (eFoh n m) (eFoh n m))⟩ ∧
    PMat.sliceCols X (some c) none = ⟨n, m, fohBd1 (E.submatrix (eFoh n m) (eFoh n m))⟩ ∧
    PMat.sliceCols X (some d) (some e) = ⟨n, m, fohMid (E.submatrix (eFoh n m) (eFoh n m))⟩ := by
  intro X
  have hX : X = _ := PMat.sliceRows_top _ _ n _ a ha (by omega)
  rw [hX]
  refine ⟨?_, ?_, ?_⟩
  · rw [PMat.sliceCols_left _ _ _ b n hb (by omega)]
    congr 1
    ext i j
    simp only [fohAd, toBlocks₁₁, submatrix_apply, of_apply, id]
    congr 1 <;> ext <;> simp [eFoh_state]
  · rw [PMat.sliceCols_right _ _ _ c (n + m) m (by omega) (by omega)]
    congr 1
    ext i j
    simp only [fohBd1, toBlocks₁₂, submatrix_apply, of_apply, id]
    congr 1 <;> ext <;> simp [eFoh_state, eFoh_last]
  · rw [PMat.sliceCols_int _ _ _ d e n m hd (by omega) (by omega)]
    congr 1
    ext i j
    simp only [fohMid, toBlocks₁₁, toBlocks₁₂, submatrix_apply, of_apply, id]
    congr 1 <;> ext <;> simp [eFoh_state, eFoh_mid]


section
variable (n m : Nat) (E : Matrix (Fin (n + m + m)) (Fin (n + m + m)) K)

/-- `expM[:a, :b]` with `a = b = n`. -/
theorem foh_slice_Ad (a b : Int) (ha : a = n) (hb : b = n) :
    PMat.sliceCols (PMat.sliceRows ⟨n + (m + m), n + (m + m),
      E.submatrix (Fin.cast (Nat.add_assoc n m m).symm) (Fin.cast (Nat.add_assoc n m m).symm)⟩ none (some a))
      none (some b) = ⟨n, n, fohAd (E.submatrix (eFoh n m) (eFoh n m))⟩ :=
  (foh_slices n m E a b ((n : Int) + m) n ((n : Int) + m) ha hb rfl rfl rfl).1

/-- `expM[:a, c:]` with `a = n`, `c = n + m`. -/
theorem foh_slice_Bd1 (a c : Int) (ha : a = n) (hc : c = (n : Int) + m) :
    PMat.sliceCols (PMat.sliceRows ⟨n + (m + m), n + (m + m),
      E.submatrix (Fin.cast (Nat.add_assoc n m m).symm) (Fin.cast (Nat.add_assoc n m m).symm)⟩ none (some a))
      (some c) none = ⟨n, m, fohBd1 (E.submatrix (eFoh n m) (eFoh n m))⟩ :=
  (foh_slices n m E a n c n ((n : Int) + m) ha rfl hc rfl rfl).2.1

/-- `expM[:a, d:e]` with `a = d = n`, `e = n + m`. -/
theorem foh_slice_mid (a d e : Int) (ha : a = n) (hd : d = n) (he : e = (n : Int) + m) :
    PMat.sliceCols (PMat.sliceRows ⟨n + (m + m), n + (m + m),
      E.submatrix (Fin.cast (Nat.add_assoc n m m).symm) (Fin.cast (Nat.add_assoc n m m).symm)⟩ none (some a))
      (some d) (some e) = ⟨n, m, fohMid (E.submatrix (eFoh n m) (eFoh n m))⟩ :=
  (foh_slices n m E a n ((n : Int) + m) d e ha rfl rfl hd he).2.2

end

end foh

/-! ### loops that fill a trajectory column by column -/

section loops
variable {K : Type} [Field K]


/-- the array of a trajectory that is filled up to (excluding) position `a`: the first `a` columns of
`L`, zeros afterwards. -/
def PSig.partial (n : Nat) (L : List (Fin n → K)) (a : Nat) : PSig K :=
  ⟨n, L.take a ++ List.replicate (L.length - a) 0⟩

theorem PSig.partial_getCol (n : Nat) (L : List (Fin n → K)) (a j : Nat) (hj : j < a) (ha : a ≤ L.length)
    (i : Int) (hi : i = (j : Int)) :
    PSig.getCol (PSig.partial n L a) i = .ok ⟨n, L[j]⟩ := by
  subst hi
  unfold PSig.partial
  rw [PSig.getCol_nat _ _ (by simp; omega)]
  congr 2
  rw [List.getElem_append_left (by simp; omega)]
  simp

theorem PSig.partial_setCol (n : Nat) (L : List (Fin n → K)) (a : Nat) (ha : a < L.length)
    (i : Int) (hi : i = (a : Int)) (v : Fin n → K) (hv : v = L[a]) :
    PSig.setCol (PSig.partial n L a) i ⟨n, v⟩ = .ok (PSig.partial n L (a + 1)) := by
  subst hi hv
  unfold PSig.partial
  rw [PSig.setCol_nat _ _ (by simp; omega)]
  congr 2
  apply List.ext_getElem
  · simp; omega
  · intro k h1 h2
    simp only [List.getElem_set, List.getElem_append, List.length_take, List.getElem_take, List.getElem_replicate]
    by_cases hk : a = k
    · subst hk; simp [ha]
    · simp only [hk, if_false]
      by_cases hk2 : k < a
      · have : k < min a L.length := by omega
        have : k < min (a + 1) L.length := by omega
        simp [*]
        intro h; omega
      · have : ¬ k < min a L.length := by omega
        have : ¬ k < min (a + 1) L.length := by omega
        simp [*]
        intro h; omega

theorem PSig.partial_full (n : Nat) (L : List (Fin n → K)) : PSig.partial n L L.length = ⟨n, L⟩ := by
  simp [PSig.partial]

theorem PSig.partial_one (n : Nat) (L : List (Fin n → K)) (h : 0 < L.length) :
    PSig.setCol (PSig.zeros n L.length) (0 : Int) ⟨n, L[0]⟩ = .ok (PSig.partial n L 1) := by
  have := PSig.partial_setCol n L 0 h 0 rfl L[0] rfl
  simpa [PSig.partial] using this

/-- a `for i in range(1, k)` loop that fills a trajectory column by column. -/
theorem foldlM_fill (n : Nat) (L : List (Fin n → K)) (f : PSig K → Int → Except Err (PSig K))
    (step : ∀ j, j + 1 < L.length →
      f (PSig.partial n L (j + 1)) (((j + 1 : Nat) : Int)) = .ok (PSig.partial n L (j + 2)))
    (h : 0 < L.length) (hi : Int) (hhi : hi = (L.length : Int)) :
    List.foldlM f (PSig.partial n L 1) (PyArith.range 1 hi) = .ok ⟨n, L⟩ := by
  subst hhi
  have key : ∀ q, q + 1 ≤ L.length →
      List.foldlM f (PSig.partial n L 1) ((List.range q).map fun (j : Nat) => ((j + 1 : Nat) : Int))
        = .ok (PSig.partial n L (q + 1)) := by
    intro q
    induction q with
    | zero => intro _; rfl
    | succ q ih =>
      intro hq
      rw [List.range_succ, List.map_append, List.foldlM_append, ih (by omega)]
      simp only [List.map_cons, List.map_nil, List.foldlM_cons, List.foldlM_nil, bind, Except.bind]
      rw [step q (by omega)]
      rfl
  obtain ⟨p, hp⟩ : ∃ p, L.length = p + 1 := ⟨L.length - 1, by omega⟩
  have hr : PyArith.range 1 (L.length : Int) = (List.range p).map fun (j : Nat) => ((j + 1 : Nat) : Int) := by
    rw [hp]
    have := PyArith.range_one_succ p
    push_cast at this ⊢
    exact this
  rw [hr, key p (by omega), ← hp, PSig.partial_full]

section free
open TimeResp
variable {σ : Type} [Fintype σ]
theorem freeStates_getElem_zero' (E : Matrix σ σ K) (x : σ → K) (k : Nat) (h : 0 < (freeStates E x k).length) :
    (freeStates E x k)[0] = x := by
  cases k with
  | zero => simp [freeStates] at h
  | succ k => simp [freeStates]

theorem freeStates_getElem_succ' (E : Matrix σ σ K) (x : σ → K) (k j : Nat)
    (h : j + 1 < (freeStates E x k).length) :
    (freeStates E x k)[j + 1] = E *ᵥ ((freeStates E x k)[j]'(by omega)) := by
  induction k generalizing x j with
  | zero => simp [freeStates] at h
  | succ k ih =>
    cases j with
    | zero =>
      simp only [freeStates, List.getElem_cons_succ, List.getElem_cons_zero]
      exact freeStates_getElem_zero' _ _ _ _
    | succ j =>
      simp only [freeStates, List.getElem_cons_succ]
      exact ih _ j (by simp [freeStates] at h ⊢; omega)
end free

end loops

/-! ### the discrete-time branch: extended slices, rounding, the float remainder, the call of `dlsim` -/

namespace PyTR
open TimeResp

theorem decimateAux_drop {α : Type} (inc c : Nat) (l : List α) :
    decimateAux inc c l = decimateAux inc 0 (l.drop c) := by
  induction l generalizing c with
  | nil => simp [decimateAux]
  | cons a l ih =>
    cases c with
    | zero => rfl
    | succ c => simp only [decimateAux, List.drop_succ_cons]; exact ih c

theorem everyNth_eq_decimate {α : Type} (k : Nat) (l : List α) : everyNth k l = decimate k l := by
  unfold decimate
  induction h : l.length using Nat.strong_induction_on generalizing l with
  | _ n ih =>
    cases l with
    | nil => simp [everyNth, decimateAux]
    | cons a l =>
      rw [everyNth, decimateAux, decimateAux_drop]
      congr 1
      exact ih _ (by subst h; simp) _ rfl

theorem stepSlice_pos {α : Type} (l : List α) (k : Nat) (hk : 1 ≤ k) :
    stepSlice l (k : Int) = .ok (decimate k l) := by
  have h1 : ¬ (k = 0) := by omega
  have h2 : 0 < k := by omega
  simp [stepSlice, h1, h2, everyNth_eq_decimate]

theorem floor_natCast_q (k : Nat) : ⌊(k : ℚ)⌋ = (k : Int) := Int.floor_natCast k

theorem roundInt_natCast (k : Nat) : roundInt (k : ℚ) = (k : Int) := by
  simp [roundInt]

theorem floorInt_natCast (k : Nat) : floorInt (k : ℚ) = (k : Int) := by
  simp [floorInt]

theorem grid_of_gridStep_q (T : List ℚ) (dt : ℚ) (h : gridStep T = .ok dt) :
    ∃ t0, PyArith.getItem T 0 = .ok t0 ∧
      subNum T t0 = (List.range T.length).map fun (j : Nat) => (j : ℚ) * dt := by
  obtain ⟨h2, hstep⟩ := C06.gridStep_ok T dt h
  refine ⟨T[0], PyArith.getItem_zero T (by omega), ?_⟩
  have key : ∀ k (hk : k < T.length), T[k] = T[0] + k * dt := by
    intro k
    induction k with
    | zero => intro _; simp
    | succ k ih =>
      intro hk
      have := hstep k hk
      rw [ih (by omega)] at this
      push_cast
      linarith
  apply List.ext_getElem
  · simp [subNum]
  · intro k h1 h2
    simp only [subNum, List.getElem_map, List.getElem_range]
    rw [key k (by simpa [subNum] using h1)]
    ring

theorem fmod_pos (a b : ℚ) (hb : 0 < b) : fmod a b = .ok (a - b * ((⌊a / b⌋ : Int) : ℚ)) := by
  simp [fmod, hb.ne']

theorem fmod_val_ne (a b : ℚ) (hb : 0 < b) : a - b * ((⌊a / b⌋ : Int) : ℚ) ≠ b := by
  intro h
  have h2 : a / b = ((⌊a / b⌋ + 1 : Int) : ℚ) := by
    push_cast
    field_simp
    linarith
  have h3 : ⌊a / b⌋ = ⌊a / b⌋ + 1 := by
    conv_lhs => rw [h2, Int.floor_intCast]
  omega

theorem fmod_val_zero_iff (a b : ℚ) (hb : 0 < b) : a - b * ((⌊a / b⌋ : Int) : ℚ) = 0 ↔ (a / b).den = 1 := by
  constructor
  · intro h
    have : a / b = ((⌊a / b⌋ : Int) : ℚ) := by
      field_simp
      linarith
    rw [this]
    simp
  · intro h
    have : ((a / b).num : ℚ) = a / b := Rat.coe_int_num_of_den_eq_one h
    rw [← this, Int.floor_intCast, this]
    field_simp
    ring

theorem callDlsim_mk (f : DlsimFun ℚ) (n m p : Nat) (A : Matrix (Fin n) (Fin n) ℚ) (B : Matrix (Fin n) (Fin m) ℚ)
    (C : Matrix (Fin p) (Fin n) ℚ) (D : Matrix (Fin p) (Fin m) ℚ) (dt : ℚ) (us : List (Fin m → ℚ)) (t : List ℚ)
    (x0 : Fin n → ℚ) :
    callDlsim f ⟨n, n, A⟩ ⟨n, m, B⟩ ⟨p, n, C⟩ ⟨p, m, D⟩ dt ⟨m, us⟩ t ⟨n, x0⟩ =
      (f n m p ⟨A, B, C, D⟩ dt us t x0).map fun r => (r.1, ⟨p, r.2.1⟩, ⟨n, r.2.2⟩) := by
  have hid : ∀ (h : m = m), PVec.retype (K := ℚ) h = id := fun _ => rfl
  unfold callDlsim
  split
  · simp only [PMat.retype_rfl, PVec.retype_rfl, hid, List.map_id]
    cases f n m p ⟨A, B, C, D⟩ dt us t x0 <;> rfl
  · rename_i h
    exact absurd ⟨rfl, rfl, rfl, rfl, rfl, rfl, rfl⟩ h

theorem callDlsim_sys (f : DlsimFun ℚ) (G : DSS ℚ) (dt : ℚ) (us : List (Fin G.m → ℚ)) (t : List ℚ)
    (x0 : Fin G.n → ℚ) :
    callDlsim f (PySS.A G) (PySS.B G) (PySS.C G) (PySS.D G) dt ⟨G.m, us⟩ t ⟨G.n, x0⟩ =
      (f G.n G.m G.p G.sys dt us t x0).map fun r => (r.1, ⟨G.p, r.2.1⟩, ⟨G.n, r.2.2⟩) := by
  obtain ⟨n, p, m, ⟨A, B, C, D⟩, dtG⟩ := G
  exact callDlsim_mk f n m p A B C D dt us t x0

end PyTR

/-! ### small facts used by `Props/C06GenGrid.lean` / `C06GenDisc.lean` -/

namespace C06Gen
open TimeResp

theorem allclose_diff (dt : ℚ) (T : List ℚ) : PyTR.allclose (PyTR.diff T) dt = equallySpaced dt T := by
  induction T with
  | nil => rfl
  | cons a T ih =>
    cases T with
    | nil => rfl
    | cons b rest =>
      simp only [PyTR.diff, equallySpaced, PyTR.allclose, List.all_cons] at ih ⊢
      rw [ih]

theorem getItem_neg_one_getLast {α : Type} (l : List α) (h : l ≠ []) :
    PyArith.getItem l (-1) = .ok (l.getLast h) := by
  have hl : 0 < l.length := List.length_pos_iff.mpr h
  simp only [PyArith.getItem, PyArith.normIdx_neg_one hl]
  rw [List.getElem?_eq_getElem (by omega)]
  simp [List.getLast_eq_getElem]

theorem setCol_zeros_ok (n k : Nat) (hk : 0 < k) (x0 : Fin n → ℚ) :
    ∃ X, PSig.setCol (PSig.zeros n k) (0 : Int) ⟨n, x0⟩ = .ok X := by
  have := PSig.setCol_nat n (List.replicate k (0 : Fin n → ℚ)) (i := 0) (by simpa using hk) x0
  exact ⟨_, this⟩

theorem fmod_mul (inc : Nat) (h : ℚ) (h0 : 0 < h) : PyTR.fmod ((inc : ℚ) * h) h = .ok 0 := by
  rw [PyTR.fmod_pos _ _ h0, mul_div_cancel_right₀ _ h0.ne', Int.floor_natCast]
  congr 1
  push_cast
  ring

theorem div_mul (inc : Nat) (h : ℚ) (h0 : 0 < h) : PyArith.div ((inc : ℚ) * h) h = .ok (inc : ℚ) := by
  rw [PyArith.div_ok _ h0.ne', mul_div_cancel_right₀ _ h0.ne']

theorem getItem_last_map_range (f : Nat → ℚ) (k : Nat) (hk : 0 < k) :
    PyArith.getItem ((List.range k).map f) (-1) = .ok (f (k - 1)) := by
  rw [getItem_neg_one_getLast _ (by simp; omega)]
  congr 1
  rw [List.getLast_eq_getElem]
  simp

theorem stepRows_pos (w : Nat) (l : List (Fin w → ℚ)) (k : Nat) (hk : 1 ≤ k) :
    PSigT.stepRows ⟨w, l⟩ (k : Int) = .ok ⟨w, decimate k l⟩ := by
  simp [PSigT.stepRows, PyTR.stepSlice_pos l k hk]

end C06Gen

end CtrlVerif
