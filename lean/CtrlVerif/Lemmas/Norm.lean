/-
Helper lemmas for C16 (system norms): the two `while` loops of the L∞ computation.
-/
import CtrlVerif.Model.Norm
import CtrlVerif.Lemmas.SS
import Mathlib.Tactic.Linarith
import Mathlib.Tactic.FieldSimp
import Mathlib.Tactic.Positivity
import Mathlib.LinearAlgebra.Matrix.SchurComplement
import Mathlib.Tactic.Module

namespace CtrlVerif.Norm

open Matrix

variable {K : Type} [Field K] [LinearOrder K] [IsStrictOrderedRing K]

/-- the doubling loop: the value it returns fails the test, is `2^k` times the start value, and
all earlier candidates passed the test. -/
theorem upperLoop_spec (test : K → Except Err Bool) :
    ∀ (fuel : Nat) (u0 u : K), upperLoop test fuel u0 = .ok (some u) →
      test u = .ok false ∧ ∃ k : ℕ, u = 2 ^ k * u0 ∧ ∀ j < k, test (2 ^ j * u0) = .ok true := by
  intro fuel
  induction fuel with
  | zero => intro u0 u h; simp [upperLoop] at h
  | succ f ih =>
    intro u0 u h
    unfold upperLoop at h
    cases ht : test u0 with
    | error e => rw [ht] at h; simp at h
    | ok b =>
      rw [ht] at h
      cases b with
      | false =>
        simp only [Except.ok.injEq, Option.some.injEq] at h
        subst h
        exact ⟨ht, 0, by simp, by simp⟩
      | true =>
        simp only at h
        obtain ⟨h1, k, hk, hj⟩ := ih (2 * u0) u h
        refine ⟨h1, k + 1, by rw [hk]; ring, ?_⟩
        intro j hjk
        cases j with
        | zero => simpa using ht
        | succ j =>
          have := hj j (by omega)
          rw [← this]; congr 1; ring

/-- the bisection loop keeps `gaml ≤ γ* < gamu`, only shrinks the interval, stops with
`(gamu − gaml)/gamu ≤ tol`, and returns one of the two end points — provided the test is the
threshold test at `γ*` above the initial lower bound `l0`. -/
theorem bisectLoop_spec (test : K → Except Err Bool) (tol γs l0 : K)
    (htest : ∀ γ, l0 < γ → test γ = .ok (decide (γ ≤ γs))) :
    ∀ (fuel : Nat) (g : Option K) (l u g' l' u' : K), l0 ≤ l → l ≤ γs → γs < u →
      (g = none ∨ g = some l ∨ g = some u) →
      bisectLoop test tol fuel g l u = .ok (some (g', l', u')) →
      l ≤ l' ∧ u' ≤ u ∧ l' ≤ γs ∧ γs < u' ∧ (u' - l') / u' ≤ tol ∧ (g' = l' ∨ g' = u') := by
  intro fuel
  induction fuel with
  | zero => intro g l u g' l' u' _ _ _ _ h; simp [bisectLoop] at h
  | succ f ih =>
    intro g l u g' l' u' h0 hl hu hg h
    unfold bisectLoop at h
    have hlu : l < u := lt_of_le_of_lt hl hu
    by_cases hc : tol < (u - l) / u
    · rw [if_pos hc] at h
      have hm1 : l < (u + l) / 2 := by linarith
      have hm2 : (u + l) / 2 < u := by linarith
      rw [htest _ (lt_of_le_of_lt h0 hm1)] at h
      by_cases hle : (u + l) / 2 ≤ γs
      · simp only [hle, decide_true] at h
        obtain ⟨a, b, c, d, e, f'⟩ := ih _ _ _ g' l' u' (le_of_lt (lt_of_le_of_lt h0 hm1)) hle hu
          (Or.inr (Or.inl rfl)) h
        exact ⟨le_trans (le_of_lt hm1) a, b, c, d, e, f'⟩
      · simp only [hle, decide_false] at h
        obtain ⟨a, b, c, d, e, f'⟩ := ih _ _ _ g' l' u' h0 hl (not_le.mp hle)
          (Or.inr (Or.inr rfl)) h
        exact ⟨a, le_trans b (le_of_lt hm2), c, d, e, f'⟩
    · rw [if_neg hc] at h
      rcases hg with rfl | rfl | rfl
      · simp at h
      · simp only [Except.ok.injEq, Option.some.injEq, Prod.mk.injEq] at h
        obtain ⟨rfl, rfl, rfl⟩ := h
        exact ⟨le_refl _, le_refl _, hl, hu, not_lt.mp hc, Or.inl rfl⟩
      · simp only [Except.ok.injEq, Option.some.injEq, Prod.mk.injEq] at h
        obtain ⟨rfl, rfl, rfl⟩ := h
        exact ⟨le_refl _, le_refl _, hl, hu, not_lt.mp hc, Or.inr rfl⟩

/-- the start value of the doubling loop is above the lower bound. -/
theorem lt_max_one_two_mul {a : K} (h : 0 ≤ a) : a < max 1 (2 * a) := by
  rcases eq_or_lt_of_le h with rfl | hpos
  · simp
  · exact lt_of_lt_of_le (by linarith) (le_max_right _ _)

/-- both loops together: if the eigenvalue test is the threshold test at `γ*` (above `gaml`) and
`0 ≤ gaml ≤ γ*`, a returned value `g` satisfies `(1 − tol) γ* ≤ g` and `(1 − tol) g ≤ γ*`. -/
theorem linfLoops_spec (test : K → Except Err Bool) (tol γs gaml : K) (fuel : Nat) (g : K)
    (h0 : 0 ≤ gaml) (hs : gaml ≤ γs) (htol0 : 0 ≤ tol) (htol1 : tol ≤ 1)
    (htest : ∀ γ, gaml < γ → test γ = .ok (decide (γ ≤ γs)))
    (h : linfLoops test tol gaml fuel = .ok (.val g)) :
    gaml ≤ g ∧ (1 - tol) * γs ≤ g ∧ (1 - tol) * g ≤ γs := by
  unfold linfLoops at h
  cases hu : upperLoop test fuel (max 1 (2 * gaml)) with
  | error e => rw [hu] at h; simp at h
  | ok r =>
    rw [hu] at h
    cases r with
    | none => simp at h
    | some gamu =>
      simp only at h
      obtain ⟨hf, k, hk, _⟩ := upperLoop_spec test fuel _ _ hu
      have hpow : (1 : K) ≤ 2 ^ k := one_le_pow₀ (by norm_num)
      have hm : gaml < max 1 (2 * gaml) := lt_max_one_two_mul h0
      have hmpos : 0 < max 1 (2 * gaml) := lt_of_le_of_lt h0 hm
      have hgu : gaml < gamu := by
        rw [hk]
        calc gaml < max 1 (2 * gaml) := hm
          _ = 1 * max 1 (2 * gaml) := (one_mul _).symm
          _ ≤ 2 ^ k * max 1 (2 * gaml) := by gcongr
      have hsu : γs < gamu := by
        have := htest gamu hgu
        rw [hf] at this
        simp only [Except.ok.injEq] at this
        by_contra hc
        have hle : gamu ≤ γs := not_lt.mp hc
        simp [hle] at this
      cases hb : bisectLoop test tol fuel none gaml gamu with
      | error e => rw [hb] at h; simp at h
      | ok r =>
        rw [hb] at h
        cases r with
        | none => simp at h
        | some t =>
          obtain ⟨g', l', u'⟩ := t
          simp only [Except.ok.injEq, LinfVal.val.injEq] at h
          subst h
          obtain ⟨hl, _, hls, hsu', hr, hg⟩ :=
            bisectLoop_spec test tol γs gaml htest fuel none gaml gamu g' l' u' (le_refl _) hs hsu
              (Or.inl rfl) hb
          have hγ0 : 0 ≤ γs := le_trans h0 hs
          have hu'pos : 0 < u' := lt_of_le_of_lt hγ0 hsu'
          have hl'0 : 0 ≤ l' := le_trans h0 hl
          have hw : u' - l' ≤ tol * u' := by
            have := (div_le_iff₀ hu'pos).mp hr
            linarith
          rcases hg with rfl | rfl
          · refine ⟨hl, ?_, ?_⟩
            · nlinarith
            · nlinarith
          · refine ⟨le_trans hl (le_of_lt (lt_of_le_of_lt hls hsu')), ?_, ?_⟩
            · nlinarith
            · nlinarith

end CtrlVerif.Norm

/-! ### the Hamiltonian matrix -/

namespace CtrlVerif.Norm

open Matrix SS

section Ham
variable {K : Type} [Field K]
variable {σ ι o : Type} [Fintype σ] [DecidableEq σ] [Fintype ι] [DecidableEq ι] [Fintype o]
  [DecidableEq o]

theorem Rmat_transpose (G : SS σ ι o K) (γ : K) : (Rmat G γ)ᵀ = Rmat G γ := by
  simp [Rmat, Matrix.transpose_sub, Matrix.transpose_smul, Matrix.transpose_mul]

theorem Ri_symm (G : SS σ ι o K) (γ : K) (Ri : Matrix ι ι K) (hR : Rmat G γ * Ri = 1) :
    Riᵀ = Ri := by
  have h1 : Riᵀ * Rmat G γ = 1 := by
    have := congrArg Matrix.transpose hR
    rwa [Matrix.transpose_mul, Rmat_transpose, Matrix.transpose_one] at this
  calc Riᵀ = Riᵀ * (Rmat G γ * Ri) := by rw [hR, Matrix.mul_one]
    _ = Ri := by rw [← Matrix.mul_assoc, h1, Matrix.one_mul]

/-- `s I − H(γ) = M − U R⁻¹ V`. -/
theorem sI_sub_hamiltonian (G : SS σ ι o K) (γ s : K) (Ri : Matrix ι ι K)
    (hR : Rmat G γ * Ri = 1) :
    s • (1 : Matrix (σ ⊕ σ) (σ ⊕ σ) K) - hamiltonian G Ri =
      fromBlocks (s • 1 - G.A) 0 (G.Cᵀ * G.C) (s • 1 + G.Aᵀ)
        - fromRows G.B (-(G.Cᵀ * G.D)) * Ri * fromCols (G.Dᵀ * G.C) G.Bᵀ := by
  have hs := Ri_symm G γ Ri hR
  rw [hamiltonian, smul_one_sub_fromBlocks, fromRows_mul, fromRows_mul_fromCols,
    sub_eq_add_neg (fromBlocks _ _ _ _), fromBlocks_neg, fromBlocks_add]
  congr 1
  · simp only [Matrix.mul_assoc]; abel
  · simp
  · simp only [Matrix.mul_add, Matrix.add_mul, Matrix.mul_one, Matrix.neg_mul, Matrix.mul_assoc,
      neg_neg]
  · simp only [Matrix.transpose_add, Matrix.transpose_mul, hs, Matrix.neg_mul, Matrix.mul_assoc,
      sub_neg_eq_add, neg_neg]
    abel


/-- Schur-complement determinant identity behind the bounded-real test. -/
theorem hamiltonian_det_aux (G : SS σ ι o K) (γ s : K) (Ri : Matrix ι ι K)
    (hR : Rmat G γ * Ri = 1)
    (X : Matrix σ ι K) (hX : (s • (1 : Matrix σ σ K) - G.A) * X = G.B)
    (Z : Matrix σ o K) (hZ : (s • (1 : Matrix σ σ K) + G.Aᵀ) * Z = G.Cᵀ) :
    det (s • (1 : Matrix (σ ⊕ σ) (σ ⊕ σ) K) - hamiltonian G Ri) * det (Rmat G γ) =
      det (s • (1 : Matrix σ σ K) - G.A) * det (s • (1 : Matrix σ σ K) + G.Aᵀ) *
        det ((γ ^ 2) • (1 : Matrix ι ι K) - (G.Dᵀ - G.Bᵀ * Z) * (G.C * X + G.D)) := by
  set M : Matrix (σ ⊕ σ) (σ ⊕ σ) K :=
    fromBlocks (s • 1 - G.A) 0 (G.Cᵀ * G.C) (s • 1 + G.Aᵀ) with hM
  set U : Matrix (σ ⊕ σ) ι K := fromRows G.B (-(G.Cᵀ * G.D)) with hU
  set V : Matrix ι (σ ⊕ σ) K := fromCols (G.Dᵀ * G.C) G.Bᵀ with hV
  set Y : Matrix o ι K := G.C * X + G.D with hY
  set W : Matrix (σ ⊕ σ) ι K := fromRows X (-(Z * Y)) with hW
  have hMW : M * W = U := by
    rw [hM, hW, hU, fromBlocks_mul_fromRows]
    congr 1
    · simp [hX]
    · rw [Matrix.mul_neg, ← Matrix.mul_assoc, hZ, hY]
      simp only [Matrix.mul_add, Matrix.mul_assoc]
      abel
  have hVW : V * W = G.Dᵀ * G.C * X - G.Bᵀ * (Z * Y) := by
    rw [hV, hW, fromCols_mul_fromRows, Matrix.mul_neg]; abel
  have hdecomp : s • (1 : Matrix (σ ⊕ σ) (σ ⊕ σ) K) - hamiltonian G Ri = M * (1 - W * (Ri * V)) := by
    rw [sI_sub_hamiltonian G γ s Ri hR, Matrix.mul_sub, Matrix.mul_one, ← Matrix.mul_assoc M,
      hMW, Matrix.mul_assoc]
  have hdetM : det M = det (s • (1 : Matrix σ σ K) - G.A) * det (s • (1 : Matrix σ σ K) + G.Aᵀ) := by
    rw [hM, det_fromBlocks_zero₁₂]
  have hRV : Rmat G γ * (1 - Ri * V * W) =
      (γ ^ 2) • (1 : Matrix ι ι K) - (G.Dᵀ - G.Bᵀ * Z) * Y := by
    rw [Matrix.mul_sub, Matrix.mul_one, Matrix.mul_assoc Ri, ← Matrix.mul_assoc (Rmat G γ), hR,
      Matrix.one_mul, hVW, Rmat, hY]
    simp only [Matrix.sub_mul, Matrix.mul_add, Matrix.mul_assoc]
    abel
  have hfin : det (Rmat G γ) * det (1 - Ri * V * W) =
      det ((γ ^ 2) • (1 : Matrix ι ι K) - (G.Dᵀ - G.Bᵀ * Z) * Y) := by
    rw [← det_mul, hRV]
  rw [hdecomp, det_mul, det_one_sub_mul_comm, hdetM, mul_assoc, mul_comm (det (1 - _)), hfin]

end Ham

end CtrlVerif.Norm
