/-
Helper lemmas for C03: coefficient lists as sums, the controller canonical form, the
Faddeev–LeVerrier certificate, the constructor normalisation seen pointwise.
-/
import CtrlVerif.Model.Convert
import CtrlVerif.Lemmas.Poly
import CtrlVerif.Lemmas.SS
import Mathlib.Algebra.BigOperators.Fin
import Mathlib.Algebra.BigOperators.Intervals
import Mathlib.Algebra.BigOperators.Field
import Mathlib.Tactic.FieldSimp
import Mathlib.Tactic.LinearCombination
import Mathlib.LinearAlgebra.Matrix.Charpoly.Coeff
import Mathlib.LinearAlgebra.Matrix.Charpoly.Basic

namespace CtrlVerif

open Matrix Finset

namespace Convert

variable {K : Type} [Field K] [DecidableEq K]

/-! ### coefficient lists -/

/-- `Σ_k a_k s^(n-k)`, `k = 0 … n`: the polynomial with coefficient function `a`, degree `n`. -/
def psum (a : Nat → K) (n : Nat) (s : K) : K := ∑ k ∈ range (n + 1), a k * s ^ (n - k)

theorem psum_split (a : Nat → K) (n : Nat) (s : K) :
    psum a n s = a 0 * s ^ n + ∑ j ∈ range n, a (j + 1) * s ^ (n - 1 - j) := by
  unfold psum
  rw [Finset.sum_range_succ', add_comm]
  congr 1
  apply Finset.sum_congr rfl
  intro j _
  congr 2
  omega

theorem polyval_cons (c : K) (p : List K) (x : K) :
    polyval (c :: p) x = c * x ^ p.length + polyval p x := by
  simp only [polyval, List.foldl_cons]
  rw [polyval_foldl]
  simp [polyval]

/-- a coefficient list read as a coefficient function. -/
theorem polyval_eq_psum (p : List K) (c : K) (x : K) :
    polyval (c :: p) x = psum (fun k => (c :: p).getD k 0) p.length x := by
  induction p generalizing c with
  | nil => simp [polyval, psum]
  | cons d p ih =>
    rw [polyval_cons, ih d, psum_split (fun k => (c :: d :: p).getD k 0)]
    simp only [List.length_cons, List.getD_cons_zero, List.getD_cons_succ]
    congr 1

theorem polyval_dropWhile_zero (p : List K) (x : K) :
    polyval (p.dropWhile (· = 0)) x = polyval p x := by
  rw [polyval_eq_eval, polyval_eq_eval, toPoly_dropWhile_zero]

theorem polyval_padLeft (n : Nat) (p : List K) (x : K) : polyval (padLeft n p) x = polyval p x := by
  rw [polyval_eq_eval, polyval_eq_eval, toPoly_padLeft]

theorem polyval_trim (p : List K) (x : K) : polyval (trim p) x = polyval p x := by
  rw [polyval_eq_eval, polyval_eq_eval, toPoly_trim]

theorem polyval_of_isZero (p : List K) (h : isZero p = true) (x : K) : polyval p x = 0 := by
  rw [polyval_eq_eval, toPoly_eq_zero_of_isZero p h]; simp

theorem polyval_polymul (p q : List K) (x : K) :
    polyval (polymul p q) x = polyval p x * polyval q x := by
  rw [polyval_eq_eval, polyval_eq_eval, polyval_eq_eval, toPoly_polymul]; simp

theorem polyval_scale (c : K) (p : List K) (x : K) : polyval (scale c p) x = c * polyval p x := by
  rw [polyval_eq_eval, polyval_eq_eval, toPoly_scale]; simp

/-! ### controller canonical form -/

/-- the state response of the controller canonical form: `X_k = s^(n-1-k) / a(s)`. -/
theorem ccf_resp (n : Nat) (a b : Nat → K) (s : K) (ha : a 0 = 1) (hd : psum a n s ≠ 0) :
    (ccf n a b).Resp s (fun _ _ => psum b n s / psum a n s) := by
  have hsplit := psum_split a n s
  rw [ha, one_mul] at hsplit
  have hA : ∀ i j, (ccf n a b).A i j
      = if i.val = 0 then -a (j.val + 1) else if i.val = j.val + 1 then 1 else 0 := fun _ _ => rfl
  have hB : ∀ i j, (ccf n a b).B i j = if i.val = 0 then 1 else 0 := fun _ _ => rfl
  have hC : ∀ i j, (ccf n a b).C i j = b (j.val + 1) - b 0 * a (j.val + 1) := fun _ _ => rfl
  have hD : ∀ i j, (ccf n a b).D i j = b 0 := fun _ _ => rfl
  refine ⟨Matrix.of fun k _ => s ^ (n - 1 - k.val) / psum a n s, ?_, ?_⟩
  · ext i j
    simp only [Matrix.mul_apply, Matrix.sub_apply, Matrix.smul_apply, Matrix.one_apply, hA, hB,
      smul_eq_mul, Matrix.of_apply]
    by_cases hi : i.val = 0
    · -- first row: s X₀ + Σ a_{j+1} X_j = a(s)/a(s)
      have hn : 0 < n := i.pos
      simp only [hi, if_true]
      have e1 : ∀ x : Fin n, (s * (if i = x then (1 : K) else 0) - -a (x.val + 1))
            * (s ^ (n - 1 - x.val) / psum a n s)
          = (if i = x then s ^ n / psum a n s else 0)
            + a (x.val + 1) * s ^ (n - 1 - x.val) / psum a n s := by
        intro x
        by_cases hx : i = x
        · subst hx
          simp only [if_true, hi]
          have : s * s ^ (n - 1 - 0) = s ^ n := by
            rw [Nat.sub_zero, ← pow_succ']; congr 1; omega
          field_simp
          linear_combination (1 : K) * this
        · simp only [hx, if_false]; ring
      rw [Finset.sum_congr rfl (fun x _ => e1 x), Finset.sum_add_distrib]
      simp only [Finset.sum_ite_eq, Finset.mem_univ, if_true]
      rw [← Finset.sum_div, Fin.sum_univ_eq_sum_range (fun j => a (j + 1) * s ^ (n - 1 - j)) n,
        ← add_div, ← hsplit, div_self hd]
    · -- other rows: s X_i - X_{i-1} = 0
      simp only [hi, if_false]
      have hi1 : i.val - 1 < n := by omega
      rw [Finset.sum_eq_add_of_mem i ⟨i.val - 1, hi1⟩ (Finset.mem_univ _) (Finset.mem_univ _)
        (by intro h; have := congrArg Fin.val h; simp at this; omega)]
      · have h1 : (i.val = (⟨i.val - 1, hi1⟩ : Fin n).val + 1) := by simp; omega
        have h2 : ¬ (i.val = i.val + 1) := by omega
        have h3 : ¬ (i = (⟨i.val - 1, hi1⟩ : Fin n)) := by
          intro h; have := congrArg Fin.val h; simp at this; omega
        simp only [if_true, h2, if_false, h3, if_pos h1]
        have : s * s ^ (n - 1 - i.val) = s ^ (n - 1 - (i.val - 1)) := by
          rw [← pow_succ']; congr 1; omega
        simp only [mul_one, mul_zero, sub_zero, zero_sub]
        rw [← mul_div_assoc, this]; ring
      · intro c _ hc
        have hc1 : ¬ (i = c) := fun h => hc.1 h.symm
        have hc2 : ¬ (i.val = c.val + 1) := by
          intro h; apply hc.2; apply Fin.ext; simp; omega
        simp [hc1, hc2]
  · ext i j
    simp only [Matrix.add_apply, Matrix.mul_apply, hC, hD, Matrix.of_apply]
    have hb := psum_split b n s
    have e2 : ∀ x : Fin n, (b (x.val + 1) - b 0 * a (x.val + 1)) * (s ^ (n - 1 - x.val) / psum a n s)
        = (b (x.val + 1) * s ^ (n - 1 - x.val) - b 0 * (a (x.val + 1) * s ^ (n - 1 - x.val)))
          / psum a n s := by
      intro x; ring
    rw [Finset.sum_congr rfl (fun x _ => e2 x), ← Finset.sum_div, Finset.sum_sub_distrib,
      ← Finset.mul_sum,
      Fin.sum_univ_eq_sum_range (fun j => b (j + 1) * s ^ (n - 1 - j)) n,
      Fin.sum_univ_eq_sum_range (fun j => a (j + 1) * s ^ (n - 1 - j)) n]
    have hA' : ∑ j ∈ range n, a (j + 1) * s ^ (n - 1 - j) = psum a n s - s ^ n := by
      rw [hsplit]; ring
    rw [hb, hA']
    field_simp
    ring

/-! ### Faddeev–LeVerrier certificate -/

variable {σ ι o : Type*} [Fintype σ] [DecidableEq σ]

/-- Horner value of a list of matrix coefficients. -/
def polyMatVal (Ms : List (Matrix σ σ K)) (s : K) : Matrix σ σ K :=
  Ms.foldl (fun acc M => s • acc + M) 0

theorem flv_invariant (A : Matrix σ σ K) (s : K) (steps : List (K × Matrix σ σ K))
    (cur P : Matrix σ σ K) (q : K)
    (hinv : (s • (1 : Matrix σ σ K) - A) * P = q • (1 : Matrix σ σ K) - cur)
    (hok : chainOK A cur steps) :
    (s • (1 : Matrix σ σ K) - A) * (steps.map (·.2)).foldl (fun acc M => s • acc + M) P
      = ((steps.map (·.1)).foldl (fun acc c => acc * s + c) q) • (1 : Matrix σ σ K) := by
  induction steps generalizing cur P q with
  | nil =>
    simp only [chainOK] at hok
    simp [hinv, hok]
  | cons cM rest ih =>
    obtain ⟨h1, h2⟩ := hok
    simp only [List.map_cons, List.foldl_cons]
    apply ih (A * cM.2 + cM.1 • 1) _ _ _ h2
    rw [Matrix.mul_add, Matrix.mul_smul, hinv, h1]
    simp only [Matrix.sub_mul, Matrix.smul_mul, Matrix.one_mul, smul_sub, smul_smul, add_smul]
    rw [mul_comm q s]
    abel

/-- the certificate gives `(sI - A) · P(s) = d(s) · I` for every `s`. -/
theorem flv_identity (A : Matrix σ σ K) (steps : List (K × Matrix σ σ K))
    (hok : chainOK A 1 steps) (s : K) :
    (s • (1 : Matrix σ σ K) - A) * polyMatVal (steps.map (·.2)) s
      = polyval (cden steps) s • (1 : Matrix σ σ K) := by
  have := flv_invariant A s steps 1 0 1 (by simp) hok
  unfold polyMatVal
  rw [this]
  simp [cden, polyval]

theorem cnum_invariant (G : SS σ ι o K) (s : K) (i : o) (j : ι) (steps : List (K × Matrix σ σ K))
    (P : Matrix σ σ K) (q : K) :
    (steps.map fun cM => (G.C * cM.2 * G.B) i j + cM.1 * G.D i j).foldl (fun acc c => acc * s + c)
        ((G.C * P * G.B) i j + q * G.D i j)
      = (G.C * (steps.map (·.2)).foldl (fun acc M => s • acc + M) P * G.B) i j
        + ((steps.map (·.1)).foldl (fun acc c => acc * s + c) q) * G.D i j := by
  induction steps generalizing P q with
  | nil => simp
  | cons cM rest ih =>
    simp only [List.map_cons, List.foldl_cons]
    rw [← ih]
    congr 1
    simp only [Matrix.mul_add, Matrix.add_mul, Matrix.mul_smul, Matrix.smul_mul, Matrix.add_apply,
      Matrix.smul_apply, smul_eq_mul]
    ring

/-- value of the numerator list: `(C P(s) B)_ij + d(s) D_ij`. -/
theorem cnum_val (G : SS σ ι o K) (steps : List (K × Matrix σ σ K)) (s : K) (i : o) (j : ι) :
    polyval (cnum G steps i j) s
      = (G.C * polyMatVal (steps.map (·.2)) s * G.B) i j + polyval (cden steps) s * G.D i j := by
  have := cnum_invariant G s i j steps 0 1
  simp only [Matrix.mul_zero, Matrix.zero_mul, Matrix.zero_apply, zero_add, one_mul] at this
  simp only [cnum, cden, polyval, List.foldl_cons, zero_mul, zero_add, polyMatVal]
  exact this

/-- a right inverse of a square matrix is a left inverse (rectangular right factor). -/
theorem solve_of_right_inverse {M P : Matrix σ σ K} {d : K} (hd : d ≠ 0)
    (h : M * P = d • (1 : Matrix σ σ K)) {X B : Matrix σ ι K} (hX : M * X = B) :
    X = d⁻¹ • (P * B) := by
  have h1 : M * (d⁻¹ • P) = 1 := by
    rw [Matrix.mul_smul, h, smul_smul, inv_mul_cancel₀ hd, one_smul]
  have h2 : (d⁻¹ • P) * M = 1 := mul_eq_one_comm.mp h1
  calc X = ((d⁻¹ • P) * M) * X := by rw [h2, Matrix.one_mul]
    _ = (d⁻¹ • P) * (M * X) := by rw [Matrix.mul_assoc]
    _ = d⁻¹ • (P * B) := by rw [hX, Matrix.smul_mul]

/-! ### constructor normalisation, pointwise -/

theorem mk'_ok {o' ι' : Type*} [Fintype o'] [Fintype ι'] (raw : o' → ι' → Frac K)
    (R : TFM o' ι' K) (h : TFM.mk' raw = .ok R) :
    (∀ i j, isZero (raw i j).den = false) ∧ ∀ i j, R.e i j = (raw i j).norm := by
  unfold TFM.mk' at h
  split at h
  · cases h
  · rename_i hne
    cases h
    refine ⟨fun i j => ?_, fun i j => rfl⟩
    by_contra hc
    exact hne ⟨i, j, by simpa using hc⟩

theorem norm_den_val (f : Frac K) (s : K) (hd : polyval f.den s ≠ 0) :
    polyval f.norm.den s ≠ 0 := by
  unfold Frac.norm
  split
  · simp [polyval]
  · simpa [polyval_trim] using hd

theorem norm_val (f : Frac K) (s : K) :
    polyval f.norm.num s / polyval f.norm.den s = polyval f.num s / polyval f.den s
      ∨ (isZero f.num = true ∧ polyval f.norm.num s / polyval f.norm.den s = 0) := by
  unfold Frac.norm
  split
  · rename_i h
    right; exact ⟨h, by simp [polyval]⟩
  · left; simp [polyval_trim]

theorem norm_val' (f : Frac K) (s : K) :
    polyval f.norm.num s / polyval f.norm.den s = polyval f.num s / polyval f.den s := by
  rcases norm_val f s with h | ⟨hz, h⟩
  · exact h
  · rw [h, polyval_of_isZero _ hz]; simp

end Convert

end CtrlVerif

namespace CtrlVerif

open Matrix

namespace Convert

variable {K : Type} [Field K] [DecidableEq K]

/-! ### values of objects at a point

`Y : ℕ → ℕ → K` is read on the `p × m` corner of the object (this avoids casts between the
run-time shapes of different representations of the same system). -/

/-- every denominator is non-zero at `s` and `Y` is the matrix of the values `num(s)/den(s)`. -/
def TFVal (G : DTF K) (s : K) (Y : Nat → Nat → K) : Prop :=
  ∀ (i : Fin G.p) (j : Fin G.m), polyval (G.sys.e i j).den s ≠ 0 ∧
    Y i j = polyval (G.sys.e i j).num s / polyval (G.sys.e i j).den s

/-- `Y` is a value of the transfer matrix `C (sI - A)⁻¹ B + D` at `s` (`SS.Resp`). -/
def SSVal (G : DSS K) (s : K) (Y : Nat → Nat → K) : Prop :=
  G.sys.Resp s (Matrix.of fun i j => Y i.val j.val)

def Rep.Val : Rep K → K → (Nat → Nat → K) → Prop
  | .ss G => SSVal G
  | .tf G => TFVal G

/-- the common denominator proposed for `G` does not vanish at `s` (or `G` has no states). -/
def RegularAt (G : DSS K) (s : K) : Prop :=
  G.n = 0 ∨ polyval (cden (flvPropose G.sys.A)) s ≠ 0

/-- what a step needs at `s`: a state-space system that is converted to a transfer function has a
checked certificate and `s` is not a root of its common denominator. -/
def StepOK : Step → Rep K → K → Prop
  | .tf _, .ss G, s => certOK G = true ∧ RegularAt G s
  | .ss2tf _, .ss G, s => certOK G = true ∧ RegularAt G s
  | .tfdata, .ss G, s => certOK G = true ∧ RegularAt G s
  | _, _, _ => True

def ChainOK : List Step → Obj K → K → Prop
  | [], _, _ => True
  | st :: rest, x, s => StepOK st x.rep s ∧ ∀ y, applyStep st x = .ok y → ChainOK rest y s

/-- a step without keyword overrides of the labels. -/
def Step.keepsLabels : Step → Bool
  | .tf kw => kw.inputs.isNone && kw.outputs.isNone
  | .ss2tf kw => kw.inputs.isNone && kw.outputs.isNone
  | .ss kw => kw.inputs.isNone && kw.outputs.isNone
  | .tfdata => false
  | .ssdata => false

/-- the `1 × 1` matrix with entry `c`. -/
def c11 (c : K) : Matrix (Fin 1) (Fin 1) K := fun _ _ => c

theorem allLenOne_spec (G : DTF K) (f : Frac K → List K) (h : allLenOne G f = true)
    (i : Fin G.p) (j : Fin G.m) : ∃ c, f (G.sys.e i j) = [c] := by
  unfold allLenOne lens at h
  rw [List.all_eq_true] at h
  have h1 := h _ (List.mem_map.mpr ⟨i, List.mem_finRange i, rfl⟩)
  rw [List.all_eq_true] at h1
  have h2 := h1 _ (List.mem_map.mpr ⟨j, List.mem_finRange j, rfl⟩)
  have h3 : (f (G.sys.e i j)).length = 1 := by simpa using h2
  exact List.length_eq_one_iff.mp h3

end Convert

end CtrlVerif

namespace CtrlVerif

open Matrix

namespace SS

variable {K : Type*} [Field K]
variable {σ σ' ι ι' o o' : Type*} [Fintype σ] [DecidableEq σ] [Fintype σ'] [DecidableEq σ']

/-- relabelling the states does not change the response. -/
theorem Resp.reindex {G : SS σ ι o K} {s : K} {Y : Matrix o ι K} (h : G.Resp s Y) (e : σ ≃ σ') :
    (G.reindex e).Resp s Y := by
  obtain ⟨X, hX, rfl⟩ := h
  refine ⟨X.submatrix e.symm id, ?_, ?_⟩
  · have h1 : (s • (1 : Matrix σ' σ' K) - G.A.submatrix e.symm e.symm)
        = (s • (1 : Matrix σ σ K) - G.A).submatrix e.symm e.symm := by
      ext i j
      simp [Matrix.one_apply, Matrix.submatrix_apply]
    simp only [SS.reindex]
    rw [h1, Matrix.submatrix_mul_equiv, hX]
  · simp only [SS.reindex]
    rw [Matrix.submatrix_mul_equiv]
    simp

/-- selecting outputs and inputs selects rows and columns of the response. -/
theorem Resp.select {G : SS σ ι o K} {s : K} {Y : Matrix o ι K} (h : G.Resp s Y)
    (r : o' → o) (c : ι' → ι) : (G.select r c).Resp s (Y.submatrix r c) := by
  obtain ⟨X, hX, rfl⟩ := h
  refine ⟨X.submatrix id c, ?_, ?_⟩
  · simp only [SS.select]
    ext i j
    have := congrFun (congrFun hX i) (c j)
    simpa [Matrix.mul_apply] using this
  · ext i j
    simp [SS.select, Matrix.mul_apply]

end SS

end CtrlVerif

/-! ### every matrix has a certificate (Cayley–Hamilton) -/

namespace CtrlVerif.Convert
open Matrix Polynomial

variable {K : Type} [Field K] [DecidableEq K]
variable {σ : Type*} [Fintype σ] [DecidableEq σ]

/-- the matrices determined by a coefficient list: `M₀ = cur`, `M_k = A M_{k-1} + c_k I`. -/
def genSteps (A : Matrix σ σ K) : Matrix σ σ K → List K → List (K × Matrix σ σ K)
  | _, [] => []
  | cur, c :: cs => (c, cur) :: genSteps A (A * cur + c • 1) cs

theorem chainOK_gen (A : Matrix σ σ K) (cur : Matrix σ σ K) (cs : List K) :
    chainOK A cur (genSteps A cur cs) ↔ cs.foldl (fun acc c => A * acc + c • 1) cur = 0 := by
  induction cs generalizing cur with
  | nil => simp [genSteps, chainOK]
  | cons c cs ih => simp [genSteps, chainOK, ih]

theorem genSteps_fst (A : Matrix σ σ K) (cur : Matrix σ σ K) (cs : List K) :
    (genSteps A cur cs).map (·.1) = cs := by
  induction cs generalizing cur with
  | nil => rfl
  | cons c cs ih => simp [genSteps, ih]

theorem foldl_aeval (A : Matrix σ σ K) (cs : List K) (q : K[X]) :
    cs.foldl (fun acc c => A * acc + c • (1 : Matrix σ σ K)) (aeval A q)
      = aeval A (cs.foldl (fun acc c => acc * X + C c) q) := by
  induction cs generalizing q with
  | nil => rfl
  | cons c cs ih =>
    simp only [List.foldl_cons]
    rw [← ih]
    congr 1
    rw [map_add, map_mul, aeval_X, aeval_C, Algebra.algebraMap_eq_smul_one]
    congr 1
    have : A * aeval A q = aeval A (X * q) := by rw [map_mul, aeval_X]
    rw [this, mul_comm, map_mul, aeval_X]

/-- every polynomial is denoted by a coefficient list. -/
theorem exists_list (p : K[X]) : ∃ l : List K, toPoly l = p := by
  induction p using Polynomial.induction_on with
  | C a => exact ⟨[a], by simp [toPoly_cons]⟩
  | add p q hp hq =>
    obtain ⟨l₁, h₁⟩ := hp
    obtain ⟨l₂, h₂⟩ := hq
    exact ⟨polyadd l₁ l₂, by rw [toPoly_polyadd, h₁, h₂]⟩
  | monomial n a h =>
    obtain ⟨l, hl⟩ := h
    exact ⟨l ++ [0], by rw [toPoly_append, hl]; simp [toPoly_cons, pow_succ, mul_assoc]⟩


/-- a monic polynomial is denoted by a list that starts with `1`. -/
theorem exists_monic_list (p : K[X]) (hp : p.Monic) : ∃ cs : List K, toPoly (1 :: cs) = p := by
  obtain ⟨l, hl⟩ := exists_list p
  have hl' : toPoly (l.dropWhile (· = 0)) = p := by rw [toPoly_dropWhile_zero, hl]
  cases hdw : l.dropWhile (· = 0) with
  | nil =>
    rw [hdw] at hl'
    exact absurd hl'.symm hp.ne_zero
  | cons a cs =>
    have ha : a ≠ 0 := by
      have hne : List.dropWhile (fun x => decide (x = 0)) l ≠ [] := by rw [hdw]; simp
      have := List.head_dropWhile_not (fun x : K => decide (x = 0)) hne
      simp only [hdw, List.head_cons, decide_eq_false_iff_not] at this
      exact this
    rw [hdw] at hl'
    have hlead : (toPoly (a :: cs)).leadingCoeff = a := by
      rw [toPoly_cons, leadingCoeff_add_of_degree_lt', leadingCoeff_C_mul_X_pow]
      rw [degree_C_mul_X_pow _ ha]
      exact toPoly_degree_lt cs
    rw [hl', hp.leadingCoeff] at hlead
    exact ⟨cs, by rw [hlead, hl']⟩

end CtrlVerif.Convert
