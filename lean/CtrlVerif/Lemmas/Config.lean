/-
Lemmas about the configuration machine (C19).
-/
import CtrlVerif.Model.Config

namespace CtrlVerif.Config

/-! ### dictionary basics -/

theorem get_del (c : Cfg) (k k' : Key) :
    get (del c k) k' = if k' = k then none else get c k' := by
  induction c with
  | nil => simp [del, get]
  | cons e c ih =>
    obtain ⟨k0, v0⟩ := e
    by_cases h : k = k0
    · subst h
      simp only [del, if_true, ih, get]
      by_cases h' : k' = k <;> simp [h']
    · simp only [del, h, if_false, get, ih]
      by_cases h' : k' = k0
      · subst h'
        have : k' ≠ k := fun e => h e.symm
        simp [this]
      · simp [h']

theorem get_put (c : Cfg) (k k' : Key) (v : Val) :
    get (put c k v) k' = if k' = k then some v else get c k' := by
  unfold put
  simp only [get, get_del]
  by_cases h : k' = k <;> simp [h]

theorem has_put (c : Cfg) (k k' : Key) (v : Val) :
    has (put c k v) k' = (decide (k' = k) || has c k') := by
  unfold has
  rw [get_put]
  by_cases h : k' = k <;> simp [h]

theorem getLast_eq_none_iff (m : List (Key × Val)) (k : Key) :
    getLast m k = none ↔ k ∉ keys m := by
  induction m with
  | nil => simp [getLast, keys]
  | cons e m ih =>
    obtain ⟨k0, v0⟩ := e
    cases h : getLast m k with
    | some w =>
      have hm : k ∈ keys m := Decidable.byContradiction (fun hn => by
        rw [ih.mpr hn] at h
        cases h)
      simp only [getLast, h, keys, List.map_cons, List.mem_cons]
      simp only [keys] at hm
      simp [hm]
    | none =>
      have hm : k ∉ keys m := ih.mp h
      simp only [keys] at hm
      simp only [getLast, h, keys, List.map_cons, List.mem_cons]
      by_cases hk : k = k0 <;> simp [hk, hm]

theorem get_putAll (m : List (Key × Val)) (c : Cfg) (k : Key) :
    get (putAll c m) k = match getLast m k with
      | some v => some v
      | none => get c k := by
  induction m generalizing c with
  | nil => simp [putAll, getLast]
  | cons e m ih =>
    obtain ⟨k0, v0⟩ := e
    simp only [putAll, getLast, ih, get_put]
    cases h : getLast m k with
    | some w => simp
    | none => by_cases hk : k = k0 <;> simp [hk]

/-! ### every change of the dictionary is a sequence of `put`s -/

inductive Puts : Cfg → Cfg → Prop
  | refl (c : Cfg) : Puts c c
  | snoc {c c' : Cfg} (k : Key) (v : Val) : Puts c c' → Puts c (put c' k v)

theorem Puts.trans {a b c : Cfg} (h1 : Puts a b) (h2 : Puts b c) : Puts a c := by
  induction h2 with
  | refl => exact h1
  | snoc k v _ ih => exact .snoc k v ih

theorem Puts.one (c : Cfg) (k : Key) (v : Val) : Puts c (Config.put c k v) := .snoc k v (.refl c)

theorem Puts.has_mono {c c' : Cfg} (h : Puts c c') (k : Key) (hk : has c k = true) :
    has c' k = true := by
  induction h with
  | refl => exact hk
  | snoc k0 v _ ih => rw [has_put]; simp [ih]

theorem puts_setItem (c : Cfg) (k : Key) (v : Val) : Puts c (setItem c k v) := Puts.one _ _ _

theorem puts_assignAll (m : List (Key × Val)) (c : Cfg) : Puts c (assignAll c m) := by
  induction m generalizing c with
  | nil => exact .refl c
  | cons e m ih =>
    obtain ⟨k, v⟩ := e
    exact (puts_setItem c k v).trans (ih _)

theorem puts_putAll (m : List (Key × Val)) (c : Cfg) : Puts c (putAll c m) := by
  induction m generalizing c with
  | nil => exact .refl c
  | cons e m ih =>
    obtain ⟨k, v⟩ := e
    exact (Puts.one c k v).trans (ih _)

theorem puts_setDefaults (module : String) (kvs : List (String × Val)) (c : Cfg) :
    Puts c (setDefaults c module kvs).1 := by
  induction kvs generalizing c with
  | nil => exact .refl c
  | cons e kvs ih =>
    obtain ⟨key, v⟩ := e
    simp only [setDefaults]
    split
    · exact .refl c
    · exact (puts_setItem c _ v).trans (ih _)

theorem puts_setDefaultsSeq (l : List (String × List (String × Val))) (c : Cfg) :
    Puts c (setDefaultsSeq c l).1 := by
  induction l generalizing c with
  | nil => exact .refl c
  | cons e l ih =>
    obtain ⟨m, kvs⟩ := e
    simp only [setDefaultsSeq]
    have h := puts_setDefaults m kvs c
    split
    · rename_i c' heq
      rw [heq] at h
      exact h.trans (ih _)
    · rename_i c' e' heq
      rw [heq] at h
      exact h

theorem puts_enter {c : Cfg} {m saved : List (Key × Val)} {c1 : Cfg}
    (h : enter c m = some (saved, c1)) : Puts c c1 := by
  unfold enter at h
  split at h
  · cases h
    exact puts_assignAll m c
  · cases h

theorem puts_step (imp : Cfg) :
    (∀ (w : World) (call : Call), Puts w.cfg (step imp w call).1.cfg) ∧
    (∀ (w : World) (cs : List Call), Puts w.cfg (runBody imp w cs).1.cfg) := by
  apply step.mutual_induct imp
    (motive_1 := fun w call => Puts w.cfg (step imp w call).1.cfg)
    (motive_2 := fun w cs => Puts w.cfg (runBody imp w cs).1.cfg)
  · intro w k v; simp only [step]; exact puts_setItem _ _ _
  · intro w k v h; simp only [step, h]; exact .refl _
  · intro w k e h; simp only [step, h]; exact .refl _
  · intro w m kvs; simp only [step]; exact puts_setDefaults _ _ _
  · intro w m body h; simp only [step, h]; exact .refl _
  · intro w m body saved c1 h ih
    simp only [step, h]
    exact ((puts_enter h).trans ih).trans (puts_assignAll _ _)
  · intro w; simp only [step]; exact puts_putAll _ _
  · intro w; simp only [step]; exact puts_setDefaultsSeq _ _
  · intro w; simp only [step]; exact puts_setDefaultsSeq _ _
  · intro w; simp only [step]; exact .refl _
  · intro w a b p r h
    simp only [step]
    split
    · exact (puts_putAll _ _).trans (puts_setDefaultsSeq _ _)
    · exact (puts_putAll _ _).trans (puts_setDefaultsSeq _ _)
  · intro w a b p r e h
    simp only [step]
    split
    · exact (puts_putAll _ _).trans (puts_setDefaultsSeq _ _)
    · exact (puts_putAll _ _).trans (puts_setDefaultsSeq _ _)
  · intro w; simp only [step]; exact .refl _
  · intro w; simp only [step]; exact .refl _
  · intro w; simp only [runBody]; exact .refl _
  · intro w c cs r e h ih
    simp only [runBody]
    split
    · exact ih
    · rename_i h'
      exact absurd (h.symm.trans h') (by simp)
  · intro w c cs r h ih1 ih2
    simp only [runBody]
    split
    · rename_i e' h'
      exact absurd (h.symm.trans h') (by simp)
    · exact ih1.trans ih2

/-! ### no deprecated aliases: assignments are plain -/

/-- the dictionary holds no `deprecated.*` entry. -/
def NoDep (c : Cfg) : Prop := ∀ k, get c (depKey k) = none

theorem checkDep_of_noDep {c : Cfg} (h : NoDep c) (k : Key) : checkDep c k = k := by
  simp [checkDep, h k]

theorem noDep_put_existing {c : Cfg} (h : NoDep c) {k : Key} (hk : has c k = true) (v : Val) :
    NoDep (put c k v) := by
  intro k'
  rw [get_put]
  by_cases e : depKey k' = k
  · subst e
    simp [has, h k'] at hk
  · simp [e, h k']

theorem assignAll_noDep (s : List (Key × Val)) (c : Cfg) (hnd : NoDep c)
    (hp : ∀ e ∈ s, has c e.1 = true) :
    NoDep (assignAll c s) ∧
    ∀ k, get (assignAll c s) k = match getLast s k with
      | some v => some v
      | none => get c k := by
  induction s generalizing c with
  | nil => exact ⟨hnd, fun k => by simp [assignAll, getLast]⟩
  | cons e s ih =>
    obtain ⟨k0, v0⟩ := e
    have hk0 : has c k0 = true := hp (k0, v0) (by simp)
    have hset : setItem c k0 v0 = put c k0 v0 := by simp [setItem, checkDep_of_noDep hnd]
    have hnd' : NoDep (put c k0 v0) := noDep_put_existing hnd hk0 v0
    have hp' : ∀ e ∈ s, has (put c k0 v0) e.1 = true := by
      intro e he
      rw [has_put]
      simp [hp e (by simp [he])]
    obtain ⟨h1, h2⟩ := ih (put c k0 v0) hnd' hp'
    simp only [assignAll, hset]
    refine ⟨h1, fun k => ?_⟩
    rw [h2 k]
    simp only [getLast, get_put]
    cases h : getLast s k with
    | some w => simp
    | none => by_cases hk : k = k0 <;> simp [hk]

theorem depKey_ne (k : Key) (s : String) (h : ¬ "deprecated.".toList <+: s.toList) :
    depKey k ≠ s := by
  intro e
  apply h
  rw [← e, depKey, String.toList_append]
  exact List.prefix_append _ _

/-- a decidable sufficient condition for `NoDep`: no key starts with `deprecated.`. -/
theorem noDep_of_all (c : Cfg) (h : ∀ e ∈ c, ¬ "deprecated.".toList <+: e.1.toList) : NoDep c := by
  intro k
  induction c with
  | nil => rfl
  | cons e c ih =>
    obtain ⟨k0, v0⟩ := e
    simp only [CtrlVerif.Config.get]
    have : depKey k ≠ k0 := depKey_ne k k0 (h (k0, v0) (by simp))
    simp only [this, if_false]
    exact ih (fun e he => h e (by simp [he]))

theorem has_put_existing {c : Cfg} {k : Key} (hk : has c k = true) (v : Val) (k' : Key) :
    has (put c k v) k' = has c k' := by
  rw [has_put]
  by_cases e : k' = k
  · subst e; simp [hk]
  · simp [e]

theorem setDefaults_keys (module : String) (kvs : List (String × Val)) (c : Cfg) (hnd : NoDep c) :
    NoDep (setDefaults c module kvs).1 ∧ ∀ k, has (setDefaults c module kvs).1 k = has c k := by
  induction kvs generalizing c with
  | nil => exact ⟨hnd, fun _ => rfl⟩
  | cons e kvs ih =>
    obtain ⟨key, v⟩ := e
    simp only [setDefaults]
    split
    · exact ⟨hnd, fun _ => rfl⟩
    · rename_i hcond
      have hdep : has c (depKey (module ++ "." ++ key)) = false := by simp [has, hnd _]
      have hkn : has c (module ++ "." ++ key) = true := by
        cases hh : has c (module ++ "." ++ key) with
        | true => rfl
        | false => simp [hh, hdep] at hcond
      have hset : setItem c (module ++ "." ++ key) v = put c (module ++ "." ++ key) v := by
        simp [setItem, checkDep_of_noDep hnd]
      rw [hset]
      obtain ⟨h1, h2⟩ := ih (put c (module ++ "." ++ key) v) (noDep_put_existing hnd hkn v)
      exact ⟨h1, fun k => by rw [h2 k, has_put_existing hkn]⟩

theorem setDefaultsSeq_keys (l : List (String × List (String × Val))) (c : Cfg) (hnd : NoDep c) :
    NoDep (setDefaultsSeq c l).1 ∧ ∀ k, has (setDefaultsSeq c l).1 k = has c k := by
  induction l generalizing c with
  | nil => exact ⟨hnd, fun _ => rfl⟩
  | cons e l ih =>
    obtain ⟨m, kvs⟩ := e
    simp only [setDefaultsSeq]
    have h := setDefaults_keys m kvs c hnd
    split
    · rename_i c' heq
      rw [heq] at h
      obtain ⟨h1, h2⟩ := ih c' h.1
      exact ⟨h1, fun k => by rw [h2 k, h.2 k]⟩
    · rename_i c' e' heq
      rw [heq] at h
      exact h

/-- assignments through `__setitem__` are plain when none of the assigned keys has an alias and
none of them is itself the alias entry of another one. -/
theorem assignAll_local (s : List (Key × Val)) (c : Cfg)
    (h1 : ∀ e ∈ s, get c (depKey e.1) = none)
    (h2 : ∀ e ∈ s, ∀ e' ∈ s, depKey e'.1 ≠ e.1) (k : Key) :
    get (assignAll c s) k = match getLast s k with
      | some v => some v
      | none => get c k := by
  induction s generalizing c with
  | nil => simp [assignAll, getLast]
  | cons e s ih =>
    obtain ⟨k0, v0⟩ := e
    have hset : setItem c k0 v0 = put c k0 v0 := by
      simp [setItem, checkDep, h1 (k0, v0) (by simp)]
    have h1' : ∀ e ∈ s, get (put c k0 v0) (depKey e.1) = none := by
      intro e he
      rw [get_put]
      have hne : depKey e.1 ≠ k0 := h2 (k0, v0) (by simp) e (by simp [he])
      simp [hne, h1 e (by simp [he])]
    have h2' : ∀ e ∈ s, ∀ e' ∈ s, depKey e'.1 ≠ e.1 :=
      fun e he e' he' => h2 e (by simp [he]) e' (by simp [he'])
    simp only [assignAll, hset]
    rw [ih (put c k0 v0) h1' h2']
    simp only [getLast, get_put]
    cases h : getLast s k with
    | some w => simp
    | none => by_cases hk : k = k0 <;> simp [hk]

/-! ### the saved values of the context manager -/

def savedOf (c : Cfg) (m : List (Key × Val)) : List (Key × Val) :=
  m.filterMap (fun e => (get c e.1).map (fun v => (e.1, v)))

theorem keys_savedOf_subset (c : Cfg) (m : List (Key × Val)) (k : Key)
    (h : k ∈ keys (savedOf c m)) : k ∈ keys m := by
  induction m with
  | nil => simp [savedOf, keys] at h
  | cons e m ih =>
    obtain ⟨k0, v0⟩ := e
    simp only [savedOf, List.filterMap_cons] at h
    cases hg : get c k0 with
    | none =>
      simp only [hg, Option.map_none] at h
      have := ih h
      simp only [keys, List.map_cons, List.mem_cons] at this ⊢
      exact Or.inr this
    | some x =>
      simp only [hg, Option.map_some, keys, List.map_cons, List.mem_cons] at h
      simp only [keys, List.map_cons, List.mem_cons]
      rcases h with h | h
      · exact Or.inl h
      · exact Or.inr (ih h)

theorem getLast_savedOf (c : Cfg) (m : List (Key × Val)) (hall : ∀ e ∈ m, has c e.1 = true)
    (k : Key) (hk : k ∈ keys m) : getLast (savedOf c m) k = get c k := by
  induction m with
  | nil => simp [keys] at hk
  | cons e m ih =>
    obtain ⟨k0, v0⟩ := e
    have h0 : has c k0 = true := hall (k0, v0) (by simp)
    obtain ⟨x, hx⟩ : ∃ x, get c k0 = some x := by
      simp only [has] at h0
      exact Option.isSome_iff_exists.mp h0
    have hall' : ∀ e ∈ m, has c e.1 = true := fun e he => hall e (by simp [he])
    have hs : savedOf c ((k0, v0) :: m) = (k0, x) :: savedOf c m := by
      simp [savedOf, hx]
    rw [hs]
    simp only [getLast]
    by_cases hm : k ∈ keys m
    · rw [ih hall' hm]
      have : has c k = true := by
        simp only [keys, List.mem_map] at hm
        obtain ⟨e, he, rfl⟩ := hm
        exact hall' e he
      simp only [has] at this
      obtain ⟨y, hy⟩ := Option.isSome_iff_exists.mp this
      simp [hy]
    · have hnone : getLast (savedOf c m) k = none :=
        (getLast_eq_none_iff _ _).mpr (fun h => hm (keys_savedOf_subset c m k h))
      have hk0 : k = k0 := by
        simp only [keys, List.map_cons, List.mem_cons] at hk
        rcases hk with h | h
        · exact h
        · exact absurd h hm
      subst hk0
      simp [hnone, hx]

theorem enter_eq {c : Cfg} {m saved : List (Key × Val)} {c1 : Cfg}
    (h : enter c m = some (saved, c1)) :
    (∀ e ∈ m, has c e.1 = true) ∧ saved = savedOf c m ∧ c1 = assignAll c m := by
  unfold enter at h
  split at h
  · rename_i hall
    cases h
    refine ⟨?_, rfl, rfl⟩
    intro e he
    exact List.all_eq_true.mp hall e he
  · cases h

/-! ### bodies made of library calls only -/

def isOp : Call → Bool
  | .op _ => true
  | _ => false

theorem runBody_ops (imp : Cfg) (cs : List Call) (h : ∀ c ∈ cs, isOp c = true) (w : World) :
    (runBody imp w cs).1.cfg = w.cfg ∧ (runBody imp w cs).2.2 = none := by
  induction cs generalizing w with
  | nil => simp [runBody]
  | cons c cs ih =>
    have hc : isOp c = true := h c (by simp)
    have hcs : ∀ c ∈ cs, isOp c = true := fun c hc => h c (by simp [hc])
    cases c with
    | op b =>
      cases b with
      | true =>
        simp only [runBody, step]
        exact ih hcs w
      | false =>
        simp only [runBody, step]
        exact ih hcs _
    | _ => simp [isOp] at hc

theorem run_ops (imp : Cfg) (cs : List Call) (h : ∀ c ∈ cs, isOp c = true) (w : World) :
    (run imp w cs).1.cfg = w.cfg := by
  induction cs generalizing w with
  | nil => simp [run]
  | cons c cs ih =>
    have hc : isOp c = true := h c (by simp)
    have hcs : ∀ c ∈ cs, isOp c = true := fun c hc => h c (by simp [hc])
    cases c with
    | op b =>
      cases b with
      | true => simp only [run, step]; exact ih hcs w
      | false => simp only [run, step]; exact ih hcs _
    | _ => simp [isOp] at hc

/-! ### blocks around library calls and reads, any nesting -/

theorem hdd_of_noDep {c : Cfg} (hnd : NoDep c) (m : List (Key × Val))
    (hall : ∀ e ∈ m, has c e.1 = true) : ∀ k ∈ keys m, ∀ k' ∈ keys m, depKey k' ≠ k := by
  intro k hk k' _ he
  obtain ⟨e', he', hee⟩ := List.mem_map.mp hk
  have := hall e' he'
  rw [hee, ← he] at this
  simp [has, hnd k'] at this

theorem balanced_identity (imp : Cfg) :
    (∀ (w : World) (call : Call), balanced call = true → NoDep w.cfg →
      ∀ k, get (step imp w call).1.cfg k = get w.cfg k) ∧
    (∀ (w : World) (cs : List Call), balancedL cs = true → NoDep w.cfg →
      ∀ k, get (runBody imp w cs).1.cfg k = get w.cfg k) := by
  apply step.mutual_induct imp
    (motive_1 := fun w call => balanced call = true → NoDep w.cfg →
      ∀ k, get (step imp w call).1.cfg k = get w.cfg k)
    (motive_2 := fun w cs => balancedL cs = true → NoDep w.cfg →
      ∀ k, get (runBody imp w cs).1.cfg k = get w.cfg k)
  · intro w k v hb; simp [balanced] at hb
  · intro w k v h _ _ k'; simp [step, h]
  · intro w k e h _ _ k'; simp [step, h]
  · intro w m kvs hb; simp [balanced] at hb
  · intro w m body h _ _ k; simp [step, h]
  · intro w m body saved c1 h ih hb hnd k
    obtain ⟨hall, hsaved, hc1⟩ := enter_eq h
    have hnd1 : NoDep c1 := by rw [hc1]; exact (assignAll_noDep m w.cfg hnd hall).1
    have hb' : balancedL body = true := by simpa [balanced] using hb
    have ih' := ih hb' hnd1
    have hsub : ∀ e ∈ saved, e.1 ∈ keys m := by
      intro e he
      apply keys_savedOf_subset w.cfg m
      rw [← hsaved]
      exact List.mem_map.mpr ⟨e, he, rfl⟩
    have hdd := hdd_of_noDep hnd m hall
    simp only [step, h, restore]
    rw [assignAll_local saved _ (fun e he => by rw [ih']; exact hnd1 _)
      (fun e he e' he' => hdd _ (hsub e he) _ (hsub e' he')) k]
    by_cases hk : k ∈ keys m
    · rw [hsaved, getLast_savedOf w.cfg m hall k hk]
      cases hg : get w.cfg k with
      | some v => rfl
      | none =>
        obtain ⟨e', he', hee⟩ := List.mem_map.mp hk
        have := hall e' he'
        rw [hee] at this
        simp [has, hg] at this
    · have : getLast saved k = none := by
        rw [hsaved]
        exact (getLast_eq_none_iff _ _).mpr (fun hh => hk (keys_savedOf_subset w.cfg m k hh))
      simp only [this]
      rw [ih' k, hc1, (assignAll_noDep m w.cfg hnd hall).2 k, (getLast_eq_none_iff m k).mpr hk]
  · intro w hb; simp [balanced] at hb
  · intro w hb; simp [balanced] at hb
  · intro w hb; simp [balanced] at hb
  · intro w hb; simp [balanced] at hb
  · intro w a b p r h hb; simp [balanced] at hb
  · intro w a b p r e h hb; simp [balanced] at hb
  · intro w _ _ k; simp [step]
  · intro w _ _ k; simp [step]
  · intro w _ _ k; simp [runBody]
  · intro w c cs r e h ih hb hnd k
    have hb' : balanced c = true ∧ balancedL cs = true := by simpa [balancedL] using hb
    simp only [runBody]
    rw [show (step imp w c).2.2 = some e from h]
    exact ih hb'.1 hnd k
  · intro w c cs r h ih1 ih2 hb hnd k
    have hb' : balanced c = true ∧ balancedL cs = true := by simpa [balancedL] using hb
    have hr : r = step imp w c := rfl
    rw [hr] at ih2
    have e1 := ih1 hb'.1 hnd
    have hnd' : NoDep (step imp w c).1.cfg := fun k' => by rw [e1]; exact hnd k'
    simp only [runBody]
    rw [show (step imp w c).2.2 = none from h]
    simp only
    rw [ih2 hb'.2 hnd' k, e1 k]

/-! ### the counter only shows in generated names -/

/-- relation between the results of the same call in two worlds that differ in the counter. -/
def SameUpToCtr (r r' : World × List Out × Option Err) (n n' : Nat) : Prop :=
  r'.1.cfg = r.1.cfg ∧ r'.2.1.map Out.erase = r.2.1.map Out.erase ∧ r'.2.2 = r.2.2 ∧
    r'.1.ctr + n = r.1.ctr + n'

theorem step_ctr (imp : Cfg) :
    (∀ (w : World) (call : Call) (n : Nat),
      SameUpToCtr (step imp w call) (step imp ⟨w.cfg, n⟩ call) w.ctr n) ∧
    (∀ (w : World) (cs : List Call) (n : Nat),
      SameUpToCtr (runBody imp w cs) (runBody imp ⟨w.cfg, n⟩ cs) w.ctr n) := by
  apply step.mutual_induct imp
    (motive_1 := fun w call => ∀ n,
      SameUpToCtr (step imp w call) (step imp ⟨w.cfg, n⟩ call) w.ctr n)
    (motive_2 := fun w cs => ∀ n,
      SameUpToCtr (runBody imp w cs) (runBody imp ⟨w.cfg, n⟩ cs) w.ctr n)
  · intro w k v n; simp [SameUpToCtr, step, Nat.add_comm]
  · intro w k v h n; simp [SameUpToCtr, step, h, Nat.add_comm]
  · intro w k e h n; simp [SameUpToCtr, step, h, Nat.add_comm]
  · intro w m kvs n; simp [SameUpToCtr, step, Nat.add_comm]
  · intro w m body h n; simp [SameUpToCtr, step, h, Nat.add_comm]
  · intro w m body saved c1 h ih n
    obtain ⟨h1, h2, h3, h4⟩ := ih n
    simp only [SameUpToCtr, step, h] at h1 h2 h3 h4 ⊢
    refine ⟨by rw [h1], ?_, h3, h4⟩
    simp only [List.map_append, h2, h3]
  · intro w n; simp [SameUpToCtr, step, Nat.add_comm]
  · intro w n; simp [SameUpToCtr, step, Nat.add_comm]
  · intro w n; simp [SameUpToCtr, step, Nat.add_comm]
  · intro w n; simp [SameUpToCtr, step, Nat.add_comm]
  · intro w a b p r h n
    simp only [SameUpToCtr, step]
    split <;> simp [Nat.add_comm]
  · intro w a b p r e h n
    simp only [SameUpToCtr, step]
    split <;> simp [Nat.add_comm]
  · intro w n; simp [SameUpToCtr, step, Nat.add_comm]
  · intro w n; simp [SameUpToCtr, step, Out.erase]; omega
  · intro w n; simp [SameUpToCtr, runBody, Nat.add_comm]
  · intro w c cs r e h ih n
    obtain ⟨h1, h2, h3, h4⟩ := ih n
    have h' : (step imp ⟨w.cfg, n⟩ c).2.2 = some e := by rw [h3]; exact h
    simp only [SameUpToCtr, runBody]
    rw [show (step imp w c).2.2 = some e from h, h']
    exact ⟨h1, h2, rfl, h4⟩
  · intro w c cs r h ih1 ih2 n
    have hr : r = step imp w c := rfl
    rw [hr] at h ih2
    obtain ⟨h1, h2, h3, h4⟩ := ih1 n
    have h' : (step imp ⟨w.cfg, n⟩ c).2.2 = none := by rw [h3]; exact h
    simp only [SameUpToCtr, runBody]
    rw [h, h']
    simp only
    generalize hgen : (step imp ⟨w.cfg, n⟩ c).1 = w' at h1 h4 ⊢
    obtain ⟨cfg', ctr'⟩ := w'
    simp only at h1 h4
    subst h1
    obtain ⟨g1, g2, g3, g4⟩ := ih2 ctr'
    refine ⟨g1, ?_, g3, ?_⟩
    · simp only [List.map_append, g2, h2]
    · omega

/-! ### parameter protocol -/

theorem pstep_fixed_eq_spec (S : PSys) (st : PState) (c : PCall) :
    (pstep .fixed S st c).2 = specOut S c := by
  cases c with
  | subCall j ov =>
    simp only [pstep, specOut]
    cases S.subs[j]? <;> simp
  | subEval j ov =>
    simp only [pstep, specOut]
    cases S.subs[j]? <;> simp
  | icsEval ov => simp [pstep, specOut]

end CtrlVerif.Config
