/-
C13: instantiation of the unwrap lemmas at `ℝ`, period `2π`, angles = `Complex.arg`.
-/
import CtrlVerif.Lemmas.Nyquist
import Mathlib.Analysis.SpecialFunctions.Complex.Arg
import Mathlib.Algebra.Order.Archimedean.Real.Basic

namespace CtrlVerif.Nyquist

/-- increments of the polygon through the samples: the principal argument of the quotient of
consecutive samples (the angle by which the polygon turns around `0` on that edge). -/
noncomputable def polygonIncr : List ℂ → List ℝ
  | a :: b :: t => Complex.arg (b / a) :: polygonIncr (b :: t)
  | _ => []

theorem arg_sub_congr {a b : ℂ} (ha : a ≠ 0) (hb : b ≠ 0) :
    ∃ k : ℤ, Complex.arg b - Complex.arg a = Complex.arg (b / a) + k * (2 * Real.pi) := by
  have h := Complex.arg_div_coe_angle hb ha
  rw [← Real.Angle.coe_sub, Real.Angle.angle_eq_iff_two_pi_dvd_sub] at h
  obtain ⟨k, hk⟩ := h
  exact ⟨-k, by push_cast; linarith⟩

theorem map_desired_arg (w : List ℂ) (hw : ∀ z ∈ w, z ≠ 0)
    (hstep : ∀ δ ∈ polygonIncr w, δ ≠ Real.pi) :
    (diff (w.map Complex.arg)).map (desired (2 * Real.pi)) = polygonIncr w := by
  induction w with
  | nil => rfl
  | cons a t ih =>
    cases t with
    | nil => rfl
    | cons b t =>
      simp only [List.map_cons, diff_cons_cons, polygonIncr]
      have ha : a ≠ 0 := hw a (by simp)
      have hb : b ≠ 0 := hw b (by simp)
      obtain ⟨k, hk⟩ := arg_sub_congr ha hb
      have h1 := Complex.neg_pi_lt_arg (b / a)
      have h2 := Complex.arg_le_pi (b / a)
      have h3 : Complex.arg (b / a) ≠ Real.pi := hstep _ (by simp [polygonIncr])
      have h4 : Complex.arg (b / a) < Real.pi := lt_of_le_of_ne h2 h3
      rw [desired_eq (by positivity) k hk (by linarith) (by linarith)]
      congr 1
      have := ih (fun z hz => hw z (by simp at hz ⊢; tauto))
        (fun δ hδ => hstep δ (by simp only [polygonIncr, List.mem_cons]; right; exact hδ))
      simpa using this

end CtrlVerif.Nyquist
