/-
Lemmas about the primitives of `Model/PyEval.lean` (3-D arrays, broadcasting, counted loops that
fill an array row by row / slab by slab), used by `Props/C04Gen*.lean`, the proofs that the C04
model equals the evaluation functions generated from the source text.  Not trusted: only
consequences of the definitions.  Nothing here mentions a generated file.
-/
import CtrlVerif.Model.PyEval
import CtrlVerif.Lemmas.PyTF
import CtrlVerif.Lemmas.PyMat
import CtrlVerif.Lemmas.Eval

set_option linter.unusedSectionVars false

namespace CtrlVerif.PyEval
open CtrlVerif CtrlVerif.Eval

variable {K : Type} [Field K] [DecidableEq K]

/-! ## arrays -/

theorem NArr.ext' {α : Type} {a b : NArr α} (hp : a.p = b.p) (hm : a.m = b.m) (hn : a.n = b.n)
    (hg : ∀ i j k, a.get i j k = b.get i j k) : a = b := by
  obtain ⟨p, m, n, g⟩ := a
  obtain ⟨p', m', n', g'⟩ := b
  simp only at hp hm hn hg
  subst hp hm hn
  have : g = g' := by funext i j k; exact hg i j k
  rw [this]

/-- an array given by a function on positions (guarded by the sizes). -/
def tab {α : Type} (p m n : Nat) (f : Nat → Nat → Nat → Option α) : NArr α :=
  ⟨p, m, n, fun i j k => if i < p ∧ j < m ∧ k < n then f i j k else none⟩

theorem tab_congr {α : Type} {p m n : Nat} {f g : Nat → Nat → Nat → Option α}
    (h : ∀ i j k, i < p → j < m → k < n → f i j k = g i j k) : tab p m n f = tab p m n g := by
  refine NArr.ext' rfl rfl rfl ?_
  intro i j k
  simp only [tab]
  by_cases hg : i < p ∧ j < m ∧ k < n
  · rw [if_pos hg, if_pos hg]; exact h i j k hg.1 hg.2.1 hg.2.2
  · rw [if_neg hg, if_neg hg]

theorem ofFn_eq_tab {α : Type} {p m n : Nat} (f : Fin p → Fin m → Fin n → α) :
    NArr.ofFn p m n f = tab p m n fun i j k =>
      if h : i < p ∧ j < m ∧ k < n then some (f ⟨i, h.1⟩ ⟨j, h.2.1⟩ ⟨k, h.2.2⟩) else none := by
  refine NArr.ext' rfl rfl rfl ?_
  intro i j k
  simp only [NArr.ofFn, tab]
  by_cases hg : i < p ∧ j < m ∧ k < n
  · rw [dif_pos hg, if_pos hg]
  · rw [dif_neg hg, if_neg hg]

theorem ofFn_get_none {α : Type} {p m n : Nat} (f : Fin p → Fin m → Fin n → α) {r c k : Nat}
    (h : ¬ (r < p ∧ c < m ∧ k < n)) : (NArr.ofFn p m n f).get r c k = none := by
  simp only [NArr.ofFn]; rw [dif_neg h]

theorem ofFn_get {α : Type} {p m n : Nat} (f : Fin p → Fin m → Fin n → α) {r c k : Nat}
    (hr : r < p) (hc : c < m) (hk : k < n) :
    (NArr.ofFn p m n f).get r c k = some (f ⟨r, hr⟩ ⟨c, hc⟩ ⟨k, hk⟩) := by
  simp only [NArr.ofFn]; rw [dif_pos ⟨hr, hc, hk⟩]

/-- an array all of whose entries inside the sizes are specified is an `ofFn`. -/
theorem tab_eq_ofFn {α : Type} {p m n : Nat} (g : Nat → Nat → Nat → Option α)
    (f : Fin p → Fin m → Fin n → α)
    (h : ∀ (i : Fin p) (j : Fin m) (k : Fin n), g i j k = some (f i j k)) :
    tab p m n g = NArr.ofFn p m n f := by
  rw [ofFn_eq_tab]
  apply tab_congr
  intro i j k hi hj hk
  rw [dif_pos ⟨hi, hj, hk⟩]
  exact h ⟨i, hi⟩ ⟨j, hj⟩ ⟨k, hk⟩

/-! ## filling row by row (`out[i][j] = v` in two nested counted loops) -/

/-- the rows before `(i, j)` (row-major) of `T` are written, the others unspecified. -/
def fillTo {α : Type} (T : NArr α) (i j : Nat) : NArr α :=
  ⟨T.p, T.m, T.n, fun r c k => if r < i ∨ (r = i ∧ c < j) then T.get r c k else none⟩

theorem fillTo_zero {p m n : Nat} (f : Fin p → Fin m → Fin n → Cx K) :
    fillTo (NArr.ofFn p m n f) 0 0 = empty3 p m n := by
  refine NArr.ext' rfl rfl rfl ?_
  intro i j k
  simp [fillTo, empty3]

theorem fillTo_row_end {α : Type} {p m n : Nat} (f : Fin p → Fin m → Fin n → α) (i : Nat) :
    fillTo (NArr.ofFn p m n f) i m = fillTo (NArr.ofFn p m n f) (i + 1) 0 := by
  refine NArr.ext' rfl rfl rfl ?_
  intro r c k
  simp only [fillTo]
  by_cases hc : c < m
  · have : (r < i ∨ r = i ∧ c < m) ↔ (r < i + 1 ∨ r = i + 1 ∧ c < 0) := by omega
    simp only [this]
  · rw [ofFn_get_none f (by omega)]
    simp

theorem fillTo_all {α : Type} {p m n : Nat} (f : Fin p → Fin m → Fin n → α) :
    fillTo (NArr.ofFn p m n f) p 0 = NArr.ofFn p m n f := by
  refine NArr.ext' rfl rfl rfl ?_
  intro r c k
  simp only [fillTo]
  by_cases hr : r < p
  · simp [hr]
  · rw [ofFn_get_none f (by omega)]
    simp

theorem fillTo_setRow {p m n : Nat} (f : Fin p → Fin m → Fin n → Cx K) {i j : Nat} (hi : i < p)
    (hj : j < m) (v : List (Cx K)) (hl : v.length = n)
    (hv : ∀ k (hk : k < n), v[k]? = some (f ⟨i, hi⟩ ⟨j, hj⟩ ⟨k, hk⟩)) :
    Arr3.setRow (fillTo (NArr.ofFn p m n f) i j) (i : Int) (j : Int) v
      = .ok (fillTo (NArr.ofFn p m n f) i (j + 1)) := by
  have h1 : PyArith.normIdx (fillTo (NArr.ofFn p m n f) i j).p (i : Int) = .ok i :=
    PyArith.normIdx_nat hi
  have h2 : PyArith.normIdx (fillTo (NArr.ofFn p m n f) i j).m (j : Int) = .ok j :=
    PyArith.normIdx_nat hj
  simp only [Arr3.setRow, h1, h2]
  rw [if_pos (by simpa [fillTo, NArr.ofFn] using hl)]
  congr 1
  refine NArr.ext' rfl rfl rfl ?_
  intro r c k
  simp only [fillTo]
  by_cases h : r = i ∧ c = j
  · obtain ⟨rfl, rfl⟩ := h
    simp only [and_self, if_true, lt_irrefl, false_or, true_and, Nat.lt_succ_self]
    by_cases hk : k < n
    · rw [hv k hk, ofFn_get f hi hj hk]
    · rw [ofFn_get_none f (by omega), List.getElem?_eq_none (by omega)]
  · rw [if_neg h]
    have : (r < i ∨ r = i ∧ c < j) ↔ (r < i ∨ r = i ∧ c < j + 1) := by omega
    simp only [this]

/-! ## IEEE division of value arrays -/

theorem cdiv_eq (P : Parts K) (n d : K) : cdiv P n d = ieeeDivCx P n d := rfl

theorem cdivArr_polyval (P : Parts K) (num den xs : List K) :
    cdivArr P (polyvalArr num xs) (polyvalArr den xs)
      = .ok (xs.map fun x => ieeeDivCx P (polyval num x) (polyval den x)) := by
  simp only [cdivArr, polyvalArr, List.length_map, if_true]
  congr 1
  induction xs with
  | nil => rfl
  | cons a t ih => simp [ih, cdiv_eq]

/-! ## broadcasting -/

theorem bdim_one_right (a : Nat) : bdim a 1 = .ok a := by
  unfold bdim
  by_cases h : a = 1
  · simp [h]
  · simp [h]

theorem bdim_one_left (b : Nat) : bdim 1 b = .ok b := by
  unfold bdim
  by_cases h : 1 = b
  · simp [h]
  · simp [h]

theorem bdim_self (a : Nat) : bdim a a = .ok a := by simp [bdim]

theorem bidx_one (k : Nat) : bidx 1 k = 0 := by simp [bidx]

theorem bidx_of_lt {d k : Nat} (h : k < d) : bidx d k = k := by
  unfold bidx
  by_cases hd : d = 1
  · rw [if_pos hd]; omega
  · rw [if_neg hd]

theorem bdim_ok {a b c : Nat} (h : bdim a b = .ok c) : (a = c ∨ a = 1) ∧ (b = c ∨ b = 1) := by
  unfold bdim at h
  by_cases h1 : a = b
  · rw [if_pos h1] at h; cases h; exact ⟨Or.inl rfl, Or.inl h1.symm⟩
  · rw [if_neg h1] at h
    by_cases h2 : a = 1
    · rw [if_pos h2] at h; cases h; exact ⟨Or.inr h2, Or.inl rfl⟩
    · rw [if_neg h2] at h
      by_cases h3 : b = 1
      · rw [if_pos h3] at h; cases h; exact ⟨Or.inl rfl, Or.inr h3⟩
      · rw [if_neg h3] at h; cases h

theorem bidx_lt {a c i : Nat} (h : a = c ∨ a = 1) (hi : i < c) : bidx a i < a := by
  unfold bidx
  rcases h with h | h
  · subst h
    by_cases hd : a = 1
    · rw [if_pos hd]; omega
    · rw [if_neg hd]; exact hi
  · subst h; simp

/-- an element-wise operator on two guarded arrays whose sizes broadcast. -/
theorem zipWith_tab (f : Option (Cx K) → Option (Cx K) → Option (Cx K))
    (a b : Nat → Nat → Nat → Option (Cx K)) {p m n p' m' n' P M N : Nat}
    (hp : bdim p p' = .ok P) (hm : bdim m m' = .ok M) (hn : bdim n n' = .ok N) :
    Arr3.zipWith f (tab p m n a) (tab p' m' n' b)
      = .ok (tab P M N fun i j k => f (a (bidx p i) (bidx m j) (bidx n k))
          (b (bidx p' i) (bidx m' j) (bidx n' k))) := by
  have hp' : bdim (tab p m n a).p (tab p' m' n' b).p = .ok P := hp
  have hm' : bdim (tab p m n a).m (tab p' m' n' b).m = .ok M := hm
  have hn' : bdim (tab p m n a).n (tab p' m' n' b).n = .ok N := hn
  simp only [Arr3.zipWith, hp', hm', hn', bind, Except.bind, pure, Except.pure]
  congr 1
  refine NArr.ext' rfl rfl rfl ?_
  intro i j k
  simp only [tab]
  by_cases hg : i < P ∧ j < M ∧ k < N
  · rw [if_pos hg, if_pos hg]
    have := bdim_ok hp; have := bdim_ok hm; have := bdim_ok hn
    rw [if_pos ⟨bidx_lt (bdim_ok hp).1 hg.1, bidx_lt (bdim_ok hm).1 hg.2.1, bidx_lt (bdim_ok hn).1 hg.2.2⟩,
      if_pos ⟨bidx_lt (bdim_ok hp).2 hg.1, bidx_lt (bdim_ok hm).2 hg.2.1, bidx_lt (bdim_ok hn).2 hg.2.2⟩]
  · rw [if_neg hg, if_neg hg]

theorem ofMat_eq_tab (r c : Nat) (M : Matrix (Fin r) (Fin c) K) :
    Arr3.ofMat ⟨r, c, M⟩ = tab r c 1 fun i j _ =>
      if h : i < r ∧ j < c then some (.fin (M ⟨i, h.1⟩ ⟨j, h.2⟩)) else none := by
  unfold Arr3.ofMat
  rw [ofFn_eq_tab]
  apply tab_congr
  intro i j k hi hj hk
  rw [dif_pos ⟨hi, hj, hk⟩, dif_pos ⟨hi, hj⟩]

theorem ofVec_eq_tab (xs : List K) :
    Arr3.ofVec xs = tab 1 1 xs.length fun _ _ k => (xs[k]?).map Cx.fin := by
  unfold Arr3.ofVec
  rw [ofFn_eq_tab]
  apply tab_congr
  intro i j k hi hj hk
  rw [dif_pos ⟨hi, hj, hk⟩]
  simp [List.getElem?_eq_getElem hk]

/-- the 0-state path: `D[:, :, np.newaxis] * np.ones_like(x_arr)`. -/
theorem static_branch (p m : Nat) (D : Matrix (Fin p) (Fin m) K) (xs : List K) :
    Arr3.mul (Arr3.ofMat ⟨p, m, D⟩) (Arr3.ofVec (onesLike xs))
      = .ok (NArr.ofFn p m xs.length fun i j _ => .fin (D i j)) := by
  unfold Arr3.mul
  rw [ofMat_eq_tab, ofVec_eq_tab, zipWith_tab _ _ _ (bdim_one_right p) (bdim_one_right m) (bdim_one_left _)]
  congr 1
  have hl : (onesLike xs).length = xs.length := by simp [onesLike]
  rw [hl]
  apply tab_eq_ofFn
  intro i j k
  simp [bidx_of_lt i.isLt, bidx_of_lt j.isLt, bidx_of_lt k.isLt, vmul, onesLike]

/-! ## the first-order fast path -/

/-- `zipWith_tab` without side conditions (a `simp` lemma: the three `bdim`s are then evaluated). -/
theorem zipWith_tab' (f : Option (Cx K) → Option (Cx K) → Option (Cx K))
    (a b : Nat → Nat → Nat → Option (Cx K)) (p m n p' m' n' : Nat) :
    Arr3.zipWith f (tab p m n a) (tab p' m' n' b)
      = (bdim p p').bind fun P => (bdim m m').bind fun M => (bdim n n').bind fun N =>
          .ok (tab P M N fun i j k => f (a (bidx p i) (bidx m j) (bidx n k))
            (b (bidx p' i) (bidx m' j) (bidx n' k))) := by
  cases hp : bdim p p' with
  | error e => simp [Arr3.zipWith, tab, hp, bind, Except.bind]
  | ok P =>
    cases hm : bdim m m' with
    | error e => simp [Arr3.zipWith, tab, hp, hm, bind, Except.bind]
    | ok M =>
      cases hn : bdim n n' with
      | error e => simp [Arr3.zipWith, tab, hp, hm, hn, bind, Except.bind]
      | ok N => rw [zipWith_tab f a b hp hm hn]; rfl

theorem matItem_00 (A : Matrix (Fin 1) (Fin 1) K) : matItem ⟨1, 1, A⟩ 0 0 = .ok (A 0 0) := by
  simp [matItem, PyArith.normIdx]

theorem setMask_tab (p m n : Nat) (g : Nat → Nat → Nat → Option (Cx K)) (mask : List Bool) (v : Cx K)
    (h : mask.length = n) :
    Arr3.setMask (tab p m n g) mask v
      = .ok (tab p m n fun i j k => if mask[k]? = some true then some v else g i j k) := by
  unfold Arr3.setMask
  rw [if_pos (by simpa [tab] using h)]
  congr 1
  refine NArr.ext' rfl rfl rfl ?_
  intro i j k
  by_cases hk : k < n
  · by_cases hij : i < p ∧ j < m
    · simp [tab, hk, hij]
    · have : ¬ (i < p ∧ j < m ∧ k < n) := fun h' => hij ⟨h'.1, h'.2.1⟩
      simp only [tab, hij, this, if_false]
      split <;> rfl
  · have h1 : mask[k]? = none := List.getElem?_eq_none (by omega)
    have h2 : ¬ (i < p ∧ j < m ∧ k < n) := fun h' => hk h'.2.2
    simp [tab, h1, h2]

theorem anyB_eqNum (xs : List K) (a : K) : anyB (eqNum xs a) = true ↔ ∃ x ∈ xs, x = a := by
  simp [anyB, eqNum]

theorem eqNum_get (xs : List K) (a : K) (k : Nat) (hk : k < xs.length) :
    (eqNum xs a)[k]? = some (decide (xs[k] = a)) := by
  simp [eqNum, List.getElem?_eq_getElem hk]

/-- what the formula of the first-order fast path leaves in `out`: the value off the pole,
something unspecified at it. -/
def foOut (p m : Nat) (C : Matrix (Fin p) (Fin 1) K) (B : Matrix (Fin 1) (Fin m) K)
    (D : Matrix (Fin p) (Fin m) K) (a : K) (xs : List K) : Arr3 K :=
  tab p m xs.length fun i j k =>
    if h : i < p ∧ j < m ∧ k < xs.length then
      (if xs[k] - a = 0 then none
       else some (.fin (C ⟨i, h.1⟩ 0 / (xs[k] - a) * B 0 ⟨j, h.2.1⟩ + D ⟨i, h.1⟩ ⟨j, h.2.1⟩)))
    else none

theorem first_order (P : Parts K) (p m : Nat) (C : Matrix (Fin p) (Fin 1) K) (B : Matrix (Fin 1) (Fin m) K)
    (D : Matrix (Fin p) (Fin m) K) (a : K) (xs : List K) :
    (do
        let t3 ← Arr3.div P (Arr3.ofMat ⟨p, 1, C⟩) (Arr3.ofVec (subNum xs a))
        let t4 ← Arr3.mul t3 (Arr3.ofMat ⟨1, m, B⟩)
        Arr3.add t4 (Arr3.ofMat ⟨p, m, D⟩)) = .ok (foOut p m C B D a xs) := by
  have hl : (subNum xs a).length = xs.length := by simp [subNum]
  simp only [Arr3.div, Arr3.mul, Arr3.add, ofMat_eq_tab, ofVec_eq_tab, zipWith_tab', bdim_one_right,
    bdim_one_left, bdim_self, bind, Except.bind, hl]
  congr 1
  apply tab_congr
  intro i j k hi hj hk
  by_cases hx : xs[k] - a = 0
  · simp [bidx_one, bidx_of_lt hi, bidx_of_lt hj, bidx_of_lt hk, vmul, vadd, vdiv, subNum, cdiv, hx, hi, hj, hk]
  · simp [bidx_one, bidx_of_lt hi, bidx_of_lt hj, bidx_of_lt hk, vmul, vadd, vdiv, subNum, cdiv, hx, hi, hj, hk]

/-! ## filling slab by slab (`out[:, :, k] = V` in a loop over `enumerate(x_arr)`) -/

theorem enumerate_length {α : Type} (xs : List α) : (enumerate xs).length = xs.length := by
  simp [enumerate]

theorem enumerate_get {α : Type} (xs : List α) (k : Nat) (hk : k < xs.length) :
    (enumerate xs)[k]'(by rw [enumerate_length]; exact hk) = (k, xs[k]) := by
  simp [enumerate]

/-- a loop over `enumerate(xs)` when the states are known: `F k` is the state before round `k`. -/
theorem foldlM_enumerate_eq {σ α : Type} (xs : List α) (f : σ → Nat × α → Except Err σ) (F : Nat → σ)
    (s0 : σ) (h0 : s0 = F 0)
    (hstep : ∀ k (hk : k < xs.length), f (F k) (k, xs[k]) = .ok (F (k + 1))) :
    List.foldlM f s0 (enumerate xs) = .ok (F xs.length) := by
  have := PyTF.foldlM_list_eq (enumerate xs) f F s0 h0 (by
    intro k hk
    have hk' : k < xs.length := by rwa [enumerate_length] at hk
    rw [enumerate_get xs k hk']
    exact hstep k hk')
  rwa [enumerate_length] at this

/-- the slabs before `k` of `T` are written, the others unspecified. -/
def fillK {α : Type} (T : NArr α) (k : Nat) : NArr α :=
  ⟨T.p, T.m, T.n, fun i j k' => if k' < k then T.get i j k' else none⟩

theorem fillK_zero {p m n : Nat} (f : Fin p → Fin m → Fin n → Cx K) :
    fillK (NArr.ofFn p m n f) 0 = empty3 p m n := by
  refine NArr.ext' rfl rfl rfl ?_
  intro i j k
  simp [fillK, empty3]

theorem fillK_all {α : Type} {p m n : Nat} (f : Fin p → Fin m → Fin n → α) :
    fillK (NArr.ofFn p m n f) n = NArr.ofFn p m n f := by
  refine NArr.ext' rfl rfl rfl ?_
  intro i j k
  simp only [fillK]
  by_cases hk : k < n
  · simp [hk]
  · rw [ofFn_get_none f (by omega)]; simp

theorem fillK_setSlab {p m n : Nat} (f : Fin p → Fin m → Fin n → Cx K) {k : Nat} (hk : k < n)
    (V : Matrix (Fin p) (Fin m) K) (hV : ∀ i j, f i j ⟨k, hk⟩ = .fin (V i j)) :
    Arr3.setSlab (fillK (NArr.ofFn p m n f) k) (k : Int) ⟨p, m, V⟩
      = .ok (fillK (NArr.ofFn p m n f) (k + 1)) := by
  have h1 : PyArith.normIdx (fillK (NArr.ofFn p m n f) k).n (k : Int) = .ok k := PyArith.normIdx_nat hk
  simp only [Arr3.setSlab, h1]
  rw [dif_pos ⟨rfl, rfl⟩]
  congr 1
  refine NArr.ext' rfl rfl rfl ?_
  intro i j k'
  simp only [fillK]
  by_cases hkk : k' = k
  · subst hkk
    simp only [if_true, Nat.lt_succ_self]
    by_cases hij : i < p ∧ j < m
    · rw [dif_pos hij, ofFn_get f hij.1 hij.2 hk, hV]
    · rw [dif_neg hij, ofFn_get_none f (fun h => hij ⟨h.1, h.2.1⟩)]
  · rw [if_neg hkk]
    have : (k' < k) ↔ (k' < k + 1) := by omega
    simp only [this]

theorem fillK_setSlabConst {p m n : Nat} (f : Fin p → Fin m → Fin n → Cx K) {k : Nat} (hk : k < n)
    (v : Cx K) (hv : ∀ i j, f i j ⟨k, hk⟩ = v) :
    Arr3.setSlabConst (fillK (NArr.ofFn p m n f) k) (k : Int) v
      = .ok (fillK (NArr.ofFn p m n f) (k + 1)) := by
  have h1 : PyArith.normIdx (fillK (NArr.ofFn p m n f) k).n (k : Int) = .ok k := PyArith.normIdx_nat hk
  simp only [Arr3.setSlabConst, h1]
  congr 1
  refine NArr.ext' rfl rfl rfl ?_
  intro i j k'
  simp only [fillK]
  by_cases hkk : k' = k
  · subst hkk
    simp only [if_true, Nat.lt_succ_self]
    by_cases hij : i < p ∧ j < m
    · rw [ofFn_get f hij.1 hij.2 hk, hv]
      exact if_pos hij
    · rw [ofFn_get_none f (fun h => hij ⟨h.1, h.2.1⟩)]
      exact if_neg hij
  · rw [if_neg hkk]
    have : (k' < k) ↔ (k' < k + 1) := by omega
    simp only [this]

/-! ## the entry test of `_dcgain` -/

theorem isreal_ofFn (P : Parts K) (p m n : Nat) (f : Fin p → Fin m → Fin n → Cx K) :
    isreal P (NArr.ofFn p m n f) = NArr.ofFn p m n fun i j k =>
      match f i j k with
      | .fin z => P.isReal z
      | .div0 _ _ => false := by
  refine NArr.ext' rfl rfl rfl ?_
  intro i j k
  simp only [isreal, NArr.ofFn]
  by_cases hg : i < p ∧ j < m ∧ k < n
  · rw [dif_pos hg, dif_pos hg]; rfl
  · rw [dif_neg hg, dif_neg hg]; rfl

theorem isnanImag_ofFn (p m n : Nat) (f : Fin p → Fin m → Fin n → Cx K) :
    isnanImag (NArr.ofFn p m n f) = NArr.ofFn p m n fun i j k =>
      match f i j k with
      | .fin _ => false
      | .div0 _ im => !im := by
  refine NArr.ext' rfl rfl rfl ?_
  intro i j k
  simp only [isnanImag, NArr.ofFn]
  by_cases hg : i < p ∧ j < m ∧ k < n
  · rw [dif_pos hg, dif_pos hg]; rfl
  · rw [dif_neg hg, dif_neg hg]; rfl

theorem logicalOr_ofFn (p m n : Nat) (a b : Fin p → Fin m → Fin n → Bool) :
    logicalOr (NArr.ofFn p m n a) (NArr.ofFn p m n b)
      = .ok (NArr.ofFn p m n fun i j k => a i j k || b i j k) := by
  unfold logicalOr
  rw [if_pos ⟨rfl, rfl, rfl⟩]
  congr 1
  refine NArr.ext' rfl rfl rfl ?_
  intro i j k
  simp only [NArr.ofFn]
  by_cases hg : i < p ∧ j < m ∧ k < n
  · simp only [dif_pos hg]
  · simp only [dif_neg hg]

/-- the entry test of `_dcgain` on an array of values is the model's `Parts.passes`. -/
theorem passes_ofFn (P : Parts K) (p m n : Nat) (f : Fin p → Fin m → Fin n → Cx K) :
    logicalOr (isreal P (NArr.ofFn p m n f)) (isnanImag (NArr.ofFn p m n f))
      = .ok (NArr.ofFn p m n fun i j k => P.passes (f i j k)) := by
  rw [isreal_ofFn, isnanImag_ofFn, logicalOr_ofFn]
  congr 2
  funext i j k
  cases f i j k <;> simp [Parts.passes]

theorem allB_ofFn (p m n : Nat) (g : Fin p → Fin m → Fin n → Bool) :
    allB (NArr.ofFn p m n g) = .ok (decide (∀ i j k, g i j k = true)) := by
  unfold allB
  have hsome : ((List.range p).all fun i => (List.range m).all fun j => (List.range n).all fun k =>
      ((NArr.ofFn p m n g).get i j k).isSome) = true := by
    simp only [List.all_eq_true, List.mem_range]
    intro i hi j hj k hk
    rw [ofFn_get g hi hj hk]; rfl
  rw [if_pos (by exact hsome)]
  congr 1
  show _ = decide _
  rw [Bool.eq_iff_iff]
  simp only [List.all_eq_true, List.mem_range, decide_eq_true_eq, beq_iff_eq]
  constructor
  · intro h i j k
    have := h i i.isLt j j.isLt k k.isLt
    rw [ofFn_get g i.isLt j.isLt k.isLt] at this
    exact Option.some.inj this
  · intro h i hi j hj k hk
    rw [ofFn_get g hi hj hk, h]

theorem realPart_ofFn (P : Parts K) (p m n : Nat) (f : Fin p → Fin m → Fin n → Cx K) :
    realPart P (NArr.ofFn p m n f) = NArr.ofFn p m n fun i j k => P.reCls (f i j k) := by
  refine NArr.ext' rfl rfl rfl ?_
  intro i j k
  simp only [realPart, NArr.ofFn]
  by_cases hg : i < p ∧ j < m ∧ k < n
  · rw [dif_pos hg, dif_pos hg]
    simp only [Option.map_some]
    cases f ⟨i, hg.1⟩ ⟨j, hg.2.1⟩ ⟨k, hg.2.2⟩ <;> rfl
  · rw [dif_neg hg, dif_neg hg]; rfl

end CtrlVerif.PyEval
