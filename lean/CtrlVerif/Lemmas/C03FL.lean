/-
Helper lemmas for C03-FL: the Faddeev–LeVerrier recursion is correct as an algorithm.

Part 1 (any commutative ring `R`, any finite index type): Jacobi's formula for the determinant of
a polynomial matrix (`derivative_det`), hence `tr adj(X·1 − A) = (charpoly A)'`
(`trace_adjugate_charmatrix`), and the coefficient matrices `adjC A j` of `X · adj(X·1 − A)`:
  * `adjC_rec`   : `adjC A j = A * adjC A (j+1) + (charpoly A).coeff j • 1`     (all `j`)
  * `trace_adjC` : `tr (adjC A j) = j * (charpoly A).coeff j`
  * `adjC_zero`, `adjC_top`, `adjC_card`: `adjC A 0 = 0`, `adjC A j = 0` for `j > card`,
    `adjC A card = 1`.
Part 2 (field `K`, `(k : K) ≠ 0` for `1 ≤ k ≤ n`; in particular characteristic 0): the model's
loop `Convert.flvLoop` produces exactly `flSteps A` = `[(p_{n-1}, adjC n), …, (p_0, adjC 1)]`.
-/
import CtrlVerif.Lemmas.Convert
import Mathlib.LinearAlgebra.Matrix.Charpoly.Coeff
import Mathlib.LinearAlgebra.Matrix.Charpoly.Eigs
import Mathlib.LinearAlgebra.Matrix.Adjugate
import Mathlib.Algebra.Polynomial.Derivative

namespace CtrlVerif.C03FL

open Matrix Polynomial Finset

section ring

variable {R : Type*} [CommRing R] {n : Type*} [Fintype n] [DecidableEq n]

/-- **Jacobi's formula** for a polynomial matrix: the derivative of the determinant is the sum
over the columns of the determinants with that column differentiated. -/
theorem derivative_det (M : Matrix n n R[X]) :
    derivative M.det = ∑ i, (M.updateCol i fun k => derivative (M k i)).det := by
  simp only [det_apply, map_sum]
  rw [Finset.sum_comm]
  refine Finset.sum_congr rfl fun σ _ => ?_
  rw [Units.smul_def, map_zsmul, derivative_prod_finset, Finset.smul_sum]
  refine Finset.sum_congr rfl fun i _ => ?_
  rw [Units.smul_def]
  congr 1
  rw [← Finset.mul_prod_erase univ _ (Finset.mem_univ i), updateCol_self, mul_comm]
  congr 1
  refine Finset.prod_congr rfl fun j hj => ?_
  rw [updateCol_ne (Finset.ne_of_mem_erase hj)]

/-- the diagonal entries of the adjugate as column-replacement determinants. -/
theorem adjugate_diag (M : Matrix n n R) (i : n) :
    adjugate M i i = (M.updateCol i (Pi.single i 1)).det := by
  have h : adjugate M i i = (adjugate M)ᵀ i i := rfl
  rw [h, adjugate_transpose, adjugate_apply, updateRow_transpose, det_transpose]

theorem derivative_charmatrix (A : Matrix n n R) (i k : n) :
    derivative (charmatrix A k i) = (Pi.single i 1 : n → R[X]) k := by
  rw [charmatrix_apply, diagonal_apply]
  by_cases h : k = i
  · subst h; simp
  · simp [h]

/-- `tr adj(X·1 − A) = (charpoly A)'`. -/
theorem trace_adjugate_charmatrix (A : Matrix n n R) :
    trace (adjugate (charmatrix A)) = derivative A.charpoly := by
  rw [Matrix.charpoly, derivative_det, trace]
  refine Finset.sum_congr rfl fun i _ => ?_
  rw [diag_apply, adjugate_diag]
  congr 1
  ext k l
  by_cases h : l = i
  · subst h; rw [updateCol_self, updateCol_self, derivative_charmatrix]
  · rw [updateCol_ne h, updateCol_ne h]

/-- coefficient `j` of `X · adj(X·1 − A)`, as a matrix (`adjC A (j+1)` is coefficient `j` of
`adj(X·1 − A)`, `adjC A 0 = 0`). -/
noncomputable def adjC (A : Matrix n n R) (j : ℕ) : Matrix n n R :=
  fun i l => ((X : R[X]) * adjugate (charmatrix A) i l).coeff j

theorem adjC_succ_apply (A : Matrix n n R) (j : ℕ) (i l : n) :
    adjC A (j + 1) i l = (adjugate (charmatrix A) i l).coeff j := by
  simp [adjC, coeff_X_mul]

@[simp] theorem adjC_zero (A : Matrix n n R) : adjC A 0 = 0 := by
  ext i l; simp [adjC]

/-- the Faddeev–LeVerrier recursion, read off `(X·1 − A) · adj(X·1 − A) = charpoly · 1`. -/
theorem adjC_rec (A : Matrix n n R) (j : ℕ) :
    adjC A j = A * adjC A (j + 1) + A.charpoly.coeff j • (1 : Matrix n n R) := by
  ext i l
  have h := congrFun (congrFun (mul_adjugate (charmatrix A)) i) l
  rw [mul_apply] at h
  have h2 : ∑ m, charmatrix A i m * adjugate (charmatrix A) m l
      = X * adjugate (charmatrix A) i l - ∑ m, C (A i m) * adjugate (charmatrix A) m l := by
    simp only [charmatrix_apply, diagonal_apply, sub_mul, Finset.sum_sub_distrib, ite_mul,
      zero_mul, Finset.sum_ite_eq, Finset.mem_univ, if_true]
  rw [h2] at h
  have h3 := congrArg (fun q => q.coeff j) h
  simp only [coeff_sub, finsetSum_coeff, coeff_C_mul, Matrix.smul_apply, Matrix.one_apply,
    smul_eq_mul] at h3
  simp only [Matrix.add_apply, Matrix.mul_apply, adjC_succ_apply, Matrix.smul_apply,
    Matrix.one_apply, smul_eq_mul]
  have h4 : adjC A j i l = (X * adjugate (charmatrix A) i l).coeff j := rfl
  rw [h4]
  by_cases hil : i = l
  · simp only [hil, if_true, mul_one] at h3 ⊢
    rw [← Matrix.charpoly] at h3
    rw [← h3]; ring
  · simp only [hil, if_false, mul_zero, coeff_zero] at h3 ⊢
    rw [← h3]; ring

theorem trace_adjC (A : Matrix n n R) (j : ℕ) :
    trace (adjC A j) = (j : R) * A.charpoly.coeff j := by
  have h : trace (adjC A j) = ((X : R[X]) * trace (adjugate (charmatrix A))).coeff j := by
    simp only [trace, diag_apply, adjC, Finset.mul_sum, finsetSum_coeff]
  rw [h, trace_adjugate_charmatrix]
  cases j with
  | zero => simp
  | succ j => rw [coeff_X_mul, coeff_derivative]; push_cast; ring

/-- far enough up, all coefficients vanish (finitely many polynomial entries). -/
theorem adjC_eventually_zero (A : Matrix n n R) : ∃ D : ℕ, ∀ j, D < j → adjC A j = 0 := by
  let f : n × n → ℕ := fun il => ((X : R[X]) * adjugate (charmatrix A) il.1 il.2).natDegree
  refine ⟨Finset.univ.sup f, fun j hj => ?_⟩
  ext i l
  have hle : f (i, l) ≤ Finset.univ.sup f := Finset.le_sup (Finset.mem_univ _)
  have hlt : ((X : R[X]) * adjugate (charmatrix A) i l).natDegree < j := lt_of_le_of_lt hle hj
  have := coeff_eq_zero_of_natDegree_lt hlt
  rw [Matrix.zero_apply]
  exact this

theorem charpoly_coeff_of_card_lt (A : Matrix n n R) {j : ℕ} (hj : Fintype.card n < j) :
    A.charpoly.coeff j = 0 := by
  rcases subsingleton_or_nontrivial R with h | h
  · exact Subsingleton.elim _ _
  · exact coeff_eq_zero_of_natDegree_lt (by rw [charpoly_natDegree_eq_dim]; exact hj)

theorem charpoly_coeff_card (A : Matrix n n R) : A.charpoly.coeff (Fintype.card n) = 1 := by
  rcases subsingleton_or_nontrivial R with h | h
  · exact Subsingleton.elim _ _
  · have := (charpoly_monic A).coeff_natDegree
    rwa [charpoly_natDegree_eq_dim] at this

/-- `adj(X·1 − A)` has degree `< card`: the coefficients above `card` vanish. -/
theorem adjC_top (A : Matrix n n R) {j : ℕ} (hj : Fintype.card n < j) : adjC A j = 0 := by
  obtain ⟨D, hD⟩ := adjC_eventually_zero A
  have key : ∀ k j, Fintype.card n < j → D < j + k → adjC A j = 0 := by
    intro k
    induction k with
    | zero => intro j _ h; exact hD j h
    | succ k ih =>
      intro j hj h
      rw [adjC_rec, charpoly_coeff_of_card_lt A hj, ih (j + 1) (by omega) (by omega)]
      simp
  exact key (D + 1) j hj (by omega)

/-- the leading coefficient of `adj(X·1 − A)` is the identity. -/
theorem adjC_card (A : Matrix n n R) : adjC A (Fintype.card n) = 1 := by
  rw [adjC_rec, adjC_top A (Nat.lt_succ_self _), charpoly_coeff_card]
  simp

/-- the trace step of Faddeev–LeVerrier: `tr (A · N_{j}) = −(n − j) p_j`
(written without subtraction of naturals: `j + k = n`). -/
theorem trace_mul_adjC (A : Matrix n n R) (j k : ℕ) (h : j + k = Fintype.card n) :
    trace (A * adjC A (j + 1)) = -((k : R) * A.charpoly.coeff j) := by
  have h1 := congrArg trace (adjC_rec A j)
  rw [trace_add, trace_smul, trace_one, trace_adjC, ← h] at h1
  push_cast at h1
  simp only [smul_eq_mul] at h1
  linear_combination -h1

end ring

section field

open CtrlVerif.Convert

variable {K : Type} [Field K] [DecidableEq K] {n : ℕ}

theorem untab_tab {a b : ℕ} (M : Matrix (Fin a) (Fin b) K) : untab (tab M) = M := by
  ext i j; simp [untab, tab]

/-- what Faddeev–LeVerrier is supposed to produce with `fuel` steps left:
`[(p_{fuel-1}, adjC fuel), …, (p_0, adjC 1)]`, `p` the characteristic polynomial. -/
noncomputable def flSteps (A : Matrix (Fin n) (Fin n) K) :
    ℕ → List (K × Matrix (Fin n) (Fin n) K)
  | 0 => []
  | f + 1 => (A.charpoly.coeff f, adjC A (f + 1)) :: flSteps A f

/-- the model's loop, started in the middle (`k - 1` steps done, `fuel` steps left,
`fuel + k = n + 1`) on the right current matrix, produces the rest of the right list.
The only place where division is used: `(k : K) ≠ 0` for `1 ≤ k ≤ n`. -/
theorem flvLoop_eq (A : Matrix (Fin n) (Fin n) K) (hchar : ∀ k : ℕ, 0 < k → k ≤ n → (k : K) ≠ 0) :
    ∀ fuel k : ℕ, 0 < k → fuel + k = n + 1 →
      (flvLoop (tab A) fuel k (tab (adjC A fuel))).map (fun cM => (cM.1, untab cM.2))
        = flSteps A fuel := by
  intro fuel
  induction fuel with
  | zero => intro k _ _; rfl
  | succ f ih =>
    intro k hk hfk
    have hk' : (k : K) ≠ 0 := hchar k hk (by omega)
    have htr := trace_mul_adjC A f k (by rw [Fintype.card_fin]; omega)
    have hc : -(trace (A * adjC A (f + 1))) / (k : K) = A.charpoly.coeff f := by
      rw [htr]; field_simp
    simp only [flvLoop, List.map_cons, untab_tab, flSteps, hc]
    rw [← adjC_rec A f, ih (k + 1) (by omega) (by omega)]

theorem flvPropose_eq (A : Matrix (Fin n) (Fin n) K)
    (hchar : ∀ k : ℕ, 0 < k → k ≤ n → (k : K) ≠ 0) : flvPropose A = flSteps A n := by
  have h1 : (1 : Matrix (Fin n) (Fin n) K) = adjC A n := by
    have := adjC_card A
    rw [Fintype.card_fin] at this
    exact this.symm
  unfold flvPropose
  rw [h1]
  exact flvLoop_eq A hchar n 1 (by omega) rfl

theorem chainOK_flSteps (A : Matrix (Fin n) (Fin n) K) (f : ℕ) :
    chainOK A (adjC A f) (flSteps A f) := by
  induction f with
  | zero => simp [flSteps, chainOK]
  | succ f ih =>
    refine ⟨rfl, ?_⟩
    show chainOK A (A * adjC A (f + 1) + A.charpoly.coeff f • 1) (flSteps A f)
    rw [← adjC_rec]
    exact ih

theorem flSteps_length (A : Matrix (Fin n) (Fin n) K) (f : ℕ) : (flSteps A f).length = f := by
  induction f with
  | zero => rfl
  | succ f ih => simp [flSteps, ih]

theorem flSteps_fst_getD (A : Matrix (Fin n) (Fin n) K) (f i : ℕ) (hi : i < f) :
    ((flSteps A f).map (·.1)).getD i 0 = A.charpoly.coeff (f - 1 - i) := by
  induction f generalizing i with
  | zero => omega
  | succ f ih =>
    cases i with
    | zero => simp [flSteps]
    | succ i =>
      simp only [flSteps, List.map_cons, List.getD_cons_succ]
      rw [ih i (by omega)]
      congr 1
      omega

theorem flSteps_snd_getD (A : Matrix (Fin n) (Fin n) K) (f i : ℕ) (hi : i < f) :
    ((flSteps A f).map (·.2)).getD i 0 = adjC A (f - i) := by
  induction f generalizing i with
  | zero => omega
  | succ f ih =>
    cases i with
    | zero => simp [flSteps]
    | succ i =>
      simp only [flSteps, List.map_cons, List.getD_cons_succ]
      rw [ih i (by omega)]
      congr 1
      omega

theorem toPoly_flSteps (A : Matrix (Fin n) (Fin n) K) (f : ℕ) :
    toPoly ((flSteps A f).map (·.1)) = ∑ i ∈ range f, C (A.charpoly.coeff i) * X ^ i := by
  induction f with
  | zero => simp [flSteps, toPoly]
  | succ f ih =>
    simp only [flSteps, List.map_cons]
    rw [toPoly_cons, ih, Finset.sum_range_succ, List.length_map, flSteps_length, add_comm]

/-- the denominator list of the recursion denotes the characteristic polynomial. -/
theorem toPoly_cden_flSteps (A : Matrix (Fin n) (Fin n) K) :
    toPoly (cden (flSteps A n)) = A.charpoly := by
  unfold cden
  rw [toPoly_cons, toPoly_flSteps, List.length_map, flSteps_length]
  conv_rhs => rw [A.charpoly.as_sum_range_C_mul_X_pow, charpoly_natDegree_eq_dim,
    Fintype.card_fin, Finset.sum_range_succ]
  have := charpoly_coeff_card A
  rw [Fintype.card_fin] at this
  rw [this, add_comm]

theorem polyMatVal_flSteps (A : Matrix (Fin n) (Fin n) K) (s : K) (f : ℕ)
    (P : Matrix (Fin n) (Fin n) K) :
    ((flSteps A f).map (·.2)).foldl (fun acc M => s • acc + M) P
      = s ^ f • P + ∑ j ∈ range f, s ^ j • adjC A (j + 1) := by
  induction f generalizing P with
  | zero => simp [flSteps]
  | succ f ih =>
    simp only [flSteps, List.map_cons, List.foldl_cons]
    rw [ih, Finset.sum_range_succ, smul_add, smul_smul, ← pow_succ]
    abel

/-- a polynomial whose coefficients vanish from `N` on, evaluated. -/
theorem eval_eq_sum_of_coeff_zero (q : K[X]) (N : ℕ) (h : ∀ j, N ≤ j → q.coeff j = 0) (s : K) :
    q.eval s = ∑ j ∈ range N, s ^ j * q.coeff j := by
  have hq : q = ∑ j ∈ range N, C (q.coeff j) * X ^ j := by
    ext m
    simp only [finsetSum_coeff, coeff_C_mul_X_pow]
    by_cases hm : m < N
    · rw [Finset.sum_eq_single m]
      · simp
      · intro b _ hb; simp [Ne.symm hb]
      · intro hm'; exact absurd (Finset.mem_range.mpr hm) hm'
    · rw [h m (by omega)]
      symm
      apply Finset.sum_eq_zero
      intro b hb
      have : m ≠ b := by have := Finset.mem_range.mp hb; omega
      simp [this]
  conv_lhs => rw [hq]
  simp only [eval_finsetSum, eval_mul, eval_C, eval_pow, eval_X]
  exact Finset.sum_congr rfl fun j _ => mul_comm _ _

theorem eval_adjugate_charmatrix (A : Matrix (Fin n) (Fin n) K) (s : K) (i l : Fin n) :
    (adjugate (charmatrix A) i l).eval s = adjugate (s • (1 : Matrix (Fin n) (Fin n) K) - A) i l := by
  have h := RingHom.map_adjugate (evalRingHom s) (charmatrix A)
  have h2 : (evalRingHom s).mapMatrix (charmatrix A) = s • (1 : Matrix (Fin n) (Fin n) K) - A := by
    ext a b
    by_cases hab : a = b
    · subst hab; simp
    · simp [hab]
  rw [h2] at h
  rw [← h]
  simp

/-- `Σ_k N_k s^k = adj(sI − A)`. -/
theorem polyMatVal_flSteps_eq_adjugate (A : Matrix (Fin n) (Fin n) K) (s : K) :
    polyMatVal ((flSteps A n).map (·.2)) s = adjugate (s • (1 : Matrix (Fin n) (Fin n) K) - A) := by
  unfold polyMatVal
  rw [polyMatVal_flSteps]
  ext i l
  rw [← eval_adjugate_charmatrix,
    eval_eq_sum_of_coeff_zero (adjugate (charmatrix A) i l) n (fun j hj => by
      rw [← adjC_succ_apply, adjC_top A (by rw [Fintype.card_fin]; omega)]; rfl)]
  simp only [smul_zero, zero_add, Matrix.sum_apply, Matrix.smul_apply, smul_eq_mul, adjC_succ_apply]

end field

end CtrlVerif.C03FL
