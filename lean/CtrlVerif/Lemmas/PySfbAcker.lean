/-
Helper lemmas of the source-text tie of `place_acker` (`Props/C11GenAcker.lean`): length of
`np.poly`, Python indexing of a coefficient list, `matrix_power`, the last row, the loop invariant of
the polynomial-in-`A` loop, and the square controllability matrix of a single-input pair.  Free to change.
-/
import CtrlVerif.Lemmas.PySfb
import CtrlVerif.Lemmas.Poly

namespace CtrlVerif

open Matrix

theorem polyadd_length {L : Type} [Zero L] [Add L] (p q : List L) :
    (polyadd p q).length = max p.length q.length := by
  simp only [polyadd, List.length_zipWith, padLeft, List.length_append, List.length_replicate]
  omega

theorem polymul_two_foldl_length {L : Type} [Zero L] [Add L] [Mul L] (x y : L) :
    ∀ (a acc : List L),
      (a.foldl (fun acc c => polyadd (acc ++ [0]) (scale c [x, y])) acc).length
        = if a.length = 0 then acc.length else max (acc.length + a.length) (a.length + 1) := by
  intro a
  induction a with
  | nil => intro acc; simp
  | cons c a ih =>
    intro acc
    rw [List.foldl_cons, ih]
    simp only [polyadd_length, List.length_append, List.length_cons, List.length_nil, scale, List.length_map]
    split_ifs
    all_goals first | contradiction | omega

theorem polymul_two_length {L : Type} [Zero L] [Add L] [Mul L] (a : List L) (x y : L) (ha : a ≠ []) :
    (polymul a [x, y]).length = a.length + 1 := by
  unfold polymul
  rw [polymul_two_foldl_length]
  have : a.length ≠ 0 := by simpa using ha
  simp only [List.length_nil]
  split_ifs <;> omega

namespace PySfb

theorem poly_length {L : Type} [Field L] (roots : List L) : (poly roots).length = roots.length + 1 := by
  have gen : ∀ (l acc : List L), acc ≠ [] →
      (l.foldl (fun a z => polymul a [1, -z]) acc).length = acc.length + l.length := by
    intro l
    induction l with
    | nil => intro acc _; simp
    | cons z l ih =>
      intro acc hacc
      have h1 := polymul_two_length acc 1 (-z) hacc
      rw [List.foldl_cons, ih _ (by intro h; rw [h] at h1; simp at h1), h1, List.length_cons]
      omega
  simpa [poly, Nat.add_comm] using gen roots [1] (by simp)

theorem poly_eq_polyFromRoots {L : Type} [Field L] (roots : List L) :
    poly roots = StateFbk.polyFromRoots roots := rfl

variable {K : Type} [Field K]

theorem getItem_nat {α : Type} (xs : List α) (i : Int) (k : Nat) (hi : i = (k : Int)) (hk : k < xs.length) :
    PyArith.getItem xs i = .ok xs[k] := by
  subst hi
  unfold PyArith.getItem PyArith.normIdx
  rw [if_pos ⟨by omega, by omega⟩]
  simp [hk]

theorem matrixPower_mk (n : Nat) (A : Matrix (Fin n) (Fin n) K) (i : Int) (k : Nat) (hi : i = (k : Int)) :
    matrixPower ⟨n, n, A⟩ i = .ok ⟨n, n, A ^ k⟩ := by
  subst hi
  unfold matrixPower
  rw [dif_pos rfl, if_neg (not_lt.mpr (Int.natCast_nonneg k))]
  simp

theorem row_last (N c : Nat) (M : Matrix (Fin (N + 1)) (Fin c) K) :
    row ⟨N + 1, c, M⟩ (-1) = .ok (List.ofFn fun j => M (Fin.last N) j) := by
  unfold row PyArith.normIdx
  dsimp only
  rw [if_neg (by omega), if_pos ⟨by omega, by omega⟩]
  simp only [Except.bind]
  have : ((-1 : Int) + ((N + 1 : Nat) : Int)).toNat = N := by omega
  rw [dif_pos (by omega)]
  refine congrArg Except.ok (congrArg List.ofFn (funext fun j => ?_))
  exact congrArg (fun i => M i j) (Fin.ext this)


/-! ### the polynomial-in-`A` loop of `place_acker` -/

/-- the accumulator after power `j` has been added: `pmat` of the `j + 1` lowest coefficients. -/
def pmatSeq {n : Nat} (A : Matrix (Fin n) (Fin n) K) (p : List K) (j : Nat) : PMat K :=
  ⟨n, n, StateFbk.pmat A (p.drop (p.length - (j + 1)))⟩

theorem pmat_init {n : Nat} (A : Matrix (Fin n) (Fin n) K) (p : List K) (hp : 0 < p.length) :
    PMat.smul (p[p.length - 1]'(by omega)) ⟨n, n, A ^ 0⟩ = pmatSeq A p 0 := by
  unfold pmatSeq
  rw [List.drop_eq_getElem_cons (by omega : p.length - (0 + 1) < p.length)]
  have : p.length - (0 + 1) + 1 = p.length := by omega
  rw [this, List.drop_length]
  simp [StateFbk.pmat]

theorem pmat_step {n : Nat} (A : Matrix (Fin n) (Fin n) K) (p : List K) (j : Nat) (hj : j + 2 ≤ p.length)
    (i1 i2 : Int) (h1 : i1 = ((p.length - 2 - j : Nat) : Int)) (h2 : i2 = ((j + 1 : Nat) : Int)) :
    (PyArith.getItem p i1).bind (fun t7 => (matrixPower ⟨n, n, A⟩ i2).bind (fun t8 =>
      PMat.add (pmatSeq A p j) (PMat.smul t7 t8))) = .ok (pmatSeq A p (j + 1)) := by
  rw [getItem_nat p i1 (p.length - 2 - j) h1 (by omega), Except.ok_bind', matrixPower_mk n A i2 (j + 1) h2,
    Except.ok_bind']
  unfold pmatSeq
  rw [PMat.smul_mk, PMat.add_mk]
  have e1 : p.length - (j + 1 + 1) = p.length - 2 - j := by omega
  have e2 : p.length - 2 - j + 1 = p.length - (j + 1) := by omega
  rw [e1, List.drop_eq_getElem_cons (by omega : p.length - 2 - j < p.length), e2, StateFbk.pmat,
    List.length_drop]
  have e3 : p.length - (p.length - (j + 1)) = j + 1 := by omega
  rw [e3, add_comm]

theorem pmatSeq_last {n : Nat} (A : Matrix (Fin n) (Fin n) K) (p : List K) (hp : 0 < p.length) :
    pmatSeq A p (p.length - 1) = ⟨n, n, StateFbk.pmat A p⟩ := by
  unfold pmatSeq
  have : p.length - (p.length - 1 + 1) = 0 := by omega
  rw [this, List.drop_zero]

/-- the whole computation of `pmat` for any initial step `g` and loop body `f` that do what the
source does. -/
theorem pmat_loop {n : Nat} (A : Matrix (Fin n) (Fin n) K) (p : List K) (hp : 0 < p.length)
    (f : PMat K → Int → Except Err (PMat K))
    (hf : ∀ j, j + 2 ≤ p.length → f (pmatSeq A p j) ((1 : Int) + (j : Int)) = .ok (pmatSeq A p (j + 1))) :
    List.foldlM f (pmatSeq A p 0) (PyArith.range 1 (p.length : Int)) = .ok ⟨n, n, StateFbk.pmat A p⟩ := by
  have e : (p.length : Int) = 1 + ((p.length - 1 : Nat) : Int) := by omega
  rw [e, PyArith.foldlM_range_seq f 1 (p.length - 1) (pmatSeq A p) (fun j hj => hf j (by omega)),
    pmatSeq_last A p hp]

/-- the `n × n·1` array `ctrb` returns for a single-input pair is the square matrix `ctrbVec`. -/
theorem ctrb_siso {n : Nat} (A : Matrix (Fin n) (Fin n) K) (B : Matrix (Fin n) (Fin 1) K) :
    (⟨n, n * 1, (StateFbk.ctrb A B n).submatrix id finProdFinEquiv.symm⟩ : PMat K)
      = ⟨n, n, StateFbk.ctrbVec A (fun i => B i 0)⟩ := by
  refine PMat.ext' rfl (Nat.mul_one n) ?_
  ext i k
  have hB : B = Matrix.of fun i (_ : Fin 1) => B i 0 := by
    ext i j; rw [Subsingleton.elim j 0]; rfl
  simp only [PMat.retype, Matrix.submatrix_apply, id_eq, StateFbk.ctrb, StateFbk.ctrbVec, Matrix.of_apply]
  rw [← hB]
  have hk : (finProdFinEquiv.symm (Fin.cast (Nat.mul_one n).symm k)).1.val = k.val := by
    simp [finProdFinEquiv]
  rw [hk]
  congr 1
  exact Subsingleton.elim _ _

theorem real_length {L : Type} (re : L → K) (a : List L) : (real re a).length = a.length := by
  simp [real]

end PySfb
end CtrlVerif
