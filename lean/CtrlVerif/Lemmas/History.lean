/-
Helper lemmas for C18, part 3 (`Model/History.lean`): list calls and histories.
-/
import CtrlVerif.Model.History
import Batteries.Data.List.Basic

namespace CtrlVerif

variable {σ ρ : Type}

/-! ### listCall -/

@[simp] theorem listCall_nil (f : σ → Except Err ρ) : listCall f [] = .ok [] := rfl

theorem listCall_cons (f : σ → Except Err ρ) (s : σ) (l : List σ) :
    listCall f (s :: l) =
      match f s with
      | .error e => .error e
      | .ok r => match listCall f l with
        | .error e => .error e
        | .ok rs => .ok (r :: rs) := by
  unfold listCall
  rw [List.mapM_cons]
  cases f s with
  | error e => rfl
  | ok r =>
    cases List.mapM f l with
    | error e => rfl
    | ok rs => rfl

/-- the list call succeeds with `rs` iff `rs` is, element by element, the result of the
single-system call. -/
theorem listCall_ok_iff (f : σ → Except Err ρ) (l : List σ) (rs : List ρ) :
    listCall f l = .ok rs ↔ List.Forall₂ (fun s r => f s = .ok r) l rs := by
  induction l generalizing rs with
  | nil =>
    constructor
    · intro h
      injection h with h
      subst h
      exact .nil
    · intro h
      cases h
      rfl
  | cons s l ih =>
    rw [listCall_cons]
    constructor
    · intro h
      cases hs : f s with
      | error e => rw [hs] at h; cases h
      | ok r =>
        rw [hs] at h
        cases hl : listCall f l with
        | error e => rw [hl] at h; cases h
        | ok rs' =>
          rw [hl] at h
          injection h with h
          subst h
          exact .cons hs ((ih rs').mp hl)
    · intro h
      cases h with
      | cons hs hrest =>
        rw [hs, (ih _).mpr hrest]

/-- the list call raises iff some single-system call raises; the error is the one of the first
such system. -/
theorem listCall_error_iff (f : σ → Except Err ρ) (l : List σ) (e : Err) :
    listCall f l = .error e ↔
      ∃ pre s post, l = pre ++ s :: post ∧ (∀ a ∈ pre, ∃ r, f a = .ok r) ∧ f s = .error e := by
  induction l with
  | nil =>
    constructor
    · intro h; cases h
    · rintro ⟨pre, s, post, h, _⟩
      cases pre <;> cases h
  | cons a l ih =>
    rw [listCall_cons]
    constructor
    · intro h
      cases ha : f a with
      | error e' =>
        rw [ha] at h
        injection h with h
        subst h
        exact ⟨[], a, l, rfl, by simp, ha⟩
      | ok r =>
        rw [ha] at h
        cases hl : listCall f l with
        | ok rs => rw [hl] at h; cases h
        | error e' =>
          rw [hl] at h
          injection h with h
          subst h
          obtain ⟨pre, s, post, hl', hpre, hs⟩ := ih.mp hl
          refine ⟨a :: pre, s, post, by rw [hl']; rfl, ?_, hs⟩
          intro b hb
          rcases List.mem_cons.mp hb with hb | hb
          · subst hb; exact ⟨r, ha⟩
          · exact hpre b hb
    · rintro ⟨pre, s, post, h, hpre, hs⟩
      cases pre with
      | nil =>
        injection h with h1 h2
        subst h1
        rw [hs]
      | cons b pre =>
        injection h with h1 h2
        subst h1
        obtain ⟨r, hr⟩ := hpre a (List.mem_cons_self ..)
        rw [hr]
        have : listCall f l = .error e :=
          ih.mpr ⟨pre, s, post, h2, fun c hc => hpre c (List.mem_cons_of_mem _ hc), hs⟩
        rw [this]

/-! ### Forall₂ and positions -/

theorem forall₂_length {R : σ → ρ → Prop} {l : List σ} {rs : List ρ} (h : List.Forall₂ R l rs) :
    rs.length = l.length := by
  induction h with
  | nil => rfl
  | cons _ _ ih => simp [ih]

theorem forall₂_getElem? {R : σ → ρ → Prop} {l : List σ} {rs : List ρ} (h : List.Forall₂ R l rs)
    (i : Nat) (s : σ) (hs : l[i]? = some s) : ∃ r, rs[i]? = some r ∧ R s r := by
  induction h generalizing i with
  | nil => simp at hs
  | cons hsr _ ih =>
    cases i with
    | zero =>
      simp only [List.getElem?_cons_zero, Option.some.injEq] at hs
      subst hs
      exact ⟨_, by simp, hsr⟩
    | succ i =>
      simp only [List.getElem?_cons_succ] at hs ⊢
      exact ih i hs

theorem forall₂_getElem?_right {R : σ → ρ → Prop} {l : List σ} {rs : List ρ}
    (h : List.Forall₂ R l rs) (i : Nat) (r : ρ) (hr : rs[i]? = some r) :
    ∃ s, l[i]? = some s ∧ R s r := by
  induction h generalizing i with
  | nil => simp at hr
  | cons hsr _ ih =>
    cases i with
    | zero =>
      simp only [List.getElem?_cons_zero, Option.some.injEq] at hr
      subst hr
      exact ⟨_, by simp, hsr⟩
    | succ i =>
      simp only [List.getElem?_cons_succ] at hr ⊢
      exact ih i hr

/-! ### the keywords end up as attributes -/

theorem TRD.init_ok_iff {α : Type} {time outputs : NDArr α} {states inputs : Option (NDArr α)}
    {issiso : Option Bool} {transpose returnX : Bool} {squeeze : Sq} {multiTrace : Bool}
    {r : TRD α} :
    TRD.init time outputs states inputs issiso transpose returnX squeeze multiTrace = .ok r ↔
      ∃ c, TRD.initCore time outputs states inputs issiso multiTrace = .ok c ∧ squeeze ≠ .other ∧
        r = ⟨c.t, c.y, c.x, c.u, c.issiso, c.ninputs, c.noutputs, c.nstates, c.ntraces,
             squeeze, transpose, returnX⟩ := by
  unfold TRD.init
  cases hc : TRD.initCore time outputs states inputs issiso multiTrace with
  | error e => simp [bind, Except.bind]
  | ok c =>
    by_cases hs : squeeze = .other
    · simp [bind, Except.bind, hs, throw, throwThe, MonadExceptOf.throw]
    · simp only [bind, Except.bind, hs, if_false, pure, Except.pure, Except.ok.injEq, ne_eq,
        not_false_eq_true, true_and, exists_eq_left']
      exact eq_comm

theorem TRD.init_attrs {α : Type} {time outputs : NDArr α} {states inputs : Option (NDArr α)}
    {issiso : Option Bool} {transpose returnX : Bool} {squeeze : Sq} {multiTrace : Bool}
    {r : TRD α}
    (h : TRD.init time outputs states inputs issiso transpose returnX squeeze multiTrace = .ok r) :
    r.squeeze = squeeze ∧ r.transpose = transpose ∧ r.returnX = returnX := by
  obtain ⟨c, _, _, hr⟩ := TRD.init_ok_iff.mp h
  subst hr
  exact ⟨rfl, rfl, rfl⟩

theorem timeResponse_attrs {α : Type} {fn : TFn} {p m n T : Nat} {inp out : Option Nat}
    {u1d : Bool} {t y : NDArr α} {x u : Option (NDArr α)} {sq : Sq} {tr : Bool}
    {rx : Option Bool} {cfg : Cfg} {r : TRD α}
    (h : timeResponse fn p m n T inp out u1d t y x u sq tr rx cfg = .ok r) :
    r.squeeze = sq ∧ r.transpose = tr := by
  unfold timeResponse at h
  cases hspec : rawSpec fn p m n T inp out u1d with
  | error e => simp [hspec, bind, Except.bind] at h
  | ok spec =>
    simp only [hspec, bind, Except.bind] at h
    split at h
    · simp [throw, throwThe, MonadExceptOf.throw] at h
    · exact ⟨(TRD.init_attrs h).1, (TRD.init_attrs h).2.1⟩

/-! ### histories -/

namespace HState

variable {Obj Obs Reading CU SU GU : Type}

@[simp] theorem run_nil (ops : HistOps Obj Obs Reading CU SU GU) (s : HState Obj) :
    s.run ops [] = .ok ([], s) := rfl

theorem run_cons (ops : HistOps Obj Obs Reading CU SU GU) (s : HState Obj)
    (st : HStep Obs CU SU GU) (rest : List (HStep Obs CU SU GU)) :
    s.run ops (st :: rest) =
      match s.step ops st with
      | .error e => .error e
      | .ok (s', rd) =>
        match s'.run ops rest with
        | .error e => .error e
        | .ok (rds, sf) => .ok (rd.toList ++ rds, sf) := rfl

/-- a read step changes nothing. -/
theorem step_read (ops : HistOps Obj Obs Reading CU SU GU) (s : HState Obj) (j : Nat) (o : Obs)
    (r : Obj) (h : s.objs[j]? = some r) :
    s.step ops (.read j o) = .ok (s, some (ops.observe r s.cfg o)) := by
  simp [step, h]

/-- a step that is not a read yields no reading. -/
theorem step_not_read (ops : HistOps Obj Obs Reading CU SU GU) (s s' : HState Obj)
    (st : HStep Obs CU SU GU) (rd : Option Reading) (hst : st.isRead = false)
    (h : s.step ops st = .ok (s', rd)) : rd = none := by
  cases st with
  | read j o => cases hst
  | copy j kw =>
    simp only [step] at h
    split at h
    · injection h with h; injection h with _ h; exact h.symm
    · cases h
  | set j a =>
    simp only [step] at h
    split at h
    · injection h with h; injection h with _ h; exact h.symm
    · cases h
  | config g =>
    simp only [step] at h
    injection h with h; injection h with _ h; exact h.symm

/-- a successful read step leaves the state as it is. -/
theorem step_read_state (ops : HistOps Obj Obs Reading CU SU GU) (s s' : HState Obj)
    (st : HStep Obs CU SU GU) (rd : Option Reading) (hst : st.isRead = true)
    (h : s.step ops st = .ok (s', rd)) : s' = s := by
  cases st with
  | read j o =>
    simp only [step] at h
    split at h
    · injection h with h; injection h with h _; exact h.symm
    · cases h
  | copy j kw => cases hst
  | set j a => cases hst
  | config g => cases hst

/-- histories compose: the readings of `h₁ ++ h₂` are those of `h₁` followed by those of `h₂`
run from the state `h₁` ends in. -/
theorem run_append (ops : HistOps Obj Obs Reading CU SU GU) (s : HState Obj)
    (h₁ h₂ : List (HStep Obs CU SU GU)) :
    s.run ops (h₁ ++ h₂) =
      match s.run ops h₁ with
      | .error e => .error e
      | .ok (r₁, s₁) =>
        match s₁.run ops h₂ with
        | .error e => .error e
        | .ok (r₂, s₂) => .ok (r₁ ++ r₂, s₂) := by
  induction h₁ generalizing s with
  | nil =>
    simp only [List.nil_append, run_nil]
    cases s.run ops h₂ with
    | error e => rfl
    | ok v => rfl
  | cons st rest ih =>
    simp only [List.cons_append, run_cons]
    cases hst : s.step ops st with
    | error e => rfl
    | ok v =>
      obtain ⟨s', rd⟩ := v
      simp only [ih]
      cases s'.run ops rest with
      | error e => rfl
      | ok v1 =>
        obtain ⟨r1, s1⟩ := v1
        simp only
        cases s1.run ops h₂ with
        | error e => rfl
        | ok v2 =>
          obtain ⟨r2, s2⟩ := v2
          simp [List.append_assoc]

/-- the final state of a history is the final state of the history with all reads erased. -/
theorem run_erase_reads (ops : HistOps Obj Obs Reading CU SU GU) (s sf : HState Obj)
    (h : List (HStep Obs CU SU GU)) (rds : List Reading) (hr : s.run ops h = .ok (rds, sf)) :
    s.run ops (h.filter fun st => !st.isRead) = .ok ([], sf) := by
  induction h generalizing s rds with
  | nil =>
    simp only [run_nil] at hr
    injection hr with hr
    injection hr with _ hr
    subst hr
    rfl
  | cons st rest ih =>
    rw [run_cons] at hr
    cases hst : s.step ops st with
    | error e => rw [hst] at hr; cases hr
    | ok v =>
      obtain ⟨s', rd⟩ := v
      rw [hst] at hr
      simp only at hr
      cases hrest : s'.run ops rest with
      | error e => rw [hrest] at hr; cases hr
      | ok v1 =>
        obtain ⟨r1, s1⟩ := v1
        rw [hrest] at hr
        simp only at hr
        injection hr with hr
        injection hr with _ hsf
        subst hsf
        have ih' := ih s' r1 hrest
        cases hread : st.isRead with
        | true =>
          have : s' = s := step_read_state ops s s' st rd hread hst
          subst this
          simpa [List.filter, hread] using ih'
        | false =>
          have hrd : rd = none := step_not_read ops s s' st rd hread hst
          subst hrd
          simp only [List.filter, hread, Bool.not_false, run_cons, hst, ih']
          rfl

end HState

end CtrlVerif
