/-
Semantics of the transfer-function model in `Matrix _ _ (RatFunc K)` and helper lemmas.
-/
import CtrlVerif.Model.TF
import CtrlVerif.Lemmas.Poly
import Mathlib.FieldTheory.RatFunc.AsPolynomial
import Mathlib.Data.Matrix.Block
import Mathlib.Data.Matrix.Mul
import Mathlib.Algebra.BigOperators.Fin
import Mathlib.Tactic.FieldSimp
import Mathlib.Tactic.Ring

namespace CtrlVerif

open Polynomial

variable {K : Type*} [Field K] [DecidableEq K]

/-- embedding of polynomials into rational functions. -/
noncomputable def ι' (p : K[X]) : RatFunc K := algebraMap K[X] (RatFunc K) p

omit [DecidableEq K] in
@[simp] theorem ι'_add (p q : K[X]) : ι' (p + q) = ι' p + ι' q := map_add _ _ _
omit [DecidableEq K] in
@[simp] theorem ι'_mul (p q : K[X]) : ι' (p * q) = ι' p * ι' q := map_mul _ _ _
omit [DecidableEq K] in
@[simp] theorem ι'_sub (p q : K[X]) : ι' (p - q) = ι' p - ι' q := map_sub _ _ _
omit [DecidableEq K] in
@[simp] theorem ι'_neg (p : K[X]) : ι' (-p) = - ι' p := map_neg _ _
omit [DecidableEq K] in
@[simp] theorem ι'_zero : ι' (0 : K[X]) = 0 := map_zero _
omit [DecidableEq K] in
@[simp] theorem ι'_one : ι' (1 : K[X]) = 1 := map_one _
omit [DecidableEq K] in
@[simp] theorem ι'_C (c : K) : ι' (C c) = RatFunc.C c := RatFunc.algebraMap_C c

omit [DecidableEq K] in
theorem ι'_ne_zero {p : K[X]} (h : p ≠ 0) : ι' p ≠ 0 :=
  (map_ne_zero_iff (algebraMap K[X] (RatFunc K))
    (IsFractionRing.injective K[X] (RatFunc K))).mpr h

omit [DecidableEq K] in
theorem ι'_eq_zero_iff {p : K[X]} : ι' p = 0 ↔ p = 0 := by
  constructor
  · intro h; by_contra hne; exact ι'_ne_zero hne h
  · rintro rfl; simp

/-- the rational function denoted by a fraction of coefficient lists. -/
noncomputable def Frac.sem (f : Frac K) : RatFunc K := ι' (toPoly f.num) / ι' (toPoly f.den)

/-- class invariant: the denominator is not the zero polynomial. -/
def Frac.WF (f : Frac K) : Prop := toPoly f.den ≠ 0

theorem Frac.wf_iff (f : Frac K) : f.WF ↔ isZero f.den = false := by
  unfold Frac.WF
  rw [Ne, ← isZero_iff]; simp

theorem Frac.sem_norm (f : Frac K) : f.norm.sem = f.sem := by
  unfold Frac.norm
  split
  · rename_i h
    simp [Frac.sem, toPoly_eq_zero_of_isZero _ h, toPoly_cons]
  · simp [Frac.sem, toPoly_trim]

theorem Frac.wf_norm (f : Frac K) (h : f.WF) : f.norm.WF := by
  unfold Frac.norm
  split
  · simp [Frac.WF, toPoly_cons]
  · simpa [Frac.WF, toPoly_trim] using h

theorem sem_addSiso (a b : Frac K) (ha : a.WF) (hb : b.WF) :
    (addSiso a b).sem = a.sem + b.sem := by
  simp only [addSiso, Frac.sem, toPoly_polyadd, toPoly_polymul, ι'_add, ι'_mul]
  rw [div_add_div _ _ (ι'_ne_zero ha) (ι'_ne_zero hb)]
  congr 1; ring

theorem wf_addSiso (a b : Frac K) (ha : a.WF) (hb : b.WF) : (addSiso a b).WF := by
  simp only [addSiso, Frac.WF, toPoly_polymul]
  exact mul_ne_zero ha hb

theorem sem_mulSiso (a b : Frac K) : (mulSiso a b).sem = a.sem * b.sem := by
  simp only [mulSiso, Frac.sem, toPoly_polymul, ι'_mul]
  rw [div_mul_div_comm]

theorem wf_mulSiso (a b : Frac K) (ha : a.WF) (hb : b.WF) : (mulSiso a b).WF := by
  simp only [mulSiso, Frac.WF, toPoly_polymul]
  exact mul_ne_zero ha hb

theorem Frac.sem_neg (a : Frac K) : a.neg.sem = - a.sem := by
  simp only [Frac.neg, Frac.sem, toPoly_pneg, ι'_neg, neg_div]

theorem Frac.wf_neg (a : Frac K) (h : a.WF) : a.neg.WF := h

@[simp] theorem Frac.sem_zero : (Frac.zero : Frac K).sem = 0 := by
  simp [Frac.zero, Frac.sem, toPoly_cons]

theorem Frac.wf_zero : (Frac.zero : Frac K).WF := by
  simp [Frac.zero, Frac.WF, toPoly_cons]

@[simp] theorem Frac.sem_const (c : K) : (Frac.const c).sem = RatFunc.C c := by
  simp [Frac.const, Frac.sem, toPoly_cons]

theorem Frac.wf_const (c : K) : (Frac.const c).WF := by
  simp [Frac.const, Frac.WF, toPoly_cons]

theorem sem_divSiso (a b : Frac K) : (divSiso a b).sem = a.sem / b.sem := by
  simp only [divSiso, Frac.sem, toPoly_polymul, ι'_mul]
  rw [div_div_div_eq]

theorem wf_divSiso_iff (a b : Frac K) (ha : a.WF) : (divSiso a b).WF ↔ toPoly b.num ≠ 0 := by
  simp only [divSiso, Frac.WF, toPoly_polymul]
  constructor
  · intro h hb; exact h (by rw [hb, mul_zero])
  · intro h; exact mul_ne_zero ha h

theorem sem_eq_zero_iff (b : Frac K) (hb : b.WF) : b.sem = 0 ↔ toPoly b.num = 0 := by
  unfold Frac.sem
  rw [div_eq_zero_iff, ι'_eq_zero_iff, ι'_eq_zero_iff]
  constructor
  · rintro (h | h)
    · exact h
    · exact absurd h hb
  · intro h; exact Or.inl h

theorem toPoly_fbden (a b : Frac K) (sign : K) :
    toPoly (fbSiso a b sign).den
      = toPoly b.den * toPoly a.den - C sign * (toPoly b.num * toPoly a.num) := by
  simp only [fbSiso, toPoly_polyadd, toPoly_polymul, toPoly_scale, C_neg]
  ring

/-- SISO feedback: when the closed-loop denominator is non-zero the result is `G / (1 - sign H G)`. -/
theorem sem_fbSiso (a b : Frac K) (sign : K) (ha : a.WF) (hb : b.WF)
    (h : (fbSiso a b sign).WF) :
    (fbSiso a b sign).sem = a.sem / (1 - RatFunc.C sign * b.sem * a.sem) := by
  have hden := toPoly_fbden a b sign
  unfold Frac.WF at h
  have ha' := ι'_ne_zero ha
  have hb' := ι'_ne_zero hb
  have h' := ι'_ne_zero h
  rw [hden] at h'
  simp only [Frac.sem]
  rw [hden]
  simp only [fbSiso, toPoly_polymul, ι'_mul, ι'_sub, ι'_C] at h' ⊢
  have key : (1 - RatFunc.C sign * (ι' (toPoly b.num) / ι' (toPoly b.den)) *
      (ι' (toPoly a.num) / ι' (toPoly a.den)))
      = (ι' (toPoly b.den) * ι' (toPoly a.den)
          - RatFunc.C sign * (ι' (toPoly b.num) * ι' (toPoly a.num)))
        / (ι' (toPoly b.den) * ι' (toPoly a.den)) := by
    field_simp
  rw [key, div_div_eq_mul_div]
  congr 1
  field_simp

/-- `1 - sign H G` vanishes identically iff the closed-loop denominator is the zero polynomial. -/
theorem fbSiso_not_wf_iff (a b : Frac K) (sign : K) (ha : a.WF) (hb : b.WF) :
    ¬ (fbSiso a b sign).WF ↔ 1 - RatFunc.C sign * b.sem * a.sem = 0 := by
  have hden := toPoly_fbden a b sign
  have ha' := ι'_ne_zero ha
  have hb' := ι'_ne_zero hb
  unfold Frac.WF
  rw [not_not, ← ι'_eq_zero_iff, hden]
  simp only [Frac.sem, ι'_mul, ι'_sub, ι'_C]
  have key : (1 - RatFunc.C sign * (ι' (toPoly b.num) / ι' (toPoly b.den)) *
      (ι' (toPoly a.num) / ι' (toPoly a.den)))
      = (ι' (toPoly b.den) * ι' (toPoly a.den)
          - RatFunc.C sign * (ι' (toPoly b.num) * ι' (toPoly a.num)))
        / (ι' (toPoly b.den) * ι' (toPoly a.den)) := by
    field_simp
  rw [key, div_eq_zero_iff]
  constructor
  · intro h; exact Or.inl h
  · rintro (h | h)
    · exact h
    · exact absurd h (mul_ne_zero hb' ha')

/-! ### matrices -/

variable {o ι κ : Type*} [Fintype o] [Fintype ι]

noncomputable def TFM.sem (G : TFM o ι K) : Matrix o ι (RatFunc K) :=
  Matrix.of fun i j => (G.e i j).sem

def TFM.WF (G : TFM o ι K) : Prop := ∀ i j, (G.e i j).WF

theorem TFM.mk'_ok (raw : o → ι → Frac K) (h : ∀ i j, (raw i j).WF) :
    TFM.mk' raw = .ok ⟨fun i j => (raw i j).norm⟩ := by
  unfold TFM.mk'
  rw [if_neg]
  rintro ⟨i, j, hij⟩
  have := (Frac.wf_iff _).mp (h i j)
  rw [this] at hij
  exact Bool.false_ne_true hij

theorem TFM.mk'_err (raw : o → ι → Frac K) (h : ∃ i j, ¬ (raw i j).WF) :
    TFM.mk' raw = .error .zeroDen := by
  unfold TFM.mk'
  rw [if_pos]
  obtain ⟨i, j, hij⟩ := h
  refine ⟨i, j, ?_⟩
  rw [Frac.wf_iff] at hij
  simpa using hij

/-- generic: a raw entry function with well-formed entries builds, and the result has the
raw entries' semantics. -/
theorem TFM.mk'_spec (raw : o → ι → Frac K) (h : ∀ i j, (raw i j).WF) :
    ∃ R, TFM.mk' raw = .ok R ∧ R.WF ∧ R.sem = Matrix.of fun i j => (raw i j).sem := by
  refine ⟨_, TFM.mk'_ok raw h, ?_, ?_⟩
  · intro i j; exact Frac.wf_norm _ (h i j)
  · ext i j; simp [TFM.sem, Frac.sem_norm]

theorem mulEntry_spec {n : Nat} (row col : Fin n → Frac K)
    (hr : ∀ k, (row k).WF) (hc : ∀ k, (col k).WF) :
    (mulEntry row col).WF ∧ (mulEntry row col).sem = ∑ k, (row k).sem * (col k).sem := by
  unfold mulEntry
  rw [Fin.sum_univ_def]
  have : ∀ (l : List (Fin n)) (acc : Frac K), acc.WF →
      (l.foldl (fun acc k => addSiso acc (mulSiso (row k) (col k))) acc).WF ∧
      (l.foldl (fun acc k => addSiso acc (mulSiso (row k) (col k))) acc).sem
        = acc.sem + (l.map fun k => (row k).sem * (col k).sem).sum := by
    intro l
    induction l with
    | nil => intro acc h; simp [h]
    | cons k l ih =>
      intro acc h
      have hk := wf_mulSiso _ _ (hr k) (hc k)
      obtain ⟨h1, h2⟩ := ih (addSiso acc (mulSiso (row k) (col k))) (wf_addSiso _ _ h hk)
      refine ⟨h1, ?_⟩
      simp only [List.foldl_cons, List.map_cons, List.sum_cons]
      rw [h2, sem_addSiso _ _ h hk, sem_mulSiso]
      ring
  obtain ⟨h1, h2⟩ := this (List.finRange n) Frac.zero Frac.wf_zero
  exact ⟨h1, by rw [h2]; simp⟩

end CtrlVerif
