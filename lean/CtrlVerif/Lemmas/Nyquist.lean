/-
Helper lemmas for C13 (unwrap, count, indentation).
-/
import CtrlVerif.Model.Nyquist
import Mathlib.Tactic.Linarith
import Mathlib.Tactic.Ring
import Mathlib.Tactic.FieldSimp
import Mathlib.Tactic.Positivity

namespace CtrlVerif.Nyquist

variable {K : Type} [Field K] [LinearOrder K] [IsStrictOrderedRing K] [FloorRing K]

/-! ### pmod / desired -/

theorem pmod_nonneg {p : K} (hp : 0 < p) (x : K) : 0 ≤ pmod x p := by
  unfold pmod
  have h := Int.floor_le (x / p)
  have : (⌊x / p⌋ : K) * p ≤ x := by
    have := mul_le_mul_of_nonneg_right h hp.le
    rwa [div_mul_cancel₀ _ hp.ne'] at this
  linarith

theorem pmod_lt {p : K} (hp : 0 < p) (x : K) : pmod x p < p := by
  unfold pmod
  have h := Int.lt_floor_add_one (x / p)
  have : x < ((⌊x / p⌋ : K) + 1) * p := by
    have := mul_lt_mul_of_pos_right h hp
    rwa [div_mul_cancel₀ _ hp.ne'] at this
  linarith

theorem pmod_add_int_mul {p : K} (hp : 0 < p) (x : K) (k : ℤ) :
    pmod (x + k * p) p = pmod x p := by
  unfold pmod
  have : (x + k * p) / p = x / p + k := by
    field_simp
  rw [this, Int.floor_add_intCast]
  push_cast
  ring

theorem pmod_of_mem {p x : K} (h0 : 0 ≤ x) (h1 : x < p) : pmod x p = x := by
  unfold pmod
  have hp : 0 < p := lt_of_le_of_lt h0 h1
  have : ⌊x / p⌋ = 0 := by
    rw [Int.floor_eq_iff]
    constructor
    · simpa using div_nonneg h0 hp.le
    · simpa using (div_lt_one hp).2 h1
  simp [this]

theorem desired_congr (p d : K) : ∃ k : ℤ, desired p d = d + k * p := by
  refine ⟨-⌊(d + p / 2) / p⌋, ?_⟩
  unfold desired pmod
  push_cast
  ring

theorem desired_range {p : K} (hp : 0 < p) (d : K) :
    -(p / 2) ≤ desired p d ∧ desired p d < p / 2 := by
  unfold desired
  have h1 := pmod_nonneg hp (d + p / 2)
  have h2 := pmod_lt hp (d + p / 2)
  constructor <;> linarith

/-- the key step of unwrapping: a wrapped increment is mapped back to the true increment. -/
theorem desired_eq {p : K} (hp : 0 < p) {d δ : K} (k : ℤ) (hd : d = δ + k * p)
    (h1 : -(p / 2) ≤ δ) (h2 : δ < p / 2) : desired p d = δ := by
  unfold desired
  have : d + p / 2 = (δ + p / 2) + k * p := by rw [hd]; ring
  rw [this, pmod_add_int_mul hp, pmod_of_mem (by linarith) (by linarith)]
  ring


/-! ### diff / cumsum / the recursive form of unwrap -/

omit [FloorRing K] in
@[simp] theorem diff_nil : diff ([] : List K) = [] := rfl
omit [FloorRing K] in
@[simp] theorem diff_singleton (a : K) : diff [a] = [] := rfl
omit [FloorRing K] in
@[simp] theorem diff_cons_cons (a b : K) (t : List K) : diff (a :: b :: t) = (b - a) :: diff (b :: t) := rfl

omit [FloorRing K] in
theorem diff_length (l : List K) : (diff l).length = l.length - 1 := by
  induction l with
  | nil => rfl
  | cons a t ih =>
    cases t with
    | nil => rfl
    | cons b t' => simp [ih]

omit [FloorRing K] in
/-- telescoping: the sum of the increments is last minus first. -/
theorem diff_sum (a : K) (t : List K) : (diff (a :: t)).sum = (a :: t).getLast (by simp) - a := by
  induction t generalizing a with
  | nil => simp
  | cons b t ih =>
    rw [diff_cons_cons, List.sum_cons, ih b]
    simp [List.getLast_cons]

omit [FloorRing K] in
theorem diff_map_neg (l : List K) : diff (l.map fun x => -x) = (diff l).map fun x => -x := by
  induction l with
  | nil => rfl
  | cons a t ih =>
    cases t with
    | nil => rfl
    | cons b t' =>
      simp only [List.map_cons, diff_cons_cons] at ih ⊢
      rw [ih]; congr 1; ring

omit [FloorRing K] in
theorem sum_map_neg (l : List K) : (l.map fun x => -x).sum = -l.sum := by
  induction l with
  | nil => simp
  | cons a t ih => simp [ih]; ring

/-- recursive form: each output is the previous output plus the wrapped increment. -/
def unwrapAux (period : K) : K → K → List K → List K
  | _, _, [] => []
  | prevIn, prevOut, x :: t =>
    let o := prevOut + desired period (x - prevIn)
    o :: unwrapAux period x o t

theorem unwrap_zip_eq_aux (period : K) (a c : K) (t : List K) :
    List.zipWith (fun x c => x + c) t
      (cumsumFrom c (List.zipWith (fun a b => a - b) ((diff (a :: t)).map (desired period))
        (diff (a :: t)))) = unwrapAux period a (a + c) t := by
  induction t generalizing a c with
  | nil => simp [unwrapAux]
  | cons x t ih =>
    simp only [diff_cons_cons, List.map_cons, List.zipWith_cons_cons, cumsumFrom, unwrapAux]
    have e : x + (c + (desired period (x - a) - (x - a))) = a + c + desired period (x - a) := by ring
    rw [e]
    congr 1
    have := ih x (c + (desired period (x - a) - (x - a)))
    rw [e] at this
    exact this

theorem unwrap_cons (period a : K) (t : List K) :
    unwrap period (a :: t) = a :: unwrapAux period a a t := by
  have := unwrap_zip_eq_aux period a 0 t
  simp only [add_zero] at this
  simp only [unwrap]
  rw [this]

@[simp] theorem unwrap_nil (period : K) : unwrap period ([] : List K) = [] := rfl

theorem diff_unwrapAux (period a o : K) (t : List K) :
    diff (o :: unwrapAux period a o t) = (diff (a :: t)).map (desired period) := by
  induction t generalizing a o with
  | nil => simp [unwrapAux]
  | cons x t ih =>
    simp only [unwrapAux, diff_cons_cons, List.map_cons]
    rw [ih]
    congr 1
    ring

/-- the increments of the unwrapped signal are the wrapped increments of the input. -/
theorem diff_unwrap (period : K) (l : List K) :
    diff (unwrap period l) = (diff l).map (desired period) := by
  cases l with
  | nil => rfl
  | cons a t => rw [unwrap_cons, diff_unwrapAux]

theorem unwrapAux_length (period a o : K) (t : List K) : (unwrapAux period a o t).length = t.length := by
  induction t generalizing a o with
  | nil => rfl
  | cons x t ih => simp [unwrapAux, ih]

theorem unwrap_length' (period : K) (l : List K) : (unwrap period l).length = l.length := by
  cases l with
  | nil => rfl
  | cons a t => rw [unwrap_cons]; simp [unwrapAux_length]

/-- `R p x y`: `x` and `y` differ by an integer multiple of `p`. -/
def CongrMod (p x y : K) : Prop := ∃ k : ℤ, x = y + k * p

omit [FloorRing K] in
theorem CongrMod.refl (p x : K) : CongrMod p x x := ⟨0, by simp⟩

omit [FloorRing K] in
theorem CongrMod.sub {p x y x' y' : K} (h : CongrMod p x y) (h' : CongrMod p x' y') :
    CongrMod p (x' - x) (y' - y) := by
  obtain ⟨k, hk⟩ := h
  obtain ⟨k', hk'⟩ := h'
  exact ⟨k' - k, by rw [hk, hk']; push_cast; ring⟩

theorem unwrapAux_congr (period a o : K) (h : CongrMod period o a) (t : List K) :
    List.Forall₂ (CongrMod period) (unwrapAux period a o t) t := by
  induction t generalizing a o with
  | nil => exact List.Forall₂.nil
  | cons x t ih =>
    simp only [unwrapAux]
    have hx : CongrMod period (o + desired period (x - a)) x := by
      obtain ⟨k, hk⟩ := h
      obtain ⟨k', hk'⟩ := desired_congr period (x - a)
      exact ⟨k + k', by rw [hk, hk']; push_cast; ring⟩
    exact List.Forall₂.cons hx (ih x _ hx)

omit [FloorRing K] in
theorem forall₂_diff {p : K} {θ φ : List K} (h : List.Forall₂ (CongrMod p) θ φ) :
    List.Forall₂ (CongrMod p) (diff θ) (diff φ) := by
  induction h with
  | nil => exact List.Forall₂.nil
  | @cons a b l₁ l₂ hab hl ih =>
    cases hl with
    | nil => exact List.Forall₂.nil
    | @cons a' b' l₁' l₂' hab' hl' =>
      simp only [diff_cons_cons]
      exact List.Forall₂.cons (hab.sub hab') ih

theorem map_desired_eq {p : K} (hp : 0 < p) {ds δs : List K}
    (h : List.Forall₂ (CongrMod p) ds δs)
    (hr : ∀ δ ∈ δs, -(p / 2) ≤ δ ∧ δ < p / 2) : ds.map (desired p) = δs := by
  induction h with
  | nil => rfl
  | @cons d δ l₁ l₂ hd hl ih =>
    simp only [List.map_cons]
    obtain ⟨k, hk⟩ := hd
    have h1 := hr δ (by simp)
    rw [desired_eq hp k hk h1.1 h1.2, ih (fun x hx => hr x (by simp [hx]))]


omit [FloorRing K] in
theorem forall₂_congr_refl (p : K) (l : List K) : List.Forall₂ (CongrMod p) l l := by
  induction l with
  | nil => exact List.Forall₂.nil
  | cons a t ih => exact List.Forall₂.cons (CongrMod.refl p a) ih

omit [FloorRing K] in
/-- two signals with the same first sample and the same increments are equal. -/
theorem eq_of_diff_eq (t u : List K) (a : K) (hl : u.length = t.length)
    (hd : diff (a :: u) = diff (a :: t)) : u = t := by
  induction t generalizing u a with
  | nil => exact List.length_eq_zero_iff.1 hl
  | cons b t ih =>
    cases u with
    | nil => simp at hl
    | cons c u =>
      simp only [diff_cons_cons, List.cons.injEq] at hd
      have hc : c = b := by linarith [hd.1]
      subst hc
      rw [ih u c (by simpa using hl) hd.2]

/-! ### rounding -/

theorem roundHalfEven_of_near {x : K} {n : ℤ} (h : |x - n| < 1 / 2) : roundHalfEven x = n := by
  rw [abs_lt] at h
  obtain ⟨h1, h2⟩ := h
  unfold roundHalfEven
  by_cases hx : (n : K) ≤ x
  · have hf : ⌊x⌋ = n := by
      rw [Int.floor_eq_iff]; constructor <;> linarith
    simp only [hf]
    rw [if_pos (by linarith)]
  · have hx := not_le.1 hx
    have hf : ⌊x⌋ = n - 1 := by
      rw [Int.floor_eq_iff]; push_cast; constructor <;> linarith
    simp only [hf]
    push_cast
    rw [if_neg (by linarith), if_pos (by linarith)]
    ring

theorem roundHalfEven_intCast (n : ℤ) : roundHalfEven (n : K) = n :=
  roundHalfEven_of_near (by simp)

/-! ### encirclements -/

theorem encirclements_eq (pi : K) (a : K) (t : List K) :
    encirclements pi (a :: t) =
      -((unwrap (2 * pi) (a :: t)).getLast (by rw [unwrap_cons]; simp) - a) / pi := by
  unfold encirclements
  rw [diff_map_neg, sum_map_neg]
  congr 2
  have h := unwrap_cons (2 * pi) a t
  have : (diff (unwrap (2 * pi) (a :: t))).sum =
      (a :: unwrapAux (2 * pi) a a t).getLast (by simp) - a := by
    rw [h]; exact diff_sum a _
  rw [this]
  congr 1
  simp only [h]

/-! ### indentation -/

omit [FloorRing K] in
theorem nearest_mem {s : K × K} {poles : List (K × K)} {p : K × K}
    (h : nearest s poles = some p) : p ∈ poles := by
  induction poles generalizing p with
  | nil => simp [nearest] at h
  | cons q t ih =>
    simp only [nearest] at h
    cases hn : nearest s t with
    | none => simp [hn] at h; simp [h]
    | some q' =>
      simp only [hn] at h
      split_ifs at h with hle
      · simp at h; simp [h]
      · simp at h; subst h; simp [ih hn]

omit [FloorRing K] in
theorem nearest_le {s : K × K} {poles : List (K × K)} {p : K × K}
    (h : nearest s poles = some p) : ∀ q ∈ poles, normSq (s - p) ≤ normSq (s - q) := by
  induction poles generalizing p with
  | nil => simp
  | cons q0 t ih =>
    simp only [nearest] at h
    cases hn : nearest s t with
    | none =>
      simp [hn] at h; subst h
      cases t with
      | nil => simp
      | cons a t' =>
        simp only [nearest] at hn
        cases hn' : nearest s t' <;> simp [hn'] at hn
        split_ifs at hn
    | some q' =>
      simp only [hn] at h
      intro q hq
      rcases List.mem_cons.1 hq with rfl | hq
      · split_ifs at h with hle
        · simp at h; subst h; exact le_rfl
        · simp at h; subst h; exact (not_le.1 hle).le
      · split_ifs at h with hle
        · simp at h; subst h; exact hle.trans (ih hn q hq)
        · simp at h; subst h; exact ih hn q hq

omit [FloorRing K] in
theorem nearest_isSome {s : K × K} {poles : List (K × K)} (h : poles ≠ []) :
    ∃ p, nearest s poles = some p := by
  cases poles with
  | nil => exact absurd rfl h
  | cons q t =>
    simp only [nearest]
    cases nearest s t with
    | none => exact ⟨q, rfl⟩
    | some q' => dsimp only; split_ifs <;> simp

omit [FloorRing K] in
theorem side_right_iff (dir : Dir) (pre : K) :
    side dir pre = .ok .right ↔ (pre < 0 ∨ (pre = 0 ∧ dir = .right)) := by
  unfold side
  split_ifs <;> simp_all

omit [FloorRing K] in
theorem side_left_iff (dir : Dir) (pre : K) :
    side dir pre = .ok .left ↔ (0 < pre ∨ (pre = 0 ∧ dir = .left)) := by
  unfold side
  split_ifs with h1 h2
  · constructor
    · intro h; cases h
    · rintro (h | ⟨h, hd⟩)
      · rcases h1 with h1 | ⟨h1, _⟩
        · exact absurd h (not_lt.2 h1.le)
        · exact absurd h (by rw [h1]; exact lt_irrefl 0)
      · rcases h1 with h1 | ⟨_, h1⟩
        · exact absurd h1 (by rw [h]; exact lt_irrefl 0)
        · rw [hd] at h1; cases h1
  · simp [h2]
  · simp only [reduceCtorEq, false_iff]; exact h2

omit [FloorRing K] in
theorem side_error_iff (dir : Dir) (pre : K) :
    side dir pre = .error .badArg ↔ (pre = 0 ∧ dir ≠ .right ∧ dir ≠ .left) := by
  unfold side
  split_ifs with h1 h2
  · simp only [reduceCtorEq, false_iff]
    rintro ⟨h, hr, _⟩
    rcases h1 with h1 | ⟨_, h1⟩
    · exact absurd h1 (by rw [h]; exact lt_irrefl 0)
    · exact hr h1
  · simp only [reduceCtorEq, false_iff]
    rintro ⟨h, _, hl⟩
    rcases h2 with h2 | ⟨_, h2⟩
    · exact absurd h2 (by rw [h]; exact lt_irrefl 0)
    · exact hl h2
  · simp only [true_iff]
    push Not at h1 h2
    have h0 : pre = 0 := le_antisymm h2.1 h1.1
    exact ⟨h0, h1.2 h0, h2.2 h0⟩

end CtrlVerif.Nyquist
