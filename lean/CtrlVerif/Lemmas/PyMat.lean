/-
Symbolic evaluation of the untyped matrix layer `Model/PyMat.lean` on arrays whose sizes fit: each
primitive applied to arrays in constructor form `⟨r, c, M⟩` with syntactically fitting sizes is the
typed Mathlib operation (`*`, `+`, `fromRows`, `fromCols`, `fromBlocks` re-typed along
`finSumFinEquiv`, …).  These are the rewriting rules of the equality proofs
`Props/C02Gen*.lean` (generated function = run-time model); helper lemmas, free to change.
-/
import CtrlVerif.Model.PyMat
import CtrlVerif.Lemmas.C02Glue

namespace CtrlVerif

open Matrix

/-! ### `Except` plumbing of the equality proofs -/

/-- (deliberately not `rfl`-lemmas: as `dsimp` lemmas on the 60-deep `bind` chain of `lft` they make the
kernel re-check huge definitional equalities) -/
theorem Except.ok_bind' {ε α β : Type} (a : α) (f : α → Except ε β) : (Except.ok a).bind f = f a := by
  simp only [Except.bind]

theorem Except.error_bind' {ε α β : Type} (e : ε) (f : α → Except ε β) :
    (Except.error e : Except ε α).bind f = .error e := by
  simp only [Except.bind]

theorem Except.bind_congr' {ε α β : Type} {x : Except ε α} {f g : α → Except ε β} (h : ∀ a, f a = g a) :
    x.bind f = x.bind g := by
  cases x <;> simp [Except.bind, h]

/-- the join of an `if / elif` that re-binds two variables (the generated code binds the pair
`(other, self)`) against the model's two successive binds. -/
theorem Except.pair_join {ε α β γ : Type} {P : Except ε (α × β)} {T : α × β → Except ε γ}
    {X : Except ε β} {Y : β → Except ε α} {core : β → α → Except ε γ}
    (hP : P = X.bind fun G' => (Y G').bind fun H' => .ok (H', G'))
    (hT : ∀ G' H', T (H', G') = core G' H') :
    P.bind T = X.bind fun G' => (Y G').bind fun H' => core G' H' := by
  subst hP
  cases X with
  | error e => rfl
  | ok a =>
    simp only [Except.bind]
    cases Y a with
    | error e => rfl
    | ok b => simp only [hT]

namespace PMat

variable {K : Type} [Field K]

@[simp] theorem retype_rfl {r c : Nat} (M : Matrix (Fin r) (Fin c) K) (hr : r = r) (hc : c = c) :
    retype hr hc M = M := by ext i j; rfl

theorem ext' {X Y : PMat K} (hr : X.r = Y.r) (hc : X.c = Y.c) (hM : retype hr hc X.M = Y.M) :
    X = Y := by
  obtain ⟨r, c, M⟩ := X
  obtain ⟨r', c', M'⟩ := Y
  simp only at hr hc
  subst hr hc
  simp only [retype_rfl] at hM
  rw [hM]

/-! ### total operations -/

@[simp] theorem zeros_def (r c : Nat) : (zeros r c : PMat K) = ⟨r, c, 0⟩ := rfl
@[simp] theorem ones_def (r c : Nat) : (ones r c : PMat K) = ⟨r, c, Matrix.of fun _ _ => 1⟩ := rfl
@[simp] theorem eye_def (n : Nat) : (eye n : PMat K) = ⟨n, n, 1⟩ := rfl
@[simp] theorem onesLike_mk (r c : Nat) (M : Matrix (Fin r) (Fin c) K) :
    onesLike ⟨r, c, M⟩ = ⟨r, c, Matrix.of fun _ _ => 1⟩ := rfl
@[simp] theorem atleast2d_eq (X : PMat K) : atleast2d X = X := rfl
@[simp] theorem T_mk (r c : Nat) (M : Matrix (Fin r) (Fin c) K) : T ⟨r, c, M⟩ = ⟨c, r, Mᵀ⟩ := rfl
@[simp] theorem neg_mk (r c : Nat) (M : Matrix (Fin r) (Fin c) K) : neg ⟨r, c, M⟩ = ⟨r, c, -M⟩ := rfl
@[simp] theorem smul_mk (a : K) (r c : Nat) (M : Matrix (Fin r) (Fin c) K) :
    smul a ⟨r, c, M⟩ = ⟨r, c, a • M⟩ := rfl
@[simp] theorem mulNum_mk (a : K) (r c : Nat) (M : Matrix (Fin r) (Fin c) K) :
    mulNum ⟨r, c, M⟩ a = ⟨r, c, a • M⟩ := by
  simp only [mulNum]
  congr 1
  ext i j
  simp [mul_comm]
@[simp] theorem addNum_mk (a : K) (r c : Nat) (M : Matrix (Fin r) (Fin c) K) :
    addNum ⟨r, c, M⟩ a = ⟨r, c, M + Matrix.of fun _ _ => a⟩ := rfl
@[simp] theorem toOperand_mk (r c : Nat) (M : Matrix (Fin r) (Fin c) K) :
    toOperand ⟨r, c, M⟩ = .array r c M := rfl

@[simp] theorem eyeI_natCast (n : Nat) : (eyeI (n : Int) : Except Err (PMat K)) = .ok ⟨n, n, 1⟩ := by
  simp [eyeI, eye]

@[simp] theorem zerosI_natCast (r c : Nat) :
    (zerosI (r : Int) (c : Int) : Except Err (PMat K)) = .ok ⟨r, c, 0⟩ := by
  simp [zerosI, zeros]

/-! ### operations that check sizes, on fitting sizes -/

@[simp] theorem add_mk (r c : Nat) (M N : Matrix (Fin r) (Fin c) K) :
    add ⟨r, c, M⟩ ⟨r, c, N⟩ = .ok ⟨r, c, M + N⟩ := by
  simp [add]

@[simp] theorem sub_mk (r c : Nat) (M N : Matrix (Fin r) (Fin c) K) :
    sub ⟨r, c, M⟩ ⟨r, c, N⟩ = .ok ⟨r, c, M - N⟩ := by
  simp [sub]

@[simp] theorem matmul_mk (r k c : Nat) (M : Matrix (Fin r) (Fin k) K) (N : Matrix (Fin k) (Fin c) K) :
    matmul ⟨r, k, M⟩ ⟨k, c, N⟩ = .ok ⟨r, c, M * N⟩ := by
  simp [matmul]

@[simp] theorem hcat_mk (r c c' : Nat) (M : Matrix (Fin r) (Fin c) K) (N : Matrix (Fin r) (Fin c') K) :
    hcat ⟨r, c, M⟩ ⟨r, c', N⟩ = .ok ⟨r, c + c', (fromCols M N).submatrix id finSumFinEquiv.symm⟩ := by
  simp [hcat]

@[simp] theorem vcat_mk (r r' c : Nat) (M : Matrix (Fin r) (Fin c) K) (N : Matrix (Fin r') (Fin c) K) :
    vcat ⟨r, c, M⟩ ⟨r', c, N⟩ = .ok ⟨r + r', c, (fromRows M N).submatrix finSumFinEquiv.symm id⟩ := by
  simp [vcat]

theorem add_shape_ne {X Y : PMat K} (h : ¬(Y.r = X.r ∧ Y.c = X.c)) : add X Y = .error .shape := by
  simp [add, h]

theorem matmul_shape_ne {X Y : PMat K} (h : Y.r ≠ X.c) : matmul X Y = .error .shape := by
  simp [matmul, h]

/-! ### pushing the re-typings outwards -/

theorem fromRows_submatrix_right {a b c d : Type*} (M : Matrix a c K) (N : Matrix b c K) (f : d → c) :
    fromRows (M.submatrix id f) (N.submatrix id f) = (fromRows M N).submatrix id f := by
  ext i j; cases i <;> rfl

theorem fromCols_submatrix_left {a b c d : Type*} (M : Matrix a b K) (N : Matrix a c K) (f : d → a) :
    fromCols (M.submatrix f id) (N.submatrix f id) = (fromCols M N).submatrix f id := by
  ext i j; cases j <;> rfl

/-- two block rows stacked = the block matrix, re-typed. -/
theorem vcat_hcat_blocks {a b c d : Nat} (X11 : Matrix (Fin a) (Fin c) K) (X12 : Matrix (Fin a) (Fin d) K)
    (X21 : Matrix (Fin b) (Fin c) K) (X22 : Matrix (Fin b) (Fin d) K) :
    (fromRows ((fromCols X11 X12).submatrix id finSumFinEquiv.symm)
      ((fromCols X21 X22).submatrix id finSumFinEquiv.symm)).submatrix finSumFinEquiv.symm id
    = (fromBlocks X11 X12 X21 X22).submatrix finSumFinEquiv.symm finSumFinEquiv.symm := by
  rw [fromRows_submatrix_right, fromRows_fromCols_eq_fromBlocks]
  rfl

/-- two block columns side by side = the block matrix, re-typed. -/
theorem hcat_vcat_blocks {a b c d : Nat} (X11 : Matrix (Fin a) (Fin c) K) (X12 : Matrix (Fin a) (Fin d) K)
    (X21 : Matrix (Fin b) (Fin c) K) (X22 : Matrix (Fin b) (Fin d) K) :
    (fromCols ((fromRows X11 X21).submatrix finSumFinEquiv.symm id)
      ((fromRows X12 X22).submatrix finSumFinEquiv.symm id)).submatrix id finSumFinEquiv.symm
    = (fromBlocks X11 X12 X21 X22).submatrix finSumFinEquiv.symm finSumFinEquiv.symm := by
  rw [fromCols_submatrix_left, fromCols_fromRows_eq_fromBlocks]
  rfl

/-! ### slices -/

@[simp] theorem sliceBound_none (len d : Nat) : sliceBound len d none = d := rfl
@[simp] theorem sliceBound_natCast (len d k : Nat) : sliceBound len d (some (k : Int)) = min k len := by
  simp [sliceBound]

/-- `setSlice` once the four bounds are known and the value fits. -/
theorem setSlice_eq (X V : PMat K) (r0 r1 c0 c1 : Option Int) (a b c d : Nat)
    (ha : sliceBound X.r 0 r0 = a) (hb : sliceBound X.r X.r r1 = b)
    (hc : sliceBound X.c 0 c0 = c) (hd : sliceBound X.c X.c c1 = d)
    (hV : V.r = b - a ∧ V.c = d - c) :
    setSlice X r0 r1 c0 c1 V = .ok ⟨X.r, X.c, Matrix.of fun i j =>
      if hi : a ≤ i.val ∧ i.val < b ∧ c ≤ j.val ∧ j.val < d then
        V.M ⟨i.val - a, by omega⟩ ⟨j.val - c, by omega⟩
      else X.M i j⟩ := by
  subst ha hb hc hd
  unfold setSlice
  exact dif_pos hV

theorem sliceCols_prefix (r a b : Nat) (M : Matrix (Fin r) (Fin (a + b)) K) :
    sliceCols ⟨r, a + b, M⟩ none (some (a : Int)) = ⟨r, a, M.submatrix id (Fin.castAdd b)⟩ := by
  refine ext' rfl (by simp [sliceCols]) ?_
  ext i j
  simp [sliceCols, retype]
  rfl

theorem sliceCols_suffix (r a b : Nat) (M : Matrix (Fin r) (Fin (a + b)) K) :
    sliceCols ⟨r, a + b, M⟩ (some (a : Int)) none = ⟨r, b, M.submatrix id (Fin.natAdd a)⟩ := by
  refine ext' rfl (by simp [sliceCols]) ?_
  ext i j
  simp [sliceCols, retype]
  rfl

theorem sliceRows_prefix (a b c : Nat) (M : Matrix (Fin (a + b)) (Fin c) K) :
    sliceRows ⟨a + b, c, M⟩ none (some (a : Int)) = ⟨a, c, M.submatrix (Fin.castAdd b) id⟩ := by
  refine ext' (by simp [sliceRows]) rfl ?_
  ext i j
  simp [sliceRows, retype]
  rfl

theorem sliceRows_suffix (a b c : Nat) (M : Matrix (Fin (a + b)) (Fin c) K) :
    sliceRows ⟨a + b, c, M⟩ (some (a : Int)) none = ⟨b, c, M.submatrix (Fin.natAdd a) id⟩ := by
  refine ext' (by simp [sliceRows]) rfl ?_
  ext i j
  simp [sliceRows, retype]
  rfl

/-- the left part of two arrays side by side. -/
theorem hcat_castAdd {r a b : Nat} (M : Matrix (Fin r) (Fin a) K) (N : Matrix (Fin r) (Fin b) K) :
    ((fromCols M N).submatrix id finSumFinEquiv.symm).submatrix id (Fin.castAdd b) = M := by
  ext i j; simp

theorem hcat_natAdd {r a b : Nat} (M : Matrix (Fin r) (Fin a) K) (N : Matrix (Fin r) (Fin b) K) :
    ((fromCols M N).submatrix id finSumFinEquiv.symm).submatrix id (Fin.natAdd a) = N := by
  ext i j; simp

theorem vcat_castAdd {a b c : Nat} (M : Matrix (Fin a) (Fin c) K) (N : Matrix (Fin b) (Fin c) K) :
    ((fromRows M N).submatrix finSumFinEquiv.symm id).submatrix (Fin.castAdd b) id = M := by
  ext i j; simp

theorem vcat_natAdd {a b c : Nat} (M : Matrix (Fin a) (Fin c) K) (N : Matrix (Fin b) (Fin c) K) :
    ((fromRows M N).submatrix finSumFinEquiv.symm id).submatrix (Fin.natAdd a) id = N := by
  ext i j; simp

theorem mul_submatrix_cols {a b c d : Type*} [Fintype b] (X : Matrix a b K) (Y : Matrix b c K) (f : d → c) :
    (X * Y).submatrix id f = X * Y.submatrix id f := by
  ext i j; simp [Matrix.mul_apply]

theorem mul_submatrix_rows {a b c d : Type*} [Fintype b] (X : Matrix a b K) (Y : Matrix b c K) (f : d → a) :
    (X * Y).submatrix f id = X.submatrix f id * Y := by
  ext i j; simp [Matrix.mul_apply]

/-! ### rank, solve, inverse -/

/-- a square matrix over a field has full rank exactly when its determinant is not zero. -/
theorem rank_eq_iff_det_ne_zero {n : Nat} (F : Matrix (Fin n) (Fin n) K) : F.rank = n ↔ F.det ≠ 0 := by
  constructor
  · intro h
    have hr : Module.finrank K (LinearMap.range F.mulVecLin) = Module.finrank K (Fin n → K) := by
      rw [Module.finrank_fin_fun]; exact h
    have htop : LinearMap.range F.mulVecLin = ⊤ := Submodule.eq_top_of_finrank_eq hr
    have hs : Function.Surjective F.mulVec := by
      intro y
      have : y ∈ LinearMap.range F.mulVecLin := htop ▸ Submodule.mem_top
      obtain ⟨x, hx⟩ := this
      exact ⟨x, by simpa using hx⟩
    have hu : IsUnit F := Matrix.mulVec_surjective_iff_isUnit.1 hs
    have := (Matrix.isUnit_iff_isUnit_det F).1 hu
    exact this.ne_zero
  · intro h
    simpa using Matrix.rank_of_det_ne_zero h

/-- `matrix_rank(F) != n` for an `n × n` array is `det F = 0`. -/
theorem rank_mk_ne_iff {n : Nat} (F : Matrix (Fin n) (Fin n) K) : rank ⟨n, n, F⟩ ≠ n ↔ F.det = 0 := by
  simp only [rank, ne_eq, rank_eq_iff_det_ne_zero, not_not]

section solve
variable [DecidableEq K]

theorem inverse_eq_invQ {n : Nat} (F : Matrix (Fin n) (Fin n) K) : inverse F = SS.invQ F := rfl

theorem solve_mk (n c : Nat) (F : Matrix (Fin n) (Fin n) K) (X : Matrix (Fin n) (Fin c) K) :
    solve ⟨n, n, F⟩ ⟨n, c, X⟩ = if F.det = 0 then .error .illPosed else .ok ⟨n, c, inverse F * X⟩ := by
  simp [solve]

theorem inv_mk (n : Nat) (F : Matrix (Fin n) (Fin n) K) :
    inv ⟨n, n, F⟩ = if F.det = 0 then .error .illPosed else .ok ⟨n, n, inverse F⟩ := by
  simp [inv]

end solve

theorem zeros_blocks (a b c d : Nat) : (zeros (a + b) (c + d) : PMat K)
    = ⟨a + b, c + d, (fromBlocks (0 : Matrix (Fin a) (Fin c) K) 0 0 0).submatrix
        finSumFinEquiv.symm finSumFinEquiv.symm⟩ := by
  simp [zeros, fromBlocks_zero]

section quadrants
variable {a b c d : Nat} (X11 : Matrix (Fin a) (Fin c) K) (X12 : Matrix (Fin a) (Fin d) K)
    (X21 : Matrix (Fin b) (Fin c) K) (X22 : Matrix (Fin b) (Fin d) K)

/-- `X[:a, :c] = V` on a block matrix replaces the upper left block. -/
theorem setSlice_topLeft (V : Matrix (Fin a) (Fin c) K) :
    setSlice ⟨a + b, c + d, (fromBlocks X11 X12 X21 X22).submatrix finSumFinEquiv.symm finSumFinEquiv.symm⟩
      none (some (a : Int)) none (some (c : Int)) ⟨a, c, V⟩
    = .ok ⟨a + b, c + d, (fromBlocks V X12 X21 X22).submatrix finSumFinEquiv.symm finSumFinEquiv.symm⟩ := by
  rw [setSlice_eq _ _ _ _ _ _ 0 a 0 c (by simp) (by simp) (by simp) (by simp) (by simp)]
  congr 2
  ext i j
  refine Fin.addCases (fun i => ?_) (fun i => ?_) i <;> refine Fin.addCases (fun j => ?_) (fun j => ?_) j <;>
    simp

/-- `X[a:, c:] = V` replaces the lower right block. -/
theorem setSlice_botRight (V : Matrix (Fin b) (Fin d) K) :
    setSlice ⟨a + b, c + d, (fromBlocks X11 X12 X21 X22).submatrix finSumFinEquiv.symm finSumFinEquiv.symm⟩
      (some (a : Int)) none (some (c : Int)) none ⟨b, d, V⟩
    = .ok ⟨a + b, c + d, (fromBlocks X11 X12 X21 V).submatrix finSumFinEquiv.symm finSumFinEquiv.symm⟩ := by
  rw [setSlice_eq _ _ _ _ _ _ a (a + b) c (c + d) (by simp) (by simp) (by simp) (by simp) (by simp)]
  congr 2
  ext i j
  refine Fin.addCases (fun i => ?_) (fun i => ?_) i <;> refine Fin.addCases (fun j => ?_) (fun j => ?_) j <;>
    simp

/-- `X[:a, c:] = V` replaces the upper right block. -/
theorem setSlice_topRight (V : Matrix (Fin a) (Fin d) K) :
    setSlice ⟨a + b, c + d, (fromBlocks X11 X12 X21 X22).submatrix finSumFinEquiv.symm finSumFinEquiv.symm⟩
      none (some (a : Int)) (some (c : Int)) none ⟨a, d, V⟩
    = .ok ⟨a + b, c + d, (fromBlocks X11 V X21 X22).submatrix finSumFinEquiv.symm finSumFinEquiv.symm⟩ := by
  rw [setSlice_eq _ _ _ _ _ _ 0 a c (c + d) (by simp) (by simp) (by simp) (by simp) (by simp)]
  congr 2
  ext i j
  refine Fin.addCases (fun i => ?_) (fun i => ?_) i <;> refine Fin.addCases (fun j => ?_) (fun j => ?_) j <;>
    simp

/-- `X[a:, :c] = V` replaces the lower left block. -/
theorem setSlice_botLeft (V : Matrix (Fin b) (Fin c) K) :
    setSlice ⟨a + b, c + d, (fromBlocks X11 X12 X21 X22).submatrix finSumFinEquiv.symm finSumFinEquiv.symm⟩
      (some (a : Int)) none none (some (c : Int)) ⟨b, c, V⟩
    = .ok ⟨a + b, c + d, (fromBlocks X11 X12 V X22).submatrix finSumFinEquiv.symm finSumFinEquiv.symm⟩ := by
  rw [setSlice_eq _ _ _ _ _ _ a (a + b) 0 c (by simp) (by simp) (by simp) (by simp) (by simp)]
  congr 2
  ext i j
  refine Fin.addCases (fun i => ?_) (fun i => ?_) i <;> refine Fin.addCases (fun j => ?_) (fun j => ?_) j <;>
    simp

end quadrants

/-! ### material for `lft`: slices with known bounds, the four partitions, `np.block`, the solve -/

theorem sliceCols_bounds (r w : Nat) (M : Matrix (Fin r) (Fin w) K) (lo hi : Option Int) (a k : Nat)
    (hw : a + k ≤ w) (hlo : sliceBound w 0 lo = a) (hhi : sliceBound w w hi = a + k) :
    sliceCols ⟨r, w, M⟩ lo hi = ⟨r, k, M.submatrix id (fun j : Fin k => ⟨a + j.val, by omega⟩)⟩ := by
  subst hlo
  refine ext' rfl (by simp only [sliceCols, hhi]; omega) ?_
  ext i j
  simp [sliceCols, retype]
  rfl

theorem sliceRows_bounds (w c : Nat) (M : Matrix (Fin w) (Fin c) K) (lo hi : Option Int) (a k : Nat)
    (hw : a + k ≤ w) (hlo : sliceBound w 0 lo = a) (hhi : sliceBound w w hi = a + k) :
    sliceRows ⟨w, c, M⟩ lo hi = ⟨k, c, M.submatrix (fun j : Fin k => ⟨a + j.val, by omega⟩) id⟩ := by
  subst hlo
  refine ext' (by simp only [sliceRows, hhi]; omega) rfl ?_
  ext i j
  simp [sliceRows, retype]
  rfl

/-! ### the partitions of `lft` -/

/-- columns `[:m-nu] | [m-nu:]` (the upper system's inputs). -/
def colsU {α : Type} {m : Nat} (M : Matrix α (Fin m) K) (nu : Nat) (h : nu ≤ m) :
    Matrix α (Fin (m - nu) ⊕ Fin nu) K :=
  (M.submatrix id (Fin.cast (show (m - nu) + nu = m by omega))).submatrix id finSumFinEquiv

/-- rows `[:p-ny] | [p-ny:]` (the upper system's outputs). -/
def rowsU {α : Type} {p : Nat} (M : Matrix (Fin p) α K) (ny : Nat) (h : ny ≤ p) :
    Matrix (Fin (p - ny) ⊕ Fin ny) α K :=
  (M.submatrix (Fin.cast (show (p - ny) + ny = p by omega)) id).submatrix finSumFinEquiv id

/-- columns `[:ny] | [ny:]` (the lower system's inputs). -/
def colsL {α : Type} {m : Nat} (M : Matrix α (Fin m) K) (ny : Nat) (h : ny ≤ m) :
    Matrix α (Fin ny ⊕ Fin (m - ny)) K :=
  (M.submatrix id (Fin.cast (show ny + (m - ny) = m by omega))).submatrix id finSumFinEquiv

/-- rows `[:nu] | [nu:]` (the lower system's outputs). -/
def rowsL {α : Type} {p : Nat} (M : Matrix (Fin p) α K) (nu : Nat) (h : nu ≤ p) :
    Matrix (Fin nu ⊕ Fin (p - nu)) α K :=
  (M.submatrix (Fin.cast (show nu + (p - nu) = p by omega)) id).submatrix finSumFinEquiv id

theorem sb_sub (m nu : Nat) (d : Nat) (h : nu ≤ m) : sliceBound m d (some ((m : Int) - (nu : Int))) = m - nu := by
  simp only [sliceBound]
  rw [if_neg (by omega)]
  omega

theorem sb_nat (m k : Nat) (d : Nat) (h : k ≤ m) : sliceBound m d (some (k : Int)) = k := by
  simp [sliceBound, h]

theorem sliceCols_U1 (r m : Nat) (M : Matrix (Fin r) (Fin m) K) (nu : Nat) (h : nu ≤ m) :
    sliceCols ⟨r, m, M⟩ none (some ((m : Int) - (nu : Int))) = ⟨r, m - nu, (colsU M nu h).toCols₁⟩ := by
  rw [sliceCols_bounds r m M _ _ 0 (m - nu) (by omega) rfl (by rw [sb_sub m nu m h]; omega)]
  congr 1
  ext i j
  simp [colsU, toCols₁]
  congr 1

theorem sliceCols_U2 (r m : Nat) (M : Matrix (Fin r) (Fin m) K) (nu : Nat) (h : nu ≤ m) :
    sliceCols ⟨r, m, M⟩ (some ((m : Int) - (nu : Int))) none = ⟨r, nu, (colsU M nu h).toCols₂⟩ := by
  rw [sliceCols_bounds r m M _ _ (m - nu) nu (by omega) (sb_sub m nu 0 h) (by simp; omega)]
  congr 1

theorem sliceRows_U1 (p c : Nat) (M : Matrix (Fin p) (Fin c) K) (ny : Nat) (h : ny ≤ p) :
    sliceRows ⟨p, c, M⟩ none (some ((p : Int) - (ny : Int))) = ⟨p - ny, c, (rowsU M ny h).toRows₁⟩ := by
  rw [sliceRows_bounds p c M _ _ 0 (p - ny) (by omega) rfl (by rw [sb_sub p ny p h]; omega)]
  congr 1
  ext i j
  simp [rowsU, toRows₁]
  congr 1

theorem sliceRows_U2 (p c : Nat) (M : Matrix (Fin p) (Fin c) K) (ny : Nat) (h : ny ≤ p) :
    sliceRows ⟨p, c, M⟩ (some ((p : Int) - (ny : Int))) none = ⟨ny, c, (rowsU M ny h).toRows₂⟩ := by
  rw [sliceRows_bounds p c M _ _ (p - ny) ny (by omega) (sb_sub p ny 0 h) (by simp; omega)]
  congr 1

theorem sliceCols_L1 (r m : Nat) (M : Matrix (Fin r) (Fin m) K) (ny : Nat) (h : ny ≤ m) :
    sliceCols ⟨r, m, M⟩ none (some (ny : Int)) = ⟨r, ny, (colsL M ny h).toCols₁⟩ := by
  rw [sliceCols_bounds r m M _ _ 0 ny (by omega) rfl (by rw [sb_nat m ny m h]; omega)]
  congr 1
  ext i j
  simp [colsL, toCols₁]
  congr 1

theorem sliceCols_L2 (r m : Nat) (M : Matrix (Fin r) (Fin m) K) (ny : Nat) (h : ny ≤ m) :
    sliceCols ⟨r, m, M⟩ (some (ny : Int)) none = ⟨r, m - ny, (colsL M ny h).toCols₂⟩ := by
  rw [sliceCols_bounds r m M _ _ ny (m - ny) (by omega) (sb_nat m ny 0 h) (by simp; omega)]
  congr 1

theorem sliceRows_L1 (p c : Nat) (M : Matrix (Fin p) (Fin c) K) (nu : Nat) (h : nu ≤ p) :
    sliceRows ⟨p, c, M⟩ none (some (nu : Int)) = ⟨nu, c, (rowsL M nu h).toRows₁⟩ := by
  rw [sliceRows_bounds p c M _ _ 0 nu (by omega) rfl (by rw [sb_nat p nu p h]; omega)]
  congr 1
  ext i j
  simp [rowsL, toRows₁]
  congr 1

theorem sliceRows_L2 (p c : Nat) (M : Matrix (Fin p) (Fin c) K) (nu : Nat) (h : nu ≤ p) :
    sliceRows ⟨p, c, M⟩ (some (nu : Int)) none = ⟨p - nu, c, (rowsL M nu h).toRows₂⟩ := by
  rw [sliceRows_bounds p c M _ _ nu (p - nu) (by omega) (sb_nat p nu 0 h) (by simp; omega)]
  congr 1



theorem zerosI_sub (a m k : Nat) (h : k ≤ m) :
    (zerosI (a : Int) ((m : Int) - (k : Int)) : Except Err (PMat K)) = .ok ⟨a, m - k, 0⟩ := by
  unfold zerosI
  rw [if_neg (by omega)]
  exact congrArg Except.ok (ext' (by simp [zeros]) (by simp only [zeros]; omega) (by ext i j; rfl))

/-- `np.block([[X11, X12], [X21, X22]])` on fitting blocks. -/
theorem block22_mk {a b c d : Nat} (X11 : Matrix (Fin a) (Fin c) K) (X12 : Matrix (Fin a) (Fin d) K)
    (X21 : Matrix (Fin b) (Fin c) K) (X22 : Matrix (Fin b) (Fin d) K) :
    block [[⟨a, c, X11⟩, ⟨a, d, X12⟩], [⟨b, c, X21⟩, ⟨b, d, X22⟩]]
      = .ok ⟨a + b, c + d, (fromBlocks X11 X12 X21 X22).submatrix finSumFinEquiv.symm finSumFinEquiv.symm⟩ := by
  simp [block, hcatList, vcatList, List.mapM_cons, bind, Except.bind, pure, Except.pure, vcat_hcat_blocks]

/-- four arrays side by side (right-nested sizes). -/
def cols4 {r a b c d : Nat} (X1 : Matrix (Fin r) (Fin a) K) (X2 : Matrix (Fin r) (Fin b) K)
    (X3 : Matrix (Fin r) (Fin c) K) (X4 : Matrix (Fin r) (Fin d) K) :
    Matrix (Fin r) (Fin (a + (b + (c + d)))) K :=
  (fromCols X1 ((fromCols X2 ((fromCols X3 X4).submatrix id finSumFinEquiv.symm)).submatrix id
    finSumFinEquiv.symm)).submatrix id finSumFinEquiv.symm

theorem block24_mk {r s a b c d : Nat} (X1 : Matrix (Fin r) (Fin a) K) (X2 : Matrix (Fin r) (Fin b) K)
    (X3 : Matrix (Fin r) (Fin c) K) (X4 : Matrix (Fin r) (Fin d) K)
    (Y1 : Matrix (Fin s) (Fin a) K) (Y2 : Matrix (Fin s) (Fin b) K)
    (Y3 : Matrix (Fin s) (Fin c) K) (Y4 : Matrix (Fin s) (Fin d) K) :
    block [[⟨r, a, X1⟩, ⟨r, b, X2⟩, ⟨r, c, X3⟩, ⟨r, d, X4⟩], [⟨s, a, Y1⟩, ⟨s, b, Y2⟩, ⟨s, c, Y3⟩, ⟨s, d, Y4⟩]]
      = .ok ⟨r + s, a + (b + (c + d)),
          (fromRows (cols4 X1 X2 X3 X4) (cols4 Y1 Y2 Y3 Y4)).submatrix finSumFinEquiv.symm id⟩ := by
  simp [block, hcatList, vcatList, List.mapM_cons, bind, Except.bind, pure, Except.pure, cols4]


section sel
variable {r s a b c d : Nat}

/-- the four column blocks of `a + (b + (c + d))` columns. -/
def sel1 : Fin a → Fin (a + (b + (c + d))) := Fin.castAdd _
def sel2 : Fin b → Fin (a + (b + (c + d))) := fun j => Fin.natAdd a (Fin.castAdd _ j)
def sel3 : Fin c → Fin (a + (b + (c + d))) := fun j => Fin.natAdd a (Fin.natAdd b (Fin.castAdd _ j))
def sel4 : Fin d → Fin (a + (b + (c + d))) := fun j => Fin.natAdd a (Fin.natAdd b (Fin.natAdd c j))

variable (X1 : Matrix (Fin r) (Fin a) K) (X2 : Matrix (Fin r) (Fin b) K)
    (X3 : Matrix (Fin r) (Fin c) K) (X4 : Matrix (Fin r) (Fin d) K)

theorem cols4_sel1 : (cols4 X1 X2 X3 X4).submatrix id sel1 = X1 := by
  ext i j; simp [cols4, sel1]
theorem cols4_sel2 : (cols4 X1 X2 X3 X4).submatrix id sel2 = X2 := by
  ext i j; simp [cols4, sel2]
theorem cols4_sel3 : (cols4 X1 X2 X3 X4).submatrix id sel3 = X3 := by
  ext i j; simp [cols4, sel3]
theorem cols4_sel4 : (cols4 X1 X2 X3 X4).submatrix id sel4 = X4 := by
  ext i j; simp [cols4, sel4]

end sel

theorem sliceCols4_1 (r a b c d : Nat) (M : Matrix (Fin r) (Fin (a + (b + (c + d)))) K) (lo hi : Option Int)
    (hlo : sliceBound (a + (b + (c + d))) 0 lo = 0) (hhi : sliceBound (a + (b + (c + d))) (a + (b + (c + d))) hi = a) :
    sliceCols ⟨r, a + (b + (c + d)), M⟩ lo hi = ⟨r, a, M.submatrix id sel1⟩ := by
  rw [sliceCols_bounds r _ M lo hi 0 a (by omega) hlo (by omega)]
  congr 1
  ext i j
  simp [sel1]
  congr 1

theorem sliceCols4_2 (r a b c d : Nat) (M : Matrix (Fin r) (Fin (a + (b + (c + d)))) K) (lo hi : Option Int)
    (hlo : sliceBound (a + (b + (c + d))) 0 lo = a)
    (hhi : sliceBound (a + (b + (c + d))) (a + (b + (c + d))) hi = a + b) :
    sliceCols ⟨r, a + (b + (c + d)), M⟩ lo hi = ⟨r, b, M.submatrix id sel2⟩ := by
  rw [sliceCols_bounds r _ M lo hi a b (by omega) hlo hhi]
  congr 1

theorem sliceCols4_3 (r a b c d : Nat) (M : Matrix (Fin r) (Fin (a + (b + (c + d)))) K) (lo hi : Option Int)
    (hlo : sliceBound (a + (b + (c + d))) 0 lo = a + b)
    (hhi : sliceBound (a + (b + (c + d))) (a + (b + (c + d))) hi = a + b + c) :
    sliceCols ⟨r, a + (b + (c + d)), M⟩ lo hi = ⟨r, c, M.submatrix id sel3⟩ := by
  rw [sliceCols_bounds r _ M lo hi (a + b) c (by omega) hlo hhi]
  congr 1
  ext i j
  simp [sel3]
  congr 1
  ext
  simp [Nat.add_assoc]

theorem sliceCols4_4 (r a b c d : Nat) (M : Matrix (Fin r) (Fin (a + (b + (c + d)))) K) (lo hi : Option Int)
    (hlo : sliceBound (a + (b + (c + d))) 0 lo = a + b + c)
    (hhi : sliceBound (a + (b + (c + d))) (a + (b + (c + d))) hi = a + (b + (c + d))) :
    sliceCols ⟨r, a + (b + (c + d)), M⟩ lo hi = ⟨r, d, M.submatrix id sel4⟩ := by
  rw [sliceCols_bounds r _ M lo hi (a + b + c) d (by omega) hlo (by omega)]
  congr 1
  ext i j
  simp [sel4]
  congr 1
  ext
  simp [Nat.add_assoc]

section inv
variable [DecidableEq K]

/-- the inverse commutes with re-typing `Fin a ⊕ Fin b` as `Fin (a + b)`. -/
theorem inverse_reindex {a b : Nat} (F : Matrix (Fin a ⊕ Fin b) (Fin a ⊕ Fin b) K) :
    inverse (F.submatrix finSumFinEquiv.symm finSumFinEquiv.symm)
      = (SS.invQ F).submatrix finSumFinEquiv.symm finSumFinEquiv.symm := by
  unfold inverse SS.invQ
  rw [Matrix.det_submatrix_equiv_self, Matrix.adjugate_submatrix_equiv_self]
  rfl

theorem det_reindex {a b : Nat} (F : Matrix (Fin a ⊕ Fin b) (Fin a ⊕ Fin b) K) :
    (F.submatrix finSumFinEquiv.symm finSumFinEquiv.symm).det = F.det :=
  Matrix.det_submatrix_equiv_self _ _

end inv

theorem mul_reindex_rows {a b : Nat} {γ : Type*} (P : Matrix (Fin a ⊕ Fin b) (Fin a ⊕ Fin b) K)
    (Q : Matrix (Fin a ⊕ Fin b) γ K) :
    P.submatrix finSumFinEquiv.symm finSumFinEquiv.symm * Q.submatrix finSumFinEquiv.symm id
      = (P * Q).submatrix finSumFinEquiv.symm id := by
  have := Matrix.submatrix_mul_equiv P Q finSumFinEquiv.symm finSumFinEquiv.symm (id : γ → γ)
  exact this


theorem sb_int (w d : Nat) (k : Int) (x : Nat) (hk : k = (x : Int)) (hx : x ≤ w) :
    sliceBound w d (some k) = x := by
  subst hk
  simp [sliceBound, hx]

section th
variable [DecidableEq K]
variable {a b w : Nat} {γ : Type} (F : Matrix (Fin a ⊕ Fin b) (Fin a ⊕ Fin b) K)
  (R1 : Matrix (Fin a) (Fin w) K) (R2 : Matrix (Fin b) (Fin w) K) (f : γ → Fin w)

theorem TH_rows1 :
    ((inverse (F.submatrix finSumFinEquiv.symm finSumFinEquiv.symm)
        * (fromRows R1 R2).submatrix finSumFinEquiv.symm id).submatrix (Fin.castAdd b) id).submatrix id f
      = (SS.invQ F * fromRows (R1.submatrix id f) (R2.submatrix id f)).toRows₁ := by
  rw [inverse_reindex, mul_reindex_rows, fromRows_submatrix_right, ← mul_submatrix_cols]
  ext i j
  simp [toRows₁]

theorem TH_rows2 :
    ((inverse (F.submatrix finSumFinEquiv.symm finSumFinEquiv.symm)
        * (fromRows R1 R2).submatrix finSumFinEquiv.symm id).submatrix (Fin.natAdd a) id).submatrix id f
      = (SS.invQ F * fromRows (R1.submatrix id f) (R2.submatrix id f)).toRows₂ := by
  rw [inverse_reindex, mul_reindex_rows, fromRows_submatrix_right, ← mul_submatrix_cols]
  ext i j
  simp [toRows₂]

end th

/-! the model's `TH`, block by block -/
section model
variable {α β γ δ ε ζ : Type*} [Fintype α] [Fintype β]

theorem mul_fromBlocks_11 {ρ : Type*} (F : Matrix ρ (α ⊕ β) K) (X11 : Matrix α γ K) (X12 : Matrix α δ K)
    (X21 : Matrix β γ K) (X22 : Matrix β δ K) :
    (F * fromBlocks X11 X12 X21 X22).toCols₁ = F * fromRows X11 X21 := by
  ext i j
  simp [toCols₁, Matrix.mul_apply, Fintype.sum_sum_type]

theorem mul_fromBlocks_12 {ρ : Type*} (F : Matrix ρ (α ⊕ β) K) (X11 : Matrix α γ K) (X12 : Matrix α δ K)
    (X21 : Matrix β γ K) (X22 : Matrix β δ K) :
    (F * fromBlocks X11 X12 X21 X22).toCols₂ = F * fromRows X12 X22 := by
  ext i j
  simp [toCols₂, Matrix.mul_apply, Fintype.sum_sum_type]

end model


section model
variable {ρ σ τ α β γ δ : Type*} [Fintype α] [Fintype β]
variable (F : Matrix (ρ ⊕ σ) (α ⊕ β) K) (P : Matrix (α ⊕ β) (γ ⊕ δ) K) (Q : Matrix (α ⊕ β) τ K)

theorem th_c1_11 (Q : Matrix (α ⊕ β) τ K) (X1 : Matrix α γ K) (X2 : Matrix β δ K) :
    (F * fromCols (fromBlocks X1 0 0 X2) Q).toCols₁.toBlocks₁₁ = (F * fromRows X1 0).toRows₁ := by
  ext i j; simp [toCols₁, toBlocks₁₁, toRows₁, Matrix.mul_apply, Fintype.sum_sum_type]
theorem th_c1_12 (Q : Matrix (α ⊕ β) τ K) (X1 : Matrix α γ K) (X2 : Matrix β δ K) :
    (F * fromCols (fromBlocks X1 0 0 X2) Q).toCols₁.toBlocks₁₂ = (F * fromRows 0 X2).toRows₁ := by
  ext i j; simp [toCols₁, toBlocks₁₂, toRows₁, Matrix.mul_apply, Fintype.sum_sum_type]
theorem th_c1_21 (Q : Matrix (α ⊕ β) τ K) (X1 : Matrix α γ K) (X2 : Matrix β δ K) :
    (F * fromCols (fromBlocks X1 0 0 X2) Q).toCols₁.toBlocks₂₁ = (F * fromRows X1 0).toRows₂ := by
  ext i j; simp [toCols₁, toBlocks₂₁, toRows₂, Matrix.mul_apply, Fintype.sum_sum_type]
theorem th_c1_22 (Q : Matrix (α ⊕ β) τ K) (X1 : Matrix α γ K) (X2 : Matrix β δ K) :
    (F * fromCols (fromBlocks X1 0 0 X2) Q).toCols₁.toBlocks₂₂ = (F * fromRows 0 X2).toRows₂ := by
  ext i j; simp [toCols₁, toBlocks₂₂, toRows₂, Matrix.mul_apply, Fintype.sum_sum_type]
theorem th_c2_11 (Q : Matrix (α ⊕ β) τ K) (X1 : Matrix α γ K) (X2 : Matrix β δ K) :
    (F * fromCols Q (fromBlocks X1 0 0 X2)).toCols₂.toBlocks₁₁ = (F * fromRows X1 0).toRows₁ := by
  ext i j; simp [toCols₂, toBlocks₁₁, toRows₁, Matrix.mul_apply, Fintype.sum_sum_type]
theorem th_c2_12 (Q : Matrix (α ⊕ β) τ K) (X1 : Matrix α γ K) (X2 : Matrix β δ K) :
    (F * fromCols Q (fromBlocks X1 0 0 X2)).toCols₂.toBlocks₁₂ = (F * fromRows 0 X2).toRows₁ := by
  ext i j; simp [toCols₂, toBlocks₁₂, toRows₁, Matrix.mul_apply, Fintype.sum_sum_type]
theorem th_c2_21 (Q : Matrix (α ⊕ β) τ K) (X1 : Matrix α γ K) (X2 : Matrix β δ K) :
    (F * fromCols Q (fromBlocks X1 0 0 X2)).toCols₂.toBlocks₂₁ = (F * fromRows X1 0).toRows₂ := by
  ext i j; simp [toCols₂, toBlocks₂₁, toRows₂, Matrix.mul_apply, Fintype.sum_sum_type]
theorem th_c2_22 (Q : Matrix (α ⊕ β) τ K) (X1 : Matrix α γ K) (X2 : Matrix β δ K) :
    (F * fromCols Q (fromBlocks X1 0 0 X2)).toCols₂.toBlocks₂₂ = (F * fromRows 0 X2).toRows₂ := by
  ext i j; simp [toCols₂, toBlocks₂₂, toRows₂, Matrix.mul_apply, Fintype.sum_sum_type]

end model


/-! the same with the bounds given by their integer VALUES (side conditions for `omega`) -/

theorem sliceCols4_1i (r a b c d : Nat) (M : Matrix (Fin r) (Fin (a + (b + (c + d)))) K) (hi : Int)
    (h : hi = (a : Int)) :
    sliceCols ⟨r, a + (b + (c + d)), M⟩ none (some hi) = ⟨r, a, M.submatrix id sel1⟩ :=
  sliceCols4_1 r a b c d M _ _ rfl (sb_int _ _ _ a h (by omega))

theorem sliceCols4_2i (r a b c d : Nat) (M : Matrix (Fin r) (Fin (a + (b + (c + d)))) K) (lo hi : Int)
    (h1 : lo = (a : Int)) (h2 : hi = (a : Int) + (b : Int)) :
    sliceCols ⟨r, a + (b + (c + d)), M⟩ (some lo) (some hi) = ⟨r, b, M.submatrix id sel2⟩ :=
  sliceCols4_2 r a b c d M _ _ (sb_int _ _ _ a h1 (by omega)) (sb_int _ _ _ (a + b) (by omega) (by omega))

theorem sliceCols4_3i (r a b c d : Nat) (M : Matrix (Fin r) (Fin (a + (b + (c + d)))) K) (lo hi : Int)
    (h1 : lo = (a : Int) + (b : Int)) (h2 : hi = (a : Int) + (b : Int) + (c : Int)) :
    sliceCols ⟨r, a + (b + (c + d)), M⟩ (some lo) (some hi) = ⟨r, c, M.submatrix id sel3⟩ :=
  sliceCols4_3 r a b c d M _ _ (sb_int _ _ _ (a + b) (by omega) (by omega))
    (sb_int _ _ _ (a + b + c) (by omega) (by omega))

theorem sliceCols4_4i (r a b c d : Nat) (M : Matrix (Fin r) (Fin (a + (b + (c + d)))) K) (lo : Int)
    (h1 : lo = (a : Int) + (b : Int) + (c : Int)) :
    sliceCols ⟨r, a + (b + (c + d)), M⟩ (some lo) none = ⟨r, d, M.submatrix id sel4⟩ :=
  sliceCols4_4 r a b c d M _ _ (sb_int _ _ _ (a + b + c) (by omega) (by omega)) rfl


/-- (not a `rfl`-lemma on purpose, see `Except.ok_bind'`) -/
theorem neg_mk' (r c : Nat) (M : Matrix (Fin r) (Fin c) K) : neg ⟨r, c, M⟩ = ⟨r, c, -M⟩ := by
  simp only [neg]

theorem rank_ne_int {a b : Nat} (F : Matrix (Fin (a + b)) (Fin (a + b)) K) :
    ((rank ⟨a + b, a + b, F⟩ : Nat) : Int) ≠ (a : Int) + (b : Int) ↔ F.det = 0 := by
  rw [← rank_mk_ne_iff]
  constructor <;> intro h <;> intro h' <;> apply h <;> omega


/-! ### dimension errors (for the invalid partitions of `lft`) -/

theorem block22_eq (a b c d : PMat K) :
    block [[a, b], [c, d]] = (hcat a b).bind fun r1 => (hcat c d).bind fun r2 => vcat r1 r2 := by
  simp only [block, hcatList, List.mapM_cons, List.mapM_nil, bind, pure, Except.pure, Except.ok_bind']
  cases hcat a b with
  | error e => rfl
  | ok r1 =>
    cases hcat c d with
    | error e => rfl
    | ok r2 => rfl

theorem hcat_err {X Y : PMat K} (h : Y.r ≠ X.r) : hcat X Y = .error .shape := by
  simp [hcat, h]

theorem vcat_err {X Y : PMat K} (h : Y.c ≠ X.c) : vcat X Y = .error .shape := by
  simp [vcat, h]

theorem hcat_error_eq {X Y : PMat K} {e : Err} (h : hcat X Y = .error e) : e = .shape := by
  unfold hcat at h
  split at h
  · cases h
  · simp only [Except.error.injEq] at h; exact h.symm

theorem vcat_error_eq {X Y : PMat K} {e : Err} (h : vcat X Y = .error e) : e = .shape := by
  unfold vcat at h
  split at h
  · cases h
  · simp only [Except.error.injEq] at h; exact h.symm

theorem hcat_ok_dims {X Y R : PMat K} (h : hcat X Y = .ok R) : Y.r = X.r ∧ R.r = X.r ∧ R.c = X.c + Y.c := by
  unfold hcat at h
  split at h
  · rename_i hr; simp only [Except.ok.injEq] at h; subst h; exact ⟨hr, rfl, rfl⟩
  · cases h

theorem vcat_ok_dims {X Y R : PMat K} (h : vcat X Y = .ok R) : Y.c = X.c ∧ R.r = X.r + Y.r ∧ R.c = X.c := by
  unfold vcat at h
  split at h
  · rename_i hc; simp only [Except.ok.injEq] at h; subst h; exact ⟨hc, rfl, rfl⟩
  · cases h

theorem rank_le_c (X : PMat K) : X.rank ≤ X.c := by
  have := Matrix.rank_le_card_width X.M
  simpa [PMat.rank] using this


end PMat

namespace PySS

variable {K : Type} [Field K]

@[simp] theorem mk_mk (n p m : Nat) (A : Matrix (Fin n) (Fin n) K) (B : Matrix (Fin n) (Fin m) K)
    (C : Matrix (Fin p) (Fin n) K) (D : Matrix (Fin p) (Fin m) K) (dt : Dt) :
    mk ⟨n, n, A⟩ ⟨n, m, B⟩ ⟨p, n, C⟩ ⟨p, m, D⟩ dt = .ok ⟨n, p, m, ⟨A, B, C, D⟩, dt⟩ := by
  simp [mk]

/-- (not a `rfl`-lemma on purpose: `simp` must rewrite the `Decidable` instances of the `if`s too) -/
@[simp] theorem issiso_eq (G : DSS K) : issiso G = G.isSiso := by
  cases h : G.isSiso <;> simpa [issiso, DSS.isSiso] using h

@[simp] theorem convert_eq (x : SOperand K) : convert x = DSS.toSys x := by
  cases x <;> rfl

end PySS

end CtrlVerif
