/-
Helper lemmas for the source-text tie of `find_operating_point` (Props/C08GenOp.lean): integer index
arrays against lists of `Fin`, scatter / gather, slices.  Free to change.
-/
import CtrlVerif.Lemmas.PyNL

namespace CtrlVerif.PyNL

open CtrlVerif

/-- a list of typed indices as the integer index array of the generated code. -/
def ints {n : Nat} (l : List (Fin n)) : List Int := l.map fun i => ((i.val : Nat) : Int)

theorem sliceTo_natCast {α : Type} (z : List α) (k : Nat) : sliceTo z (k : Int) = z.take k := by
  unfold sliceTo sliceBound
  have : ¬ ((k : Int) < 0) := by omega
  simp only [this, if_false, Int.toNat_natCast]
  rcases Nat.le_total k z.length with h | h
  · rw [Nat.min_eq_left h]
  · rw [Nat.min_eq_right h, List.take_of_length_le (Nat.le_refl _), List.take_of_length_le h]

theorem sliceFrom_natCast {α : Type} (z : List α) (k : Nat) : sliceFrom z (k : Int) = z.drop k := by
  unfold sliceFrom sliceBound
  have : ¬ ((k : Int) < 0) := by omega
  simp only [this, if_false, Int.toNat_natCast]
  rcases Nat.le_total k z.length with h | h
  · rw [Nat.min_eq_left h]
  · rw [Nat.min_eq_right h, List.drop_of_length_le (Nat.le_refl _), List.drop_of_length_le h]

theorem set_ofFn {n : Nat} (base : Fin n → Q) (v : Fin n) (a : Q) :
    (List.ofFn base).set v.val a = List.ofFn (Function.update base v a) := by
  apply List.ext_getElem
  · simp
  · intro i h1 h2
    simp only [List.length_ofFn] at h2
    simp only [List.getElem_set, List.getElem_ofFn]
    by_cases hvi : v.val = i
    · have : v = ⟨i, h2⟩ := Fin.ext hvi
      subst this
      simp
    · have : (⟨i, h2⟩ : Fin n) ≠ v := fun h => hvi (by rw [← h])
      simp [hvi, Function.update_of_ne this]

theorem lookup_zip_of_not_mem {n : Nat} (i : Fin n) :
    ∀ (vars : List (Fin n)) (z : List Q), i ∉ vars → (vars.zip z).lookup i = none := by
  intro vars
  induction vars with
  | nil => intro z _; simp
  | cons v vs ih =>
    intro z hv
    cases z with
    | nil => simp
    | cons a as =>
      have hne : i ≠ v := fun h => hv (by simp [h])
      have hvs : i ∉ vs := fun h => hv (by simp [h])
      simp only [List.zip_cons_cons, List.lookup_cons]
      have : (i == v) = false := by simpa using hne
      rw [this]
      exact ih as hvs

/-- `x[vars] = vals` of the generated code is the model's `scatter` (distinct indices, one value per
index). -/
theorem scatter_ofFn {n : Nat} : ∀ (vars : List (Fin n)) (base : Fin n → Q) (vals : List Q),
    vals.length = vars.length → vars.Nodup →
    PyNL.scatter (List.ofFn base) (ints vars) vals = .ok (List.ofFn (CtrlVerif.scatter base vars vals)) := by
  intro vars
  induction vars with
  | nil =>
    intro base vals hl _
    have : vals = [] := List.length_eq_zero_iff.mp hl
    subst this
    simp only [ints, List.map_nil, PyNL.scatter]
    congr 2
  | cons v vs ih =>
    intro base vals hl hnd
    cases vals with
    | nil => simp at hl
    | cons a as =>
      have hv : v ∉ vs := (List.nodup_cons.mp hnd).1
      have hnd' : vs.Nodup := (List.nodup_cons.mp hnd).2
      have hl' : as.length = vs.length := by simpa using hl
      have hset : PyArith.setItem (List.ofFn base) ((v.val : Nat) : Int) a
          = .ok (List.ofFn (Function.update base v a)) := by
        unfold PyArith.setItem PyArith.normIdx
        have h' : (0 : Int) ≤ (v.val : Int) ∧ (v.val : Int) < ((List.ofFn base).length : Int) := by
          simp only [List.length_ofFn]; exact ⟨by omega, by exact_mod_cast v.isLt⟩
        rw [if_pos h']
        simp [set_ofFn]
      simp only [ints, List.map_cons, PyNL.scatter, hset]
      have := ih (Function.update base v a) as hl' hnd'
      simp only [ints] at this
      rw [this]
      congr 2
      funext i
      simp only [CtrlVerif.scatter, List.zip_cons_cons, List.lookup_cons]
      by_cases hiv : i = v
      · subst hiv
        simp [lookup_zip_of_not_mem i vs as hv]
      · have : (i == v) = false := by simpa using hiv
        rw [this]
        cases (vs.zip as).lookup i with
        | some w => rfl
        | none => simp [Function.update_of_ne hiv]

/-- `x[vars]` of the generated code. -/
theorem gather_ofFn {n : Nat} (f : Fin n → Q) : ∀ (vars : List (Fin n)),
    PyNL.gather (List.ofFn f) (ints vars) = .ok (vars.map f) := by
  intro vars
  induction vars with
  | nil => simp [gather, ints, pure, Except.pure]
  | cons v vs ih =>
    have hg : PyArith.getItem (List.ofFn f) ((v.val : Nat) : Int) = .ok (f v) := by
      rw [getItem_lt _ _ (by simp)]
      simp
    unfold gather at ih ⊢
    simp only [ints, List.map_cons, List.mapM_cons, hg, bind, Except.bind] at ih ⊢
    rw [ih]
    rfl

/-! ### the index lists of `find_operating_point` -/

theorem ints_length {n : Nat} (l : List (Fin n)) : (ints l).length = l.length := by simp [ints]

theorem ints_eq_nil {n : Nat} (l : List (Fin n)) : ints l = [] ↔ l = [] := by simp [ints]

theorem map_val_finRange (k : Nat) : (List.finRange k).map (fun i => i.val) = List.range k := by
  apply List.ext_getElem
  · simp
  · intro i h1 h2; simp

theorem ints_finRange (k : Nat) : ints (List.finRange k) = PyArith.range 0 (k : Int) := by
  unfold ints PyArith.range
  have : ((k : Int) - 0).toNat = k := by omega
  rw [this, ← map_val_finRange k, List.map_map]
  apply List.map_congr_left
  intro i _
  simp

/-- the model's index normalisation on indices that are already typed. -/
theorem normIdx_ints {k : Nat} (L : List (Fin k)) : CtrlVerif.normIdx k (ints L) = .ok L := by
  unfold CtrlVerif.normIdx ints
  induction L with
  | nil => rfl
  | cons a L ih =>
    have h : (0 : Int) ≤ ((a.val : Nat) : Int) ∧ ((a.val : Nat) : Int).toNat < k := by
      constructor
      · omega
      · simp
    simp only [List.map_cons, List.mapM_cons, bind, Except.bind, dif_pos h, pure, Except.pure]
    rw [ih]
    simp

theorem insertU_lt (a b : Int) (bs : List Int) (h : a < b) : insertU a (b :: bs) = a :: b :: bs := by
  simp [insertU, h]

/-- `np.unique` of a strictly increasing list is the list. -/
theorem unique_of_sorted : ∀ (l : List Int), l.Pairwise (· < ·) → unique l = l := by
  intro l
  induction l with
  | nil => intro _; rfl
  | cons a rest ih =>
    intro h
    have hr := ih (List.Pairwise.of_cons h)
    unfold unique at hr ⊢
    rw [List.foldr_cons, hr]
    cases rest with
    | nil => rfl
    | cons b bs =>
      have hab : a < b := (List.pairwise_cons.mp h).1 b (List.mem_cons_self)
      exact insertU_lt a b bs hab

theorem unique_ints {k : Nat} (L : List (Fin k)) (h : L.Pairwise (· < ·)) : unique (ints L) = ints L := by
  apply unique_of_sorted
  unfold ints
  rw [List.pairwise_map]
  exact h.imp (fun {a b} hab => by exact_mod_cast hab)

theorem map_filter_eq_filterMap {α β : Type} (f : α → β) (q : α → Bool) : ∀ (l : List α),
    List.map f (List.filter q l) = List.filterMap (fun x => if q x then some (f x) else none) l := by
  intro l
  induction l with
  | nil => rfl
  | cons a l ih =>
    by_cases h : q a = true
    · simp [List.filter_cons, List.filterMap_cons, h, ih]
    · simp [List.filter_cons, List.filterMap_cons, h, ih]

/-- `np.delete(range(k), L)` is the model's complement. -/
theorem deleteIdx_range {k : Nat} (L : List (Fin k)) :
    deleteIdx (PyArith.range 0 (k : Int)) (ints L) = .ok (ints (complementOf L)) := by
  unfold deleteIdx
  have hlen : (PyArith.range 0 (k : Int)).length = k := by simp [PyArith.range]
  have hmap : (ints L).mapM (PyArith.normIdx (PyArith.range 0 (k : Int)).length) = .ok (L.map fun i => i.val) := by
    rw [hlen]
    unfold ints
    induction L with
    | nil => rfl
    | cons a L ih =>
      have h : (0 : Int) ≤ ((a.val : Nat) : Int) ∧ ((a.val : Nat) : Int) < (k : Int) :=
        ⟨by omega, by exact_mod_cast a.isLt⟩
      simp only [List.map_cons, List.mapM_cons, PyArith.normIdx, if_pos h, bind, Except.bind, pure,
        Except.pure]
      rw [ih]
      simp
  rw [hmap]
  simp only [hlen]
  congr 1
  rw [← map_val_finRange k, List.filterMap_map]
  unfold complementOf ints
  rw [map_filter_eq_filterMap]
  apply List.filterMap_congr
  intro i _
  have hc : (L.map fun i => i.val).contains i.val = L.contains i := by
    rw [Bool.eq_iff_iff]
    simp only [List.contains_iff_mem, List.mem_map]
    constructor
    · rintro ⟨j, hj, hji⟩; rwa [← Fin.ext hji]
    · intro h; exact ⟨i, h, rfl⟩
  have hg : (PyArith.range 0 (k : Int))[i.val]? = some ((i.val : Nat) : Int) := by
    unfold PyArith.range
    simp [i.isLt]
  simp only [Function.comp, hc, hg]
  cases L.contains i <;> simp

end CtrlVerif.PyNL
