/-
Symbolic evaluation of the primitives of `Model/PyCanon.lean` on arrays in constructor form, the
certified inverse of the C15 model as `det⁻¹ • adjugate`, and the bridges between the untyped
arrays the generated functions compute (`Generated/Canon*.lean`) and the typed definitions of
`Model/Canonical.lean` (companion matrices, `ctrb1`, `obsv1`, index functions of the keep / elim
lists).  Helper lemmas of `Props/C15Gen*.lean`, free to change.
-/
import CtrlVerif.Model.PyCanon
import CtrlVerif.Lemmas.PyMat
import CtrlVerif.Lemmas.CanonicalDyn
import Mathlib.LinearAlgebra.Matrix.Charpoly.Coeff
import Mathlib.LinearAlgebra.Matrix.Block

namespace CtrlVerif

open Matrix

variable {K : Type} [Field K] [DecidableEq K]

/-! ### the certified inverse is the inverse -/

/-- `certInv` (Gauss–Jordan candidate, checked; `det`/`adjugate` otherwise) returns THE inverse. -/
theorem certInv_eq {n : Nat} (F : Matrix (Fin n) (Fin n) K) :
    certInv F = if F.det = 0 then none else some (SS.invQ F) := by
  split
  · rename_i h
    exact (certInv_eq_none_iff F).mpr h
  · rename_i h
    cases hc : certInv F with
    | none => exact absurd ((certInv_eq_none_iff F).mp hc) h
    | some X =>
      obtain ⟨h1, _⟩ := certInv_spec F X hc
      obtain ⟨_, h4⟩ := invQ_two_sided F h
      congr 1
      calc X = (SS.invQ F * F) * X := by rw [h4, Matrix.one_mul]
        _ = SS.invQ F := by rw [Matrix.mul_assoc, h1, Matrix.mul_one]

theorem invQ_transpose {n : Nat} (F : Matrix (Fin n) (Fin n) K) : SS.invQ Fᵀ = (SS.invQ F)ᵀ := by
  simp [SS.invQ, Matrix.det_transpose, Matrix.adjugate_transpose, Matrix.transpose_smul]

theorem Mat.ofTab_tab' {p m : Nat} (M : Matrix (Fin p) (Fin m) K) : (Mat.ofTab (Mat.tab M) : Matrix (Fin p) (Fin m) K) = M :=
  Mat.ofTab_tab M

namespace PyCanon

theorem divNum_mk (r c : Nat) (M : Matrix (Fin r) (Fin c) K) (a : K) :
    divNum ⟨r, c, M⟩ a = if a = 0 ∧ r ≠ 0 ∧ c ≠ 0 then .error .zeroDen else .ok ⟨r, c, a⁻¹ • M⟩ := by
  unfold divNum
  split
  · rfl
  · congr 2
    ext i j
    simp [div_eq_inv_mul]

@[simp] theorem zerosLike_mk (r c : Nat) (M : Matrix (Fin r) (Fin c) K) :
    zerosLike ⟨r, c, M⟩ = ⟨r, c, 0⟩ := rfl

/-! ### items -/

/-- `X[i, j] = v` for indices that are in range and not negative. -/
theorem setItem_nonneg (r c : Nat) (M : Matrix (Fin r) (Fin c) K) (i j : Int) (v : K)
    (hi : 0 ≤ i) (hj : 0 ≤ j) (hir : i < r) (hjc : j < c) :
    setItem ⟨r, c, M⟩ i j v
      = .ok ⟨r, c, Matrix.of fun i' j' => if i'.val = i.toNat ∧ j'.val = j.toNat then v else M i' j'⟩ := by
  simp [setItem, PyArith.normIdx, hi, hj, hir, hjc]

theorem setItem_empty_rows (c : Nat) (M : Matrix (Fin 0) (Fin c) K) (i j : Int) (v : K) :
    setItem ⟨0, c, M⟩ i j v = .error .indexRange := by
  have h : PyArith.normIdx 0 i = .error .indexRange := by
    simp only [PyArith.normIdx]
    rw [if_neg (by omega), if_neg (by omega)]
  simp only [setItem, h]

theorem setItem_empty_cols (r : Nat) (M : Matrix (Fin r) (Fin 0) K) (i j : Int) (v : K) :
    setItem ⟨r, 0, M⟩ i j v = .error .indexRange := by
  have h : PyArith.normIdx 0 j = .error .indexRange := by
    simp only [PyArith.normIdx]
    rw [if_neg (by omega), if_neg (by omega)]
  simp only [setItem, h]
  split <;> simp_all

/-- `p[i]` for an index that is in range and not negative. -/
theorem getItem_nonneg (l : List K) (i : Int) (hi : 0 ≤ i) (hl : i < l.length) :
    PyArith.getItem l i = .ok (l.getD i.toNat 0) := by
  have h : i.toNat < l.length := by omega
  simp [PyArith.getItem, PyArith.normIdx, hi, hl, h]

/-! ### `for i in range(0, n)` over an array -/

theorem range_zero_succ (m : Nat) :
    PyArith.range 0 ((m + 1 : Nat) : Int) = PyArith.range 0 (m : Int) ++ [(m : Int)] := by
  simp [PyArith.range, List.range_succ]

/-- a loop `for k in range(0, n): X = f(X, k)` over an `r × c` array that passes through the stages
`P 0, P 1, …`: it ends in `P n`. -/
theorem loop_stages (r c n : Nat) (P : Nat → Matrix (Fin r) (Fin c) K)
    (f : PMat K → Int → Except Err (PMat K))
    (hstep : ∀ k, k < n → f ⟨r, c, P k⟩ (k : Int) = .ok ⟨r, c, P (k + 1)⟩) :
    List.foldlM f ⟨r, c, P 0⟩ (PyArith.range 0 (n : Int)) = .ok ⟨r, c, P n⟩ := by
  induction n with
  | zero => simp [PyArith.range, pure, Except.pure]
  | succ m ih =>
    rw [range_zero_succ, List.foldlM_append, ih (fun k hk => hstep k (by omega))]
    simp only [bind, Except.bind, List.foldlM_cons, List.foldlM_nil, hstep m (by omega), pure, Except.pure]

/-! ### `poly`, `ctrb`, `obsv` -/

/-- the coefficients of the characteristic polynomial, highest power first. -/
noncomputable def charpolyList {n : Nat} (A : Matrix (Fin n) (Fin n) K) : List K :=
  (List.range (n + 1)).map fun k => A.charpoly.coeff (n - k)

@[simp] theorem charpolyList_length {n : Nat} (A : Matrix (Fin n) (Fin n) K) :
    (charpolyList A).length = n + 1 := by simp [charpolyList]

theorem charpolyList_getD {n : Nat} (A : Matrix (Fin n) (Fin n) K) (k : Nat) (hk : k ≤ n) :
    (charpolyList A).getD k 0 = A.charpoly.coeff (n - k) := by
  have h : k < (List.range (n + 1)).length := by simp; omega
  have h' : k < n + 1 := by omega
  simp [charpolyList, List.getD_eq_getElem?_getD, List.getElem?_map, List.getElem?_range h']

/-- the leading coefficient is `1`. -/
theorem charpolyList_head {n : Nat} (A : Matrix (Fin n) (Fin n) K) : (charpolyList A).getD 0 0 = 1 := by
  rw [charpolyList_getD A 0 (Nat.zero_le _), Nat.sub_zero]
  have h := Matrix.charpoly_monic A
  have hd := Matrix.charpoly_natDegree_eq_dim A
  rw [Fintype.card_fin] at hd
  have h2 : A.charpoly.coeff A.charpoly.natDegree = 1 := h
  rwa [hd] at h2

open Polynomial in
theorem toPoly_map_range (f : Nat → K) (m : Nat) :
    toPoly ((List.range (m + 1)).map f) = ∑ k ∈ Finset.range (m + 1), C (f k) * X ^ (m - k) := by
  induction m with
  | zero => simp [toPoly_cons]
  | succ m ih =>
    rw [List.range_succ, List.map_append, List.map_cons, List.map_nil, SS.toPoly_snoc, ih,
      Finset.sum_range_succ _ (m + 1), Finset.mul_sum]
    simp only [Nat.sub_self, pow_zero, mul_one]
    congr 1
    refine Finset.sum_congr rfl fun k hk => ?_
    have hk' : k ≤ m := by simpa [Nat.lt_succ_iff] using hk
    rw [show m + 1 - k = (m - k) + 1 by omega, pow_succ]
    ring

/-- the list `numpy.poly` returns denotes the characteristic polynomial. -/
theorem toPoly_charpolyList {n : Nat} (A : Matrix (Fin n) (Fin n) K) :
    toPoly (charpolyList A) = A.charpoly := by
  unfold charpolyList
  rw [toPoly_map_range]
  have hd : A.charpoly.natDegree < n + 1 := by
    have := Matrix.charpoly_natDegree_eq_dim A
    rw [Fintype.card_fin] at this
    omega
  conv_rhs => rw [Polynomial.as_sum_range_C_mul_X_pow' A.charpoly hd]
  rw [← Finset.sum_range_reflect (fun i => Polynomial.C (A.charpoly.coeff i) * Polynomial.X ^ i) (n + 1)]
  rfl

theorem poly_mk (n : Nat) (A : Matrix (Fin n) (Fin n) K) :
    poly ⟨n, n, A⟩ = if n ≠ 0 then .ok (charpolyList A) else .error .shape := by
  unfold poly
  by_cases h : n = 0
  · simp [h]
  · simp [h, charpolyList]

/-- single-input `ctrb` is the model's `ctrb1` (the array is `n × (n·1)`, re-typed). -/
theorem ctrb_mk1 (n : Nat) (A : Matrix (Fin n) (Fin n) K) (B : Matrix (Fin n) (Fin 1) K) :
    ctrb ⟨n, n, A⟩ ⟨n, 1, B⟩ = .ok ⟨n, n, SS.ctrb1 A B⟩ := by
  unfold ctrb
  simp only [and_self, ↓reduceDIte, PMat.retype_rfl]
  congr 1
  refine PMat.ext' rfl (Nat.mul_one n) ?_
  ext i j
  simp only [PMat.retype, SS.ctrb1, submatrix_apply, of_apply, Fin.val_cast, Nat.div_one, Fin.cast_refl, id_eq]
  exact congrArg _ (Subsingleton.elim _ _)

/-- single-output `obsv` is the model's `obsv1`. -/
theorem obsv_mk1 (n : Nat) (A : Matrix (Fin n) (Fin n) K) (C : Matrix (Fin 1) (Fin n) K) :
    obsv ⟨n, n, A⟩ ⟨1, n, C⟩ = .ok ⟨n, n, SS.obsv1 A C⟩ := by
  unfold obsv
  simp only [and_self, ↓reduceDIte, PMat.retype_rfl]
  congr 1
  refine PMat.ext' (Nat.mul_one n) rfl ?_
  ext i j
  simp only [PMat.retype, SS.obsv1, submatrix_apply, of_apply, Fin.val_cast, Nat.div_one, Fin.cast_refl, id_eq]
  exact congrFun (congrArg _ (Subsingleton.elim _ _)) j

/-! ### the companion matrices as they grow in the loops -/

/-- `reachable_form`'s `A` after `m` rounds of the loop: the first `m` columns are written. -/
def partialR (n : Nat) (a : Nat → K) (m : Nat) : Matrix (Fin n) (Fin n) K :=
  fun i j => if j.val < m then SS.companionR n a i j else 0

/-- `observable_form`'s `A` after `m` rounds of the loop: the first `m` rows are written. -/
def partialO (n : Nat) (a : Nat → K) (m : Nat) : Matrix (Fin n) (Fin n) K :=
  fun i j => if i.val < m then SS.companionO n a i j else 0

theorem partialR_zero (n : Nat) (a : Nat → K) : partialR n a 0 = 0 := by
  ext i j; simp [partialR]

theorem partialR_full (n : Nat) (a : Nat → K) : partialR n a n = SS.companionR n a := by
  ext i j; simp [partialR, j.isLt]

theorem partialO_zero (n : Nat) (a : Nat → K) : partialO n a 0 = 0 := by
  ext i j; simp [partialO]

theorem partialO_full (n : Nat) (a : Nat → K) : partialO n a n = SS.companionO n a := by
  ext i j; simp [partialO, i.isLt]

/-- the loop of `reachable_form`, whatever its body looks like, as long as round `k` takes the array
from stage `k` to stage `k + 1`. -/
theorem companionR_loop (n : Nat) (a : Nat → K) (f : PMat K → Int → Except Err (PMat K))
    (hstep : ∀ k, k < n → f ⟨n, n, partialR n a k⟩ (k : Int) = .ok ⟨n, n, partialR n a (k + 1)⟩) :
    List.foldlM f ⟨n, n, 0⟩ (PyArith.range 0 (n : Int)) = .ok ⟨n, n, SS.companionR n a⟩ := by
  rw [← partialR_zero n a, loop_stages n n n (partialR n a) f hstep, partialR_full]

theorem companionO_loop (n : Nat) (a : Nat → K) (f : PMat K → Int → Except Err (PMat K))
    (hstep : ∀ k, k < n → f ⟨n, n, partialO n a k⟩ (k : Int) = .ok ⟨n, n, partialO n a (k + 1)⟩) :
    List.foldlM f ⟨n, n, 0⟩ (PyArith.range 0 (n : Int)) = .ok ⟨n, n, SS.companionO n a⟩ := by
  rw [← partialO_zero n a, loop_stages n n n (partialO n a) f hstep, partialO_full]

/-! ### `ctrb(A_c, e₁)` is unit upper triangular, so `obsv(A_o, e₁ᵀ)` is invertible -/

theorem companionR_mul_apply (n : Nat) (a : Nat → K) (v : Matrix (Fin n) (Fin 1) K) (i : Fin n)
    (hi : i.val ≠ 0) : (SS.companionR n a * v) i 0 = v ⟨i.val - 1, by omega⟩ 0 := by
  rw [Matrix.mul_apply, Finset.sum_eq_single (⟨i.val - 1, by omega⟩ : Fin n)]
  · simp only [SS.companionR, hi, ↓reduceIte]
    rw [if_pos (by omega), one_mul]
  · intro j _ hj
    simp only [SS.companionR, hi, ↓reduceIte]
    rw [if_neg, zero_mul]
    intro h
    apply hj
    apply Fin.ext
    show j.val = i.val - 1
    omega
  · intro h; exact absurd (Finset.mem_univ _) h

theorem companionR_pow_e1 (n : Nat) (a : Nat → K) (k : Nat) (i : Fin n) :
    (k < i.val → (SS.companionR n a ^ k * (SS.e1col n : Matrix (Fin n) (Fin 1) K)) i 0 = 0)
      ∧ (i.val = k → (SS.companionR n a ^ k * (SS.e1col n : Matrix (Fin n) (Fin 1) K)) i 0 = 1) := by
  induction k generalizing i with
  | zero =>
    simp only [pow_zero, Matrix.one_mul, SS.e1col]
    constructor
    · intro h; rw [if_neg (by omega)]
    · intro h; rw [if_pos h]
  | succ k ih =>
    rw [pow_succ', Matrix.mul_assoc]
    constructor
    · intro h
      rw [companionR_mul_apply n a _ i (by omega)]
      exact (ih ⟨i.val - 1, by omega⟩).1 (by show k < i.val - 1; omega)
    · intro h
      rw [companionR_mul_apply n a _ i (by omega)]
      exact (ih ⟨i.val - 1, by omega⟩).2 (by show i.val - 1 = k; omega)

theorem det_ctrb1_companionR (n : Nat) (a : Nat → K) :
    (SS.ctrb1 (SS.companionR n a) (SS.e1col n)).det = 1 := by
  rw [Matrix.det_of_isUpperTriangular]
  · refine Finset.prod_eq_one fun i _ => ?_
    exact (companionR_pow_e1 n a i.val i).2 rfl
  · intro i j hij
    exact (companionR_pow_e1 n a j.val i).1 hij

theorem det_obsv1_companionO (n : Nat) (a : Nat → K) :
    (SS.obsv1 (SS.companionO n a) (SS.e1row n)).det = 1 := by
  rw [SS.obsv1_eq_transpose, SS.companionO_eq_transpose, SS.e1row_eq_transpose, Matrix.transpose_transpose,
    Matrix.transpose_transpose, Matrix.det_transpose, det_ctrb1_companionR]

/-- what `reachable_form` / `observable_form` return as Python values: the system and the array `T`. -/
def canonOut (o : CanonOut K) : DSS K × PMat K := (o.sys, ⟨o.sys.n, o.sys.n, o.T⟩)

end PyCanon

end CtrlVerif
