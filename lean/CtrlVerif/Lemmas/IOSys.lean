/-
Helper lemmas for the I/O-system model: unfolding of `simulate`, `searchLeft` on strictly
increasing lists, `seqFin`, the loop `iterate`.
-/
import CtrlVerif.Model.IOSys
import Mathlib.Tactic.Ring
import Mathlib.Tactic.FieldSimp
import Mathlib.Order.Basic

namespace CtrlVerif

namespace IOSys

variable {K : Type*} [Field K]
variable {σ σ₁ σ₂ ι ι₁ ι₂ o o₁ o₂ : Type*}

/-! ### `simulate` -/

theorem simulate_cons (G : IOSys σ ι o K) (uf : K → Except Err (ι → K)) (t : K) (ts : List K)
    (x : σ → K) (tr : List ((σ → K) × (ι → K) × (o → K))) :
    simulate G uf (t :: ts) x = .ok tr ↔
      ∃ u y x' rest, uf t = .ok u ∧ G.h t x u = .ok y ∧ G.f t x u = .ok x' ∧
        simulate G uf ts x' = .ok rest ∧ tr = (x, u, y) :: rest := by
  constructor
  · intro h
    simp only [simulate] at h
    split at h
    · contradiction
    · rename_i u hu
      split at h
      · contradiction
      · rename_i y hy
        split at h
        · contradiction
        · rename_i x' hx'
          split at h
          · contradiction
          · rename_i rest hrest
            injection h with h
            exact ⟨u, y, x', rest, hu, hy, hx', hrest, h.symm⟩
  · rintro ⟨u, y, x', rest, hu, hy, hx', hrest, rfl⟩
    simp only [simulate, hu, hy, hx', hrest]

/-! ### `searchLeft` -/

section Search
variable {α : Type*} [LinearOrder α]

/-- all entries before position `k` of a strictly increasing list are `< t` and the entry at `k`
is not: `searchLeft` returns `k`. -/
theorem searchLeft_eq (T : List α) (hT : T.Pairwise (· < ·)) (t : α) (k : Nat) (hk : k ≤ T.length)
    (hlo : ∀ j (hj : j < T.length), j < k → T[j] < t)
    (hhi : ∀ j (hj : j < T.length), k ≤ j → ¬ T[j] < t) :
    (T.takeWhile (· < t)).length = k := by
  induction T generalizing k with
  | nil => simp at hk; simp [hk]
  | cons a l ih =>
    cases k with
    | zero =>
      have h0 : ¬ a < t := hhi 0 (by simp) (le_refl 0)
      simp [List.takeWhile, h0]
    | succ k =>
      have h0 : a < t := hlo 0 (by simp) (Nat.succ_pos k)
      rw [List.pairwise_cons] at hT
      have := ih hT.2 k (by simpa using hk)
        (fun j hj hjk => by
          have h := hlo (j + 1) (by simpa using hj) (by omega)
          rwa [List.getElem_cons_succ] at h)
        (fun j hj hjk => by
          have h := hhi (j + 1) (by simpa using hj) (by omega)
          rwa [List.getElem_cons_succ] at h)
      simp [List.takeWhile, h0, this]

theorem pairwise_lt_get {T : List α} (hT : T.Pairwise (· < ·)) {i j : Nat} (hi : i < T.length)
    (hj : j < T.length) (hij : i < j) : T[i] < T[j] :=
  List.pairwise_iff_getElem.mp hT i j hi hj hij

end Search

/-! ### `seqFin` -/

theorem seqFin_ok {α : Type*} : ∀ {n : Nat} (g : Fin n → Except Err α) (v : Fin n → α),
    (∀ i, g i = .ok (v i)) → seqFin g = .ok v
  | 0, g, v, _ => by
    simp only [seqFin]
    congr 1
    funext i
    exact i.elim0
  | n + 1, g, v, h => by
    have ih := seqFin_ok (fun i => g i.succ) (fun i => v i.succ) (fun i => h i.succ)
    simp only [seqFin, h 0, ih]
    congr 1
    funext i
    refine Fin.cases ?_ (fun j => ?_) i <;> simp

/-! ### `iterate` -/

section Iterate
variable {U Y : Type*} [DecidableEq U]

/-- when the loop exits normally, the returned inputs are a fixed point of the pass and the
returned outputs are those computed from them. -/
theorem iterate_sound (F : U → Except Err (Y × U)) :
    ∀ (c : Nat) (ul : U) (r : U × Y), iterate F c ul = .ok r → F r.1 = .ok (r.2, r.1)
  | 0, _, _, h => by simp [iterate] at h
  | c + 1, ul, r, h => by
    simp only [iterate] at h
    split at h
    · contradiction
    · rename_i q hq
      split at h
      · rename_i heq
        injection h with h
        subst h
        simp only
        rw [hq]
        congr 1
        exact Prod.ext rfl heq.symm
      · exact iterate_sound F c q.2 r h

/-- a fixed point is returned at once. -/
theorem iterate_fix (F : U → Except Err (Y × U)) (c : Nat) (ul : U) (yl : Y)
    (h : F ul = .ok (yl, ul)) : iterate F (c + 1) ul = .ok (ul, yl) := by
  simp [iterate, h]

/-- if the pass maps `ul` to `u₁` and `u₁` is a fixed point, two rounds suffice. -/
theorem iterate_conv2 (F : U → Except Err (Y × U)) (c : Nat) (ul u₁ : U) (y₀ y₁ : Y)
    (h₀ : F ul = .ok (y₀, u₁)) (h₁ : F u₁ = .ok (y₁, u₁)) :
    iterate F (c + 2) ul = .ok (u₁, y₁) := by
  by_cases he : ul = u₁
  · subst he
    rw [h₀] at h₁
    injection h₁ with h₁
    have : y₀ = y₁ := (Prod.mk.inj h₁).1
    subst this
    exact iterate_fix F (c + 1) ul y₀ h₀
  · rw [iterate, h₀]
    simp only [he, if_false]
    exact iterate_fix F c u₁ y₁ h₁

/-- … and three rounds when the second image is the fixed point. -/
theorem iterate_conv3 (F : U → Except Err (Y × U)) (c : Nat) (ul u₁ u₂ : U) (y₀ y₁ y₂ : Y)
    (h₀ : F ul = .ok (y₀, u₁)) (h₁ : F u₁ = .ok (y₁, u₂)) (h₂ : F u₂ = .ok (y₂, u₂)) :
    iterate F (c + 3) ul = .ok (u₂, y₂) := by
  by_cases he : ul = u₁
  · subst he
    rw [h₀] at h₁
    injection h₁ with h₁
    have hy : y₀ = y₁ := (Prod.mk.inj h₁).1
    have hu : ul = u₂ := (Prod.mk.inj h₁).2
    subst hu
    rw [h₀] at h₂
    injection h₂ with h₂
    have : y₀ = y₂ := (Prod.mk.inj h₂).1
    subst this
    exact iterate_fix F (c + 2) ul y₀ h₀
  · rw [iterate, h₀]
    simp only [he, if_false]
    exact iterate_conv2 F c u₁ u₂ y₁ y₂ h₁ h₂

end Iterate

/-! ### scaling of all signals -/

section Scale

/-- the loop `iterate` commutes with an injective rescaling of the subsystem inputs (the exit test
`ulist == new_ulist` compares the signals exactly, so it cannot depend on their level). -/
theorem iterate_scale {U Y : Type*} [DecidableEq U] (F F' : U → Except Err (Y × U))
    (sU : U → U) (sY : Y → Y) (hinj : Function.Injective sU)
    (hF : ∀ ul, F' (sU ul) = (F ul).map (Prod.map sY sU)) :
    ∀ (k : Nat) (ul : U), iterate F' k (sU ul) = (iterate F k ul).map (Prod.map sU sY) := by
  intro k
  induction k with
  | zero => intro ul; rfl
  | succ k ih =>
    intro ul
    simp only [iterate, hF ul]
    cases hr : F ul with
    | error e => rfl
    | ok r =>
      simp only [Except.map, Prod.map]
      by_cases h : ul = r.2
      · simp [h]
      · have h' : sU ul ≠ sU r.2 := fun e => h (hinj e)
        simp only [h, h', if_false]
        exact ih r.2

theorem smul_injective_fun {α : Type*} (c : K) (hc : c ≠ 0) :
    Function.Injective (fun v : α → K => c • v) := by
  intro a b h
  funext i
  have := congrFun h i
  simpa [hc] using this

variable [Fintype ι] [Fintype ι₁] [Fintype ι₂] [Fintype o₁] [Fintype o₂]

theorem step2_smul (G₁ : IOSys σ₁ ι₁ o₁ K) (G₂ : IOSys σ₂ ι₂ o₂ K) (h₁ : Homog G₁) (h₂ : Homog G₂)
    (Cm : Matrix (ι₁ ⊕ ι₂) (o₁ ⊕ o₂) K) (Im : Matrix (ι₁ ⊕ ι₂) ι K) (c : K) (hc : c ≠ 0)
    (t : K) (x : σ₁ ⊕ σ₂ → K) (u : ι → K) (ul : ι₁ ⊕ ι₂ → K) :
    step2 G₁ G₂ Cm Im t (c • x) (c • u) (c • ul)
      = (step2 G₁ G₂ Cm Im t x u ul).map (Prod.map (c • ·) (c • ·)) := by
  have e1 : (c • x) ∘ Sum.inl = c • (x ∘ Sum.inl) := rfl
  have e2 : (c • x) ∘ Sum.inr = c • (x ∘ Sum.inr) := rfl
  have e3 : (c • ul) ∘ Sum.inl = c • (ul ∘ Sum.inl) := rfl
  have e4 : (c • ul) ∘ Sum.inr = c • (ul ∘ Sum.inr) := rfl
  simp only [step2, e1, e2, e3, e4, (h₁ c hc t _ _).2, (h₂ c hc t _ _).2]
  cases G₁.h t (x ∘ Sum.inl) (ul ∘ Sum.inl) with
  | error e => rfl
  | ok y₁ =>
    cases G₂.h t (x ∘ Sum.inr) (ul ∘ Sum.inr) with
    | error e => rfl
    | ok y₂ =>
      simp only [Except.map, Prod.map, Except.ok.injEq, Prod.mk.injEq]
      have e5 : Sum.elim (c • y₁) (c • y₂) = c • Sum.elim y₁ y₂ := by
        funext i; cases i <;> rfl
      refine ⟨e5, ?_⟩
      rw [e5, Matrix.mulVec_smul, Matrix.mulVec_smul, smul_add]

theorem step1_smul (G : IOSys σ₁ ι₁ o₁ K) (hG : Homog G)
    (Cm : Matrix ι₁ o₁ K) (Im : Matrix ι₁ ι K) (c : K) (hc : c ≠ 0)
    (t : K) (x : σ₁ → K) (u : ι → K) (ul : ι₁ → K) :
    step1 G Cm Im t (c • x) (c • u) (c • ul)
      = (step1 G Cm Im t x u ul).map (Prod.map (c • ·) (c • ·)) := by
  simp only [step1, (hG c hc t _ _).2]
  cases G.h t x ul with
  | error e => rfl
  | ok y =>
    simp only [Except.map, Prod.map, Except.ok.injEq, Prod.mk.injEq, true_and]
    rw [Matrix.mulVec_smul, Matrix.mulVec_smul, smul_add]

end Scale

end IOSys

end CtrlVerif
