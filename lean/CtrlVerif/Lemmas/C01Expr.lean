/-
Helper lemmas for the C01 tree theorem: the joint specification `TSpec` of one evaluation step
(model side and rational-matrix side) and its propagation through `bind`.
-/
import CtrlVerif.Model.C01Expr

namespace CtrlVerif

open Matrix

section frac
variable {K : Type*} [Field K] [DecidableEq K]

theorem Frac.wf_one : (Frac.one : Frac K).WF := by
  simp [Frac.one, Frac.WF, toPoly_cons]

@[simp] theorem Frac.sem_one : (Frac.one : Frac K).sem = 1 := by
  simp [Frac.one, Frac.sem, toPoly_cons]

/-- on one index the diagonal broadcast is the system itself. -/
theorem TFM.diag_one_eq_siso (g : Frac K) : TFM.diag g 1 = TFM.siso g := by
  unfold TFM.diag TFM.siso
  congr 1
  funext i j
  rw [if_pos (Subsingleton.elim i j)]

end frac

variable {K : Type} [Field K] [DecidableEq K]

/-- joint specification of a model value `m` and a semantic value `s`: either the model returns
a well-formed system whose meaning is `s`, or the model raises `zeroDen` and `s` is undefined. -/
def TSpec {o ι : Type} (m : Except Err (TFM o ι K)) (s : Option (Matrix o ι (RatFunc K))) : Prop :=
  (∃ G, m = .ok G ∧ G.WF ∧ s = some G.sem) ∨ (m = .error .zeroDen ∧ s = none)

section combinators
variable {o ι o₂ ι₂ o₃ ι₃ : Type}

theorem TSpec.ok {G : TFM o ι K} (h : G.WF) : TSpec (.ok G) (some G.sem) :=
  Or.inl ⟨G, rfl, h, rfl⟩

theorem TSpec.of_total {m : Except Err (TFM o ι K)} {v : Matrix o ι (RatFunc K)}
    (h : ∃ R, m = .ok R ∧ R.WF ∧ R.sem = v) : TSpec m (some v) := by
  obtain ⟨R, h1, h2, h3⟩ := h
  exact Or.inl ⟨R, h1, h2, by rw [h3]⟩

/-- a unary operator that returns on every well-formed operand. -/
theorem TSpec.bind1 {m : Except Err (TFM o ι K)} {s : Option (Matrix o ι (RatFunc K))}
    (h : TSpec m s) {f : TFM o ι K → Except Err (TFM o₂ ι₂ K)}
    {g : Matrix o ι (RatFunc K) → Matrix o₂ ι₂ (RatFunc K)}
    (hf : ∀ x, x.WF → ∃ R, f x = .ok R ∧ R.WF ∧ R.sem = g x.sem) :
    TSpec (m >>= f) (s.map g) := by
  rcases h with ⟨G, hm, hG, hs⟩ | ⟨hm, hs⟩
  · subst hm hs
    exact TSpec.of_total (hf G hG)
  · subst hm hs
    exact Or.inr ⟨rfl, rfl⟩

/-- a binary operator that returns on every pair of well-formed operands. -/
theorem TSpec.bind2 {ma : Except Err (TFM o ι K)} {sa : Option (Matrix o ι (RatFunc K))}
    {mb : Except Err (TFM o₂ ι₂ K)} {sb : Option (Matrix o₂ ι₂ (RatFunc K))}
    (ha : TSpec ma sa) (hb : TSpec mb sb)
    {f : TFM o ι K → TFM o₂ ι₂ K → Except Err (TFM o₃ ι₃ K)}
    {g : Matrix o ι (RatFunc K) → Matrix o₂ ι₂ (RatFunc K) → Matrix o₃ ι₃ (RatFunc K)}
    (hf : ∀ x y, x.WF → y.WF → ∃ R, f x y = .ok R ∧ R.WF ∧ R.sem = g x.sem y.sem) :
    TSpec (ma >>= fun x => mb >>= fun y => f x y)
      (sa >>= fun x => sb >>= fun y => pure (g x y)) := by
  rcases ha with ⟨G, hm, hG, hs⟩ | ⟨hm, hs⟩
  · subst hm hs
    rcases hb with ⟨H, hm, hH, hs⟩ | ⟨hm, hs⟩
    · subst hm hs
      exact TSpec.of_total (hf G H hG hH)
    · subst hm hs
      exact Or.inr ⟨rfl, rfl⟩
  · subst hm hs
    exact Or.inr ⟨rfl, rfl⟩

/-- a binary operator that returns exactly when the condition `c` on the meanings of the
operands fails, and raises `zeroDen` otherwise (division, feedback). -/
theorem TSpec.bind2_cond {ma : Except Err (TFM o ι K)} {sa : Option (Matrix o ι (RatFunc K))}
    {mb : Except Err (TFM o₂ ι₂ K)} {sb : Option (Matrix o₂ ι₂ (RatFunc K))}
    (ha : TSpec ma sa) (hb : TSpec mb sb)
    {f : TFM o ι K → TFM o₂ ι₂ K → Except Err (TFM o₃ ι₃ K)}
    {c : Matrix o ι (RatFunc K) → Matrix o₂ ι₂ (RatFunc K) → Prop}
    {g : Matrix o ι (RatFunc K) → Matrix o₂ ι₂ (RatFunc K) → Matrix o₃ ι₃ (RatFunc K)}
    (hok : ∀ x y, x.WF → y.WF → ¬ c x.sem y.sem → ∃ R, f x y = .ok R ∧ R.WF ∧ R.sem = g x.sem y.sem)
    (herr : ∀ x y, x.WF → y.WF → c x.sem y.sem → f x y = .error .zeroDen) :
    TSpec (ma >>= fun x => mb >>= fun y => f x y)
      (sa >>= fun x => sb >>= fun y =>
        @ite _ (c x y) (Classical.dec _) none (some (g x y))) := by
  rcases ha with ⟨G, hm, hG, hs⟩ | ⟨hm, hs⟩
  · subst hm hs
    rcases hb with ⟨H, hm, hH, hs⟩ | ⟨hm, hs⟩
    · subst hm hs
      by_cases hc : c G.sem H.sem
      · refine Or.inr ⟨herr G H hG hH hc, ?_⟩
        show @ite _ (c G.sem H.sem) (Classical.dec _) none (some (g G.sem H.sem)) = none
        rw [if_pos hc]
      · obtain ⟨R, h1, h2, h3⟩ := hok G H hG hH hc
        refine Or.inl ⟨R, h1, h2, ?_⟩
        show @ite _ (c G.sem H.sem) (Classical.dec _) none (some (g G.sem H.sem)) = some R.sem
        rw [if_neg hc, h3]
    · subst hm hs
      exact Or.inr ⟨rfl, rfl⟩
  · subst hm hs
    exact Or.inr ⟨rfl, rfl⟩

end combinators

end CtrlVerif
