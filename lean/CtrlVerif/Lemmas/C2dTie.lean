/-
Shared definitions and helper lemmas of the source-text tie of the discretisation code (C14):
the method strings as the model's enumeration, the primitives of `Model/PyC2d.lean` against the
model's own definitions, the meaning the model gives to `cont2discrete`, the model of
`StateSpace.sample` as a whole (`sampleModel`), and the name / label steps.  Nothing here depends on
a generated file (so an edit of /repo rebuilds only `Generated/C2d*.lean` and `Props/C14Gen*.lean`).
-/
import CtrlVerif.Model.PyC2d
import CtrlVerif.Props.C14
import CtrlVerif.Lemmas.PyMat

namespace CtrlVerif.C14GenSample

open CtrlVerif Matrix

/-- the method string as the model's enumeration (the same table as `Driver/Disc.lean: pMethod`). -/
def methodOf : String → C2dMethod
  | "zoh" => .zoh
  | "gbt" => .gbt
  | "bilinear" => .bilinear
  | "tustin" => .tustin
  | "euler" => .euler
  | "forward_diff" => .forwardDiff
  | "backward_diff" => .backwardDiff
  | "foh" => .foh
  | "impulse" => .impulse
  | "matched" => .matched
  | _ => .unknown

theorem methodOf_bilinear (s : String) : methodOf s = .bilinear ↔ s = "bilinear" := by
  unfold methodOf
  split <;> simp_all

theorem methodOf_tustin (s : String) : methodOf s = .tustin ↔ s = "tustin" := by
  unfold methodOf
  split <;> simp_all

theorem methodOf_gbt (s : String) : methodOf s = .gbt ↔ s = "gbt" := by
  unfold methodOf
  split <;> simp_all

/-! ### the primitives of `Model/PyC2d.lean` against the model's own definitions -/

theorem periodNum_eq (P : Period) : PyC2d.periodNum P = P.val := by cases P <;> rfl

theorem periodDt_eq (P : Period) : PyC2d.periodDt P = P.dt := by cases P <;> rfl

theorem isctime_eq (d : Dt) : PyC2d.isctime d = d.isCt := by cases d <;> rfl

theorem genericLabels_eq (pfx : String) (n : Nat) : PyC2d.genericLabels pfx n = genericLabels pfx n := rfl

theorem override_eq (cur : List String) (o : Option (List String)) :
    PyC2d.override cur o = overrideLabels cur o := by cases o <;> rfl

theorem overrideLabels_none (cur : List String) : overrideLabels cur none = .ok cur := rfl

section ss

variable {K : Type} [Field K] [LinearOrder K] [IsStrictOrderedRing K]

/-- the labels of the continuous system fit its sizes (class invariant of `InputOutputSystem`). -/
def NamesFit (G : DSS K) (src : Names) : Prop :=
  src.inputs.length = G.m ∧ src.outputs.length = G.p ∧ src.states.length = G.n

/-- the four matrices of a system and the step, as `cont2discrete` returns them. -/
def tuple5 (R : DSS K) (h : K) : PMat K × PMat K × PMat K × PMat K × K :=
  (PySS.A R, PySS.B R, PySS.C R, PySS.D R, h)

/-- **the meaning the model gives to `cont2discrete((A, B, C, D), h, method, alpha)`** on the
matrices of `G`: `DSS.sampleCore` — the generalised bilinear formulas `SS.gbt` with
`(I - αhA)⁻¹`, α from the method (`gbtAlpha`), `LinAlgError` for a singular `I - αhA`; the
zero-order hold from the blocks of `expm` (`ext`); `ValueError` for an unknown method — returned as
the five-tuple `(Ad, Bd, Cd, Dd, h)`; for the method string at hand, every step and `alpha`. -/
def C2dSSMeaning (c2d : PyC2d.C2dSS K) (G : DSS K)
    (ext : Option (Matrix (Fin G.n ⊕ Fin G.m) (Fin G.n ⊕ Fin G.m) K)) (method : String) : Prop :=
  ∀ (h : K) (alpha : Option K),
    c2d (PySS.A G, PySS.B G, PySS.C G, PySS.D G) h method alpha =
      (match DSS.sampleCore G 0 h (methodOf method) alpha ext with
        | .error e => .error e
        | .ok R => .ok (tuple5 R h))

/-- the model's own `cont2discrete` (satisfiability of `C2dSSMeaning`). -/
def c2dOfModel (G : DSS K) (ext : Option (Matrix (Fin G.n ⊕ Fin G.m) (Fin G.n ⊕ Fin G.m) K)) :
    PyC2d.C2dSS K :=
  fun _ h method alpha =>
    match DSS.sampleCore G 0 h (methodOf method) alpha ext with
    | .error e => .error e
    | .ok R => .ok (tuple5 R h)

theorem c2dOfModel_meaning (G : DSS K) (ext) (method : String) :
    C2dSSMeaning (c2dOfModel G ext) G ext method :=
  fun _ _ => rfl

/-- the prewarp argument of the model from the Python argument: the frequency and the value of
`numpy.tan` at `ω Ts / 2`. -/
def prewarpOf (tan : K → K) (P : Period) (pwf : Option K) : Option (Prewarp K) :=
  pwf.map fun w => ⟨w, tan (w * ((P.val : ℚ) : K) / 2)⟩

/-- the model of `StateSpace.sample` as a whole: numbers and timebase by `DSS.sampleP`, then names
and labels by `sampleNames`. -/
def sampleModel (tan : K → K) (G : DSS K) (src : Names) (P : Period) (method : String)
    (alpha pwf : Option K) (name : Option String) (copy : Bool) (kw : PyC2d.LabelKw)
    (ext : Option (Matrix (Fin G.n ⊕ Fin G.m) (Fin G.n ⊕ Fin G.m) K)) : Except Err (PyC2d.NamedSS K) :=
  match G.sampleP P (methodOf method) alpha (prewarpOf tan P pwf) ext with
  | .error e => .error e
  | .ok R =>
    match sampleNames src copy name kw.inputs kw.outputs kw.states with
    | .error e => .error e
    | .ok N => .ok ⟨R, N⟩

/-- the prewarp test of the source text is the model's `prewarpApplies`. -/
theorem prewarp_test_iff (method : String) (alpha : Option K) :
    (method = "bilinear" ∨ method = "tustin" ∨ (method = "gbt" ∧ alpha = some ((1 : K) / (2 : K)))) ↔
      prewarpApplies (methodOf method) alpha = true := by
  simp only [← or_assoc, prewarpApplies, Bool.or_eq_true, Bool.and_eq_true, decide_eq_true_eq, methodOf_bilinear,
    methodOf_tustin, methodOf_gbt]

/-- `sampleCore` uses its period argument only as the stored timebase. -/
theorem sampleCore_period (G : DSS K) (Ts : ℚ) (h : K) (m : C2dMethod) (alpha : Option K) (ext) :
    DSS.sampleCore G Ts h m alpha ext =
      (match DSS.sampleCore G 0 h m alpha ext with
        | .error e => .error e
        | .ok R => .ok ⟨R.n, R.p, R.m, R.sys, .disc Ts⟩) := by
  unfold DSS.sampleCore
  cases m <;> simp only [DSS.gbtCore, DSS.zohCore]
  case zoh =>
    split
    · rfl
    · cases ext <;> rfl
  all_goals first
    | rfl
    | (split
       · rfl
       · split <;> rfl)

/-- the shape check of the constructor succeeds on the matrices `cont2discrete` returns, and the
sizes are those of the continuous system. -/
theorem mkSS_tuple (R : DSS K) (d : Dt) :
    PyC2d.mkSS (PySS.A R) (PySS.B R) (PySS.C R) (PySS.D R) d =
      .ok ⟨⟨R.n, R.p, R.m, R.sys, d⟩,
        ⟨none, genericLabels "u" R.m, genericLabels "y" R.p, genericLabels "x" R.n⟩⟩ := by
  obtain ⟨n, p, m, ⟨A, B, C, D⟩, dt⟩ := R
  simp only [PyC2d.mkSS, PySS.A, PySS.B, PySS.C, PySS.D, PySS.mk_mk]
  rfl

/-- the name / label statements of the source text (`_copy_names`, `sysd.name = name`, the copy
constructor with the label keywords) on a freshly constructed system are `sampleNames`. -/
theorem names_steps (G R : DSS K) (src : Names) (hN : NamesFit G src)
    (hn : R.n = G.n) (hp : R.p = G.p) (hm : R.m = G.m)
    (name : Option String) (copy : Bool) (kw : PyC2d.LabelKw) :
    (do
      let sysd ← (do
        if (copy = true) then
          let sysd : PyC2d.NamedSS K := (PyC2d.copyNamesSS
            ⟨R, ⟨none, genericLabels "u" R.m, genericLabels "y" R.p, genericLabels "x" R.n⟩⟩ ⟨G, src⟩)
          pure sysd
        else
          pure ⟨R, ⟨none, genericLabels "u" R.m, genericLabels "y" R.p, genericLabels "x" R.n⟩⟩
        : Except Err (PyC2d.NamedSS K))
      let sysd ← (do
        match name with
        | some name =>
          let sysd : PyC2d.NamedSS K := (PyC2d.setNameSS sysd name)
          pure sysd
        | none =>
          pure sysd
        : Except Err (PyC2d.NamedSS K))
      PyC2d.copySS sysd kw) =
    (match sampleNames src copy name kw.inputs kw.outputs kw.states with
      | .error e => .error e
      | .ok N => .ok ⟨R, N⟩) := by
  obtain ⟨h1, h2, h3⟩ := hN
  have hst : (if R.n ≠ 0 ∧ G.n ≠ 0 then src.states else genericLabels "x" R.n) = src.states := by
    split
    · rfl
    · rename_i h
      have : G.n = 0 := by
        by_contra h0
        exact h ⟨by omega, h0⟩
      have hl : src.states = [] := List.eq_nil_of_length_eq_zero (by omega)
      rw [hl, hn, this]; rfl
  have hst' : (if G.n ≠ 0 ∧ G.n ≠ 0 then src.states else genericLabels "x" G.n) = src.states := by
    rw [← hn]; rw [hn] at hst ⊢; exact hst
  obtain ⟨ki, ko, ks⟩ := kw
  cases copy <;> cases name <;>
    simp only [PyC2d.copyNamesSS, PyC2d.setNameSS, PyC2d.copySS, PyC2d.sampledName, sampleNames,
      override_eq, hst, hst', h1, h2, h3, hn, hp, hm, Bool.false_eq_true, if_false, if_true, bind, Except.bind,
      pure, Except.pure] <;>
    (cases overrideLabels _ ki <;> cases overrideLabels _ ko <;> cases overrideLabels _ ks <;> rfl)

end ss

/-! ### transfer-function path -/

section tf

variable {K : Type} [Field K] [LinearOrder K] [IsStrictOrderedRing K]

theorem methodOf_matched (s : String) : methodOf s = .matched ↔ s = "matched" := by
  unfold methodOf
  split <;> simp_all

/-- the methods for which the model gives `cont2discrete((num, den), …)` a meaning: the generalised
bilinear family, and the strings SciPy rejects. -/
def GbtFamily (m : C2dMethod) : Prop :=
  m = .gbt ∨ m = .bilinear ∨ m = .tustin ∨ m = .euler ∨ m = .forwardDiff ∨ m = .backwardDiff ∨ m = .unknown

/-- the labels of a transfer-function object: one input, one output, no states. -/
def NamesFitTF (src : Names) : Prop :=
  src.inputs.length = 1 ∧ src.outputs.length = 1 ∧ src.states = []

/-- **the meaning the model gives to `cont2discrete((num, den), h, method, alpha)`** for the
generalised bilinear family: `tfGbtCore` — the substitution `s = (z-1)/(h(αz+1-α))` on the
coefficient lists, monic denominator (the exact counterpart of SciPy's `tf2ss → gbt → ss2tf`) —
returned as (2-D numerator with one row, denominator, step). -/
def C2dTFMeaning (c2d : PyC2d.C2dTF K) (num den : List K) : Prop :=
  ∀ (h : K) (method : String) (alpha : Option K), GbtFamily (methodOf method) →
    c2d (num, den) h method alpha =
      (match tfGbtCore num den 0 h (methodOf method) alpha with
        | .error e => .error e
        | .ok r => .ok ([r.1], r.2.1, h))

/-- the model's own `cont2discrete` on transfer functions (satisfiability of `C2dTFMeaning`). -/
def c2dTFOfModel : PyC2d.C2dTF K :=
  fun nd h method alpha =>
    match tfGbtCore nd.1 nd.2 0 h (methodOf method) alpha with
    | .error e => .error e
    | .ok r => .ok ([r.1], r.2.1, h)

theorem c2dTFOfModel_meaning (num den : List K) : C2dTFMeaning (c2dTFOfModel (K := K)) num den :=
  fun _ _ _ _ => rfl

/-- the model of `TransferFunction.sample` as a whole (generalised bilinear family): coefficients
and timebase by `tfSampleP`, names and labels by `sampleNames`; the result is a SISO system. -/
def tfSampleModel (tan : K → K) (S : PyC2d.NamedTF K) (P : Period) (method : String)
    (alpha pwf : Option K) (name : Option String) (copy : Bool) (kw : PyC2d.LabelKw) :
    Except Err (PyC2d.NamedTF K) :=
  match tfSampleP S.num00 S.den00 S.dt P (methodOf method) alpha (prewarpOf tan P pwf) with
  | .error e => .error e
  | .ok r =>
    match sampleNames S.names copy name kw.inputs kw.outputs kw.states with
    | .error e => .error e
    | .ok N => .ok ⟨1, 1, r.1, r.2.1, r.2.2, N⟩

/-- `tfGbtCore` uses its period argument only as the stored timebase. -/
theorem tfGbtCore_period (num den : List K) (Ts : ℚ) (h : K) (m : C2dMethod) (alpha : Option K) :
    tfGbtCore num den Ts h m alpha =
      (match tfGbtCore num den 0 h m alpha with
        | .error e => .error e
        | .ok r => .ok (r.1, r.2.1, .disc Ts)) := by
  unfold tfGbtCore
  cases gbtAlpha m alpha with
  | error e => rfl
  | ok a =>
    simp only []
    cases tfGbt a h num den <;> rfl

/-- on the generalised bilinear family (and unknown strings) `tfSample` is: the two checks, the
step, `tfGbtCore`. -/
theorem tfSample_family (num den : List K) (dt : Dt) (Ts : ℚ) (m : C2dMethod) (alpha : Option K)
    (pw : Option (Prewarp K)) (hm : GbtFamily m) :
    tfSample num den dt Ts m alpha pw =
      (if ¬ dt.isCt then .error .timebase
       else if ¬ 0 < Ts then .error .badArg
       else match twarp m alpha Ts pw with
         | .error e => .error e
         | .ok h => tfGbtCore num den Ts h m alpha) := by
  unfold tfSample
  rcases hm with h | h | h | h | h | h | h <;> subst h <;> first | rfl | simp [tfGbtCore, gbtAlpha]

/-- the name / label statements of `TransferFunction.sample` after the constructor are `sampleNames`. -/
theorem names_steps_tf (src : Names) (hN : NamesFitTF src) (nd dd : List K) (d : Dt) (S : PyC2d.NamedTF K)
    (hS : S.names = src) (name : Option String) (copy : Bool) (kw : PyC2d.LabelKw) :
    (do
      let sysd ← PyC2d.mkTF nd dd d PyC2d.LabelKw.empty
      let sysd ← (do
        if (copy = true) then
          let sysd : PyC2d.NamedTF K := (PyC2d.copyNamesTF sysd S)
          let sysd ← (do
            match name with
            | some name =>
              let sysd : PyC2d.NamedTF K := (PyC2d.setNameTF sysd name)
              pure sysd
            | none =>
              pure sysd
            : Except Err (PyC2d.NamedTF K))
          pure sysd
        else
          pure sysd
        : Except Err (PyC2d.NamedTF K))
      PyC2d.copyTF sysd name kw) =
    (match sampleNames src copy name kw.inputs kw.outputs kw.states with
      | .error e => .error e
      | .ok N => .ok ⟨1, 1, nd, dd, d, N⟩) := by
  obtain ⟨h1, h2, h3⟩ := hN
  obtain ⟨ki, ko, ks⟩ := kw
  subst hS
  have g0 : genericLabels "x" 0 = [] := rfl
  cases copy <;> cases name <;>
    simp only [PyC2d.mkTF, PyC2d.LabelKw.empty, overrideLabels_none, g0, PyC2d.copyNamesTF, PyC2d.setNameTF,
      PyC2d.copyTF, PyC2d.sampledName, sampleNames, override_eq, genericLabels_eq, h1, h2, h3,
      Bool.false_eq_true, if_false, if_true, bind, Except.bind, pure, Except.pure, List.length_nil] <;>
    (cases overrideLabels _ ki <;> cases overrideLabels _ ko <;> cases overrideLabels _ ks <;> rfl)

/-- the name / label statements of the `matched` branch of `TransferFunction.sample`. -/
theorem names_steps_matched (src : Names) (hN : NamesFitTF src) (nd dd : List K) (d : Dt)
    (S : PyC2d.NamedTF K) (hS : S.names = src) (name : Option String) (copy : Bool) (kw : PyC2d.LabelKw) :
    (do
      let sysd ← PyC2d.mkTF nd dd d PyC2d.LabelKw.empty
      let sysd ← (do
        if (copy = true) then
          let sysd : PyC2d.NamedTF K := (PyC2d.copyNamesTF sysd S)
          pure sysd
        else
          pure sysd
        : Except Err (PyC2d.NamedTF K))
      PyC2d.copyTF sysd name kw) =
    (match sampleNames src copy name kw.inputs kw.outputs kw.states with
      | .error e => .error e
      | .ok N => .ok ⟨1, 1, nd, dd, d, N⟩) := by
  obtain ⟨h1, h2, h3⟩ := hN
  obtain ⟨ki, ko, ks⟩ := kw
  subst hS
  have g0 : genericLabels "x" 0 = [] := rfl
  cases copy <;> cases name <;>
    simp only [PyC2d.mkTF, PyC2d.LabelKw.empty, overrideLabels_none, g0, PyC2d.copyNamesTF,
      PyC2d.copyTF, PyC2d.sampledName, sampleNames, override_eq, genericLabels_eq, h1, h2, h3,
      Bool.false_eq_true, if_false, if_true, bind, Except.bind, pure, Except.pure, List.length_nil] <;>
    (cases overrideLabels _ ki <;> cases overrideLabels _ ko <;> cases overrideLabels _ ks <;> rfl)

end tf

/-! ### helper lemmas for `_c2d_matched` and for the `Except` plumbing -/

section matchedlemmas

variable {K : Type} [Field K] [DecidableEq K]

/-- `np.multiply.reduce` is the product. -/
theorem prod_eq (xs : List K) : PyC2d.prod xs = xs.prod := by
  unfold PyC2d.prod
  rw [List.prod_eq_foldl]

theorem poly_eq (rs : List K) : PyC2d.poly rs = polyOfRoots rs := rfl

/-- the two-list loops of `_c2d_matched`: a fold over `enumerate(xs)` that stores `g x` / `f x` at
the position of `x` into two lists of the length of `xs` computes `(xs.map g, xs.map f)`. -/
theorem enum_loop (f g : K → K)
    (step : List K × List K → Int × K → Except Err (List K × List K))
    (hstep : ∀ (a b : List K) (i : Nat) (s : K), i < a.length → i < b.length →
      step (a, b) ((i : Int), s) = .ok (a.set i (g s), b.set i (f s)))
    (xs : List K) :
    List.foldlM step (List.replicate xs.length 0, List.replicate xs.length 0) (PyC2d.enumerate xs)
      = .ok (xs.map g, xs.map f) := by
  have key : ∀ (ys pa pb : List K), pa.length = pb.length →
      List.foldlM step (pa ++ List.replicate ys.length 0, pb ++ List.replicate ys.length 0)
        (PyC2d.enumerateFrom (pa.length : Int) ys) = .ok (pa ++ ys.map g, pb ++ ys.map f) := by
    intro ys
    induction ys with
    | nil => intro pa pb _; simp [PyC2d.enumerateFrom, pure, Except.pure]
    | cons y ys ih =>
      intro pa pb hl
      simp only [PyC2d.enumerateFrom, List.foldlM_cons, List.length_cons, List.replicate_succ]
      rw [hstep _ _ pa.length y (by simp) (by simp [hl])]
      simp only [bind, Except.bind]
      have e1 : (pa ++ 0 :: List.replicate ys.length 0).set pa.length (g y)
          = (pa ++ [g y]) ++ List.replicate ys.length 0 := by
        rw [List.set_append_right _ _ (le_refl _)]; simp
      have e2 : (pb ++ 0 :: List.replicate ys.length 0).set pa.length (f y)
          = (pb ++ [f y]) ++ List.replicate ys.length 0 := by
        rw [hl, List.set_append_right _ _ (le_refl _)]; simp
      rw [e1, e2]
      have := ih (pa ++ [g y]) (pb ++ [f y]) (by simp [hl])
      simp only [List.length_append, List.length_singleton, Nat.cast_add, Nat.cast_one] at this
      rw [this]
      simp
  simpa [PyC2d.enumerate] using key xs [] [] rfl

/-- the error tag: where the model reports a degenerate gain (`illPosed`) the code's NumPy division
yields `inf` / `nan` — `zeroDen` in the exact value model (known finding `C14-matched-origin-nan`). -/
def matchedErr : Err → Err
  | .illPosed => .zeroDen
  | e => e

/-- a SISO transfer-function object. -/
def IsSiso (S : PyC2d.NamedTF K) : Prop := S.noutputs = 1 ∧ S.ninputs = 1

theorem bind_ok {α β : Type} {x : Except Err α} {f : α → Except Err β} {b : β}
    (h : (x >>= f) = .ok b) : ∃ a, x = .ok a ∧ f a = .ok b := by
  cases x with
  | error e => exact absurd h (by simp [bind, Except.bind])
  | ok a => exact ⟨a, rfl, h⟩

theorem mkTF_dt {num den : List K} {d : Dt} {kw : PyC2d.LabelKw} {R : PyC2d.NamedTF K}
    (h : PyC2d.mkTF num den d kw = .ok R) : R.dt = d ∧ R.num00 = num ∧ R.den00 = den := by
  unfold PyC2d.mkTF at h
  obtain ⟨_, _, h⟩ := bind_ok h
  obtain ⟨_, _, h⟩ := bind_ok h
  obtain ⟨_, _, h⟩ := bind_ok h
  simp only [pure, Except.pure, Except.ok.injEq] at h
  subst h
  exact ⟨rfl, rfl, rfl⟩

theorem copyTF_dt {s : PyC2d.NamedTF K} {name : Option String} {kw : PyC2d.LabelKw} {R : PyC2d.NamedTF K}
    (h : PyC2d.copyTF s name kw = .ok R) : R.dt = s.dt ∧ R.num00 = s.num00 ∧ R.den00 = s.den00 := by
  unfold PyC2d.copyTF at h
  obtain ⟨_, _, h⟩ := bind_ok h
  obtain ⟨_, _, h⟩ := bind_ok h
  obtain ⟨_, _, h⟩ := bind_ok h
  simp only [pure, Except.pure, Except.ok.injEq] at h
  subst h
  exact ⟨rfl, rfl, rfl⟩

end matchedlemmas

/-! ### helper lemmas and definitions for SciPy's `cont2discrete` -/

section scipylemmas

variable {K : Type} [Field K] [LinearOrder K] [IsStrictOrderedRing K]

/-- the inverse of the transpose is the transpose of the inverse (`det⁻¹ • adjugate`). -/
theorem inverse_transpose {n : Nat} (F : Matrix (Fin n) (Fin n) K) :
    PMat.inverse Fᵀ = (PMat.inverse F)ᵀ := by
  simp [PMat.inverse, Matrix.det_transpose, Matrix.adjugate_transpose, Matrix.transpose_smul]

/-- `bilinear` / `tustin`, `euler` / `forward_diff`, `backward_diff` are `gbt` with `α = ½, 0, 1`
(SciPy: a recursive call; model: `gbtAlpha`). -/
theorem gbtCore_family (G : DSS K) (Ts : ℚ) (h : K) (alpha : Option K) :
    DSS.gbtCore G Ts h .bilinear alpha = DSS.gbtCore G Ts h .gbt (some (1 / 2)) ∧
    DSS.gbtCore G Ts h .tustin alpha = DSS.gbtCore G Ts h .gbt (some (1 / 2)) ∧
    DSS.gbtCore G Ts h .euler alpha = DSS.gbtCore G Ts h .gbt (some 0) ∧
    DSS.gbtCore G Ts h .forwardDiff alpha = DSS.gbtCore G Ts h .gbt (some 0) ∧
    DSS.gbtCore G Ts h .backwardDiff alpha = DSS.gbtCore G Ts h .gbt (some 1) := by
  have h1 : ¬ ((1 / 2 : K) < 0 ∨ (1 : K) < 1 / 2) := by
    rw [not_or]; constructor <;> norm_num
  have h0 : ¬ ((0 : K) < 0 ∨ (1 : K) < 0) := by
    rw [not_or]; constructor <;> norm_num
  have h2 : ¬ ((1 : K) < 0 ∨ (1 : K) < 1) := by
    rw [not_or]; constructor <;> norm_num
  refine ⟨?_, ?_, ?_, ?_, ?_⟩ <;> simp only [DSS.gbtCore, gbtAlpha, h1, h0, h2, if_false]

/-- a matrix over `Fin n ⊕ Fin m` as the untyped `(n+m) × (n+m)` array. -/
def flat {n m : Nat} (E : Matrix (Fin n ⊕ Fin m) (Fin n ⊕ Fin m) K) : PMat K :=
  ⟨n + m, n + m, E.submatrix finSumFinEquiv.symm finSumFinEquiv.symm⟩

/-- the argument SciPy hands to `linalg.expm` in the zero-order-hold branch: `h [[A, B], [0, 0]]`. -/
def zohArg (G : DSS K) (h : K) : PMat K :=
  PMat.smul h (flat (fromBlocks G.sys.A G.sys.B 0 0))

/-- the external `expm` agrees with the model's zero-order hold of `G` at step `h`: it returns some
`E` on `h [[A, B], [0, 0]]` and the model's `zohCore` is the hold built from the upper blocks of
that `E` (true for a non-nilpotent `A` when `E` is the supplied `ext`, `expmAgrees_of_ext`; for a
nilpotent `A` when `E` has the exact series blocks, `expmAgrees_of_nilpotent`). -/
def ExpmAgrees (expm : PMat K → Except Err (PMat K)) (G : DSS K) (h : K)
    (ext : Option (Matrix (Fin G.n ⊕ Fin G.m) (Fin G.n ⊕ Fin G.m) K)) : Prop :=
  ∃ E : Matrix (Fin G.n ⊕ Fin G.m) (Fin G.n ⊕ Fin G.m) K,
    expm (zohArg G h) = .ok (flat E) ∧
    DSS.zohCore G 0 h ext = .ok ⟨G.n, G.p, G.m, G.sys.zoh E, .disc 0⟩

theorem expmAgrees_of_ext (expm : PMat K → Except Err (PMat K)) (G : DSS K) (h : K)
    (E : Matrix (Fin G.n ⊕ Fin G.m) (Fin G.n ⊕ Fin G.m) K) (hA : G.sys.A ^ G.n ≠ 0)
    (hE : expm (zohArg G h) = .ok (flat E)) : ExpmAgrees expm G h (some E) :=
  ⟨E, hE, (C14.zohCore_eq G 0 h E).2 hA⟩

theorem expmAgrees_of_nilpotent (expm : PMat K → Except Err (PMat K)) (G : DSS K) (h : K) (ext)
    (hA : G.sys.A ^ G.n = 0)
    (hE : expm (zohArg G h) =
      .ok (flat (fromBlocks (SS.zohAd h G.sys.A G.n) (SS.zohBd h G.sys.A G.sys.B G.n) 0 1))) :
    ExpmAgrees expm G h ext :=
  ⟨_, hE, by rw [(C14.zohCore_eq G 0 h 0).1 hA ext]; simp [SS.zoh]⟩

theorem sliceCols_prefix0 (r a b : Nat) (M : Matrix (Fin r) (Fin (a + b)) K) :
    PMat.sliceCols ⟨r, a + b, M⟩ (some (0 : Int)) (some (a : Int)) = ⟨r, a, M.submatrix id (Fin.castAdd b)⟩ := by
  refine PMat.ext' rfl (by simp [PMat.sliceCols, PMat.sliceBound]) ?_
  ext i j
  simp [PMat.sliceCols, PMat.retype, PMat.sliceBound]
  rfl

end scipylemmas

end CtrlVerif.C14GenSample
