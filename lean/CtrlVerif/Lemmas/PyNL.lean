/-
Helper lemmas about the primitives of `Model/PyNL.lean` / `Model/PyArith.lean` used by the equality
theorems `Props/C08Gen*.lean` (source-text tie of control/nlsys.py).  Free to change.
-/
import CtrlVerif.Model.PyNL
import CtrlVerif.Model.IOSysDyn

namespace CtrlVerif.PyNL

open CtrlVerif

theorem getItem_natCast {α : Type} (xs : List α) (j : Nat) :
    PyArith.getItem xs (j : Int) =
      match xs[j]? with | some v => .ok v | none => .error .indexRange := by
  unfold PyArith.getItem PyArith.normIdx
  by_cases h : j < xs.length
  · have h' : (0 : Int) ≤ (j : Int) ∧ (j : Int) < (xs.length : Int) := ⟨by omega, by omega⟩
    rw [if_pos h']
    simp [List.getElem?_eq_getElem h]
  · have h' : ¬ ((0 : Int) ≤ (j : Int) ∧ (j : Int) < (xs.length : Int)) := by omega
    have h'' : ¬ ((j : Int) < 0 ∧ -(xs.length : Int) ≤ (j : Int)) := by omega
    have : xs[j]? = none := by simp; omega
    rw [if_neg h', if_neg h'', this]

theorem getItem_lt {α : Type} (xs : List α) (j : Nat) (h : j < xs.length) :
    PyArith.getItem xs (j : Int) = .ok xs[j] := by
  rw [getItem_natCast]; simp [h]

theorem getItem_neg_one {α : Type} (xs : List α) (h : 0 < xs.length) :
    PyArith.getItem xs (-1 : Int) = .ok (xs[xs.length - 1]'(by omega)) := by
  unfold PyArith.getItem PyArith.normIdx
  have h1 : ¬ ((0 : Int) ≤ -1 ∧ (-1 : Int) < (xs.length : Int)) := by omega
  have h2 : ((-1 : Int) < 0 ∧ -(xs.length : Int) ≤ (-1 : Int)) := by omega
  have h3 : ((-1 : Int) + (xs.length : Int)).toNat = xs.length - 1 := by omega
  simp only [h1, h2, if_false, if_true, and_self, h3]
  have : xs.length - 1 < xs.length := by omega
  simp [this]

theorem getItem_append_singleton_neg_one {α : Type} (xs : List α) (v : α) :
    PyArith.getItem (xs ++ [v]) (-1 : Int) = .ok v := by
  rw [getItem_neg_one _ (by simp)]
  simp

section field
variable {K : Type} [Field K]

theorem vadd_vscale_ofFn {m : Nat} (u0 u1 : Fin m → K) (a b : K) :
    vadd (vscale (List.ofFn u0) a) (vscale (List.ofFn u1) b)
      = .ok (List.ofFn fun i => u0 i * a + u1 i * b) := by
  unfold vadd vscale
  simp only [List.length_map, List.length_ofFn, if_true]
  congr 1
  apply List.ext_getElem
  · simp
  · intro i h1 h2
    simp

theorem vsub_ofFn {m : Nat} (a b : Fin m → K) :
    vsub (List.ofFn a) (List.ofFn b) = .ok (List.ofFn fun i => a i - b i) := by
  unfold vsub
  simp only [List.length_ofFn, if_true]
  congr 1
  apply List.ext_getElem
  · simp
  · intro i h1 h2
    simp

theorem vadd_ofFn {m : Nat} (a b : Fin m → K) :
    vadd (List.ofFn a) (List.ofFn b) = .ok (List.ofFn fun i => a i + b i) := by
  unfold vadd
  simp only [List.length_ofFn, if_true]
  congr 1
  apply List.ext_getElem
  · simp
  · intro i h1 h2
    simp

theorem vdiv_ofFn [DecidableEq K] {m : Nat} (a : Fin m → K) (c : K) (hc : c ≠ 0) :
    vdiv (List.ofFn a) c = .ok (List.ofFn fun i => a i / c) := by
  unfold vdiv
  simp [hc, List.map_ofFn, Function.comp_def]

end field

theorem transposeStack_ofFn {K : Type} {n : Nat} (l : List (Fin n → K)) :
    transposeStack (l.map List.ofFn) = .ok (l.map List.ofFn) := by
  unfold transposeStack
  cases l with
  | nil => rfl
  | cons v vs => simp

/-! ### typed maps as functions on lists -/

section listFun
variable {K : Type}

/-- a typed update / output map as the function on 1-D arrays that the generated code calls: an
argument of the wrong length is a shape error. -/
def listFun {n m p : Nat} (f : K → (Fin n → K) → (Fin m → K) → Except Err (Fin p → K)) :
    K → List K → List K → Except Err (List K) :=
  fun t x u =>
    if hx : x.length = n then
      if hu : u.length = m then
        (f t (fun i => x[i.val]'(hx ▸ i.isLt)) (fun i => u[i.val]'(hu ▸ i.isLt))).map List.ofFn
      else .error .shape
    else .error .shape

theorem listFun_ofFn {n m p : Nat} (f : K → (Fin n → K) → (Fin m → K) → Except Err (Fin p → K))
    (t : K) (x : Fin n → K) (u : Fin m → K) :
    listFun f t (List.ofFn x) (List.ofFn u) = (f t x u).map List.ofFn := by
  unfold listFun
  simp

/-- a loop over a list in the `Except` monad whose body satisfies a step specification against
`IOSys.simulate`: the collected lists grow by the trajectory. -/
theorem foldlM_simulate {n m p : Nat} (G : IOSys (Fin n) (Fin m) (Fin p) K)
    (uf : K → Except Err (Fin m → K))
    (body : List (List K) × List (List K) × List (List K) × List K → K →
      Except Err (List (List K) × List (List K) × List (List K) × List K))
    (hbody : ∀ (ys sy us : List (List K)) (x : Fin n → K) (t : K),
      body (ys, sy, us, List.ofFn x) t =
        match uf t with
        | .error e => .error e
        | .ok u =>
          match G.h t x u with
          | .error e => .error e
          | .ok y =>
            match G.f t x u with
            | .error e => .error e
            | .ok x' => .ok (ys ++ [List.ofFn y], sy ++ [List.ofFn x], us ++ [List.ofFn u], List.ofFn x')) :
    ∀ (ts : List K) (ys sy us : List (List K)) (x : Fin n → K),
      match IOSys.simulate G uf ts x with
      | .error e => List.foldlM body (ys, sy, us, List.ofFn x) ts = .error e
      | .ok tr => ∃ xf, List.foldlM body (ys, sy, us, List.ofFn x) ts =
          .ok (ys ++ (tr.map (·.2.2)).map List.ofFn, sy ++ (tr.map (·.1)).map List.ofFn,
               us ++ (tr.map (·.2.1)).map List.ofFn, xf) := by
  intro ts
  induction ts with
  | nil => intro ys sy us x; simp [IOSys.simulate, pure, Except.pure]
  | cons t ts ih =>
    intro ys sy us x
    simp only [List.foldlM_cons, hbody, IOSys.simulate]
    cases hu : uf t with
    | error e => simp [bind, Except.bind]
    | ok u =>
      dsimp only
      cases hy : G.h t x u with
      | error e => simp [bind, Except.bind]
      | ok y =>
        dsimp only
        cases hx : G.f t x u with
        | error e => simp [bind, Except.bind]
        | ok x' =>
          dsimp only
          have := ih (ys ++ [List.ofFn y]) (sy ++ [List.ofFn x]) (us ++ [List.ofFn u]) x'
          simp only [bind, Except.bind]
          cases hs : IOSys.simulate G uf ts x' with
          | error e => simpa [hs] using this
          | ok tr =>
            rw [hs] at this
            obtain ⟨xf, hxf⟩ := this
            exact ⟨xf, by simp [hxf]⟩

/-- the same with the continuation of the loop (which does not read the last state). -/
theorem foldlM_simulate_bind {n m p : Nat} {β : Type} (G : IOSys (Fin n) (Fin m) (Fin p) K)
    (uf : K → Except Err (Fin m → K))
    (body : List (List K) × List (List K) × List (List K) × List K → K →
      Except Err (List (List K) × List (List K) × List (List K) × List K))
    (hbody : ∀ (ys sy us : List (List K)) (x : Fin n → K) (t : K),
      body (ys, sy, us, List.ofFn x) t =
        match uf t with
        | .error e => .error e
        | .ok u =>
          match G.h t x u with
          | .error e => .error e
          | .ok y =>
            match G.f t x u with
            | .error e => .error e
            | .ok x' => .ok (ys ++ [List.ofFn y], sy ++ [List.ofFn x], us ++ [List.ofFn u], List.ofFn x'))
    (k : List (List K) × List (List K) × List (List K) × List K → Except Err β)
    (hk : ∀ a b c x x', k (a, b, c, x) = k (a, b, c, x'))
    (ts : List K) (ys sy us : List (List K)) (x : Fin n → K) :
    (List.foldlM body (ys, sy, us, List.ofFn x) ts >>= k) =
      (IOSys.simulate G uf ts x >>= fun tr =>
        k (ys ++ (tr.map (·.2.2)).map List.ofFn, sy ++ (tr.map (·.1)).map List.ofFn,
           us ++ (tr.map (·.2.1)).map List.ofFn, [])) := by
  have h := foldlM_simulate G uf body hbody ts ys sy us x
  cases hs : IOSys.simulate G uf ts x with
  | error e => rw [hs] at h; simp [h, bind, Except.bind]
  | ok tr =>
    rw [hs] at h
    obtain ⟨xf, hxf⟩ := h
    rw [hxf]
    simp only [bind, Except.bind]
    exact hk _ _ _ _ _

end listFun

/-! ### the spacing test of the discrete-time branch -/

/-- the three statements of the model (`response` in `Model/IOSysDyn.lean`) that check the evaluation
times of a discrete-time simulation, as a function of their own: the step `t_eval[1] - t_eval[0]`,
equal spacing, agreement with a numeric sampling time (the text of these statements in `response`,
copied; `response` itself is one long `do` block and is not re-proved to factor through this). -/
def gridCheck (sysdt : Dt) (te : List Q) : Except Err Q := do
  let dt ← match te with
    | a :: b :: _ => pure (b - a)
    | _ => .error .indexRange
  if !evenlySpaced te dt then .error .timebase
  match sysdt with
  | .disc h => if !close dt h then .error .timebase
  | _ => pure ()
  pure dt

theorem all_zipWith_swap {α β : Type} (f : α → α → β) (P : β → Bool) :
    ∀ (l1 l2 : List α), (List.zipWith f l1 l2).all P = (l2.zip l1).all (fun ab => P (f ab.2 ab.1)) := by
  intro l1
  induction l1 with
  | nil => intro l2; cases l2 <;> simp
  | cons a l1 ih =>
    intro l2
    cases l2 with
    | nil => simp
    | cons b l2 => simp [ih]

theorem zipWith_take_right {α β γ : Type} (f : α → β → γ) :
    ∀ (l1 : List α) (l2 : List β), List.zipWith f l1 (l2.take l1.length) = List.zipWith f l1 l2 := by
  intro l1
  induction l1 with
  | nil => intro l2; simp
  | cons a l1 ih =>
    intro l2
    cases l2 with
    | nil => simp
    | cons b l2 => simp [ih]

/-! ### broadcasting of mixed input lists -/

/-- the statements of the model (`processInputs` in `Model/IOSysDyn.lean`, the arm of a list whose
length is not the number of time points) that broadcast and stack the elements, as a function of
their own; `processInputs_broadcast` (Props/C08GenBroadcast.lean) shows that `processInputs` runs
exactly these statements followed by `checkU2`. -/
def broadcastModel (N : Nat) (es : List CtrlVerif.UElem) : Except Err (List (List Q)) := do
  let parts ← es.mapM fun e =>
    match e with
    | .scalar c => pure [List.replicate N c]
    | .vec v => if v.length ≠ N then pure (v.map (List.replicate N ·)) else pure [v]
    | .mat rows => if ∀ r ∈ rows, r.length = N then pure rows else .error .shape
  if es.isEmpty then .error .shape else pure parts.flatten

/-- the model's element forms. -/
def toUElem : PyNL.UElem Q → CtrlVerif.UElem
  | .scalar c => .scalar c
  | .vec v => .vec v
  | .mat M => .mat M.rows

/-- a 2-D element is a genuine array: at least one row, every row as long as the column count. -/
def UElem.WF : PyNL.UElem Q → Prop
  | .mat M => M.rows ≠ [] ∧ ∀ r ∈ M.rows, r.length = M.c
  | _ => True

/-- the element is accepted for `N` time points. -/
def okElem (N : Nat) : PyNL.UElem Q → Bool
  | .mat M => M.c == N
  | _ => true

/-- the block an accepted element contributes to `np.vstack`. -/
def blockOf (N : Nat) : PyNL.UElem Q → PyNL.RMat Q
  | .scalar c => outer [c] (vones (N : Int))
  | .vec v => if v.length ≠ N then outer v (vones (N : Int)) else RMat.ofVec v
  | .mat M => M

theorem blockOf_c (N : Nat) (e : PyNL.UElem Q) (h : okElem N e = true) : (blockOf N e).c = N := by
  cases e with
  | scalar c => simp [blockOf, outer, vones]
  | vec v =>
    by_cases hv : v.length = N
    · simp [blockOf, hv, RMat.ofVec]
    · simp [blockOf, hv, outer, vones]
  | mat M => simpa [okElem, blockOf] using h

theorem blockOf_rows_scalar (N : Nat) (c : Q) : (blockOf N (.scalar c)).rows = [List.replicate N c] := by
  simp [blockOf, outer, vones]

theorem blockOf_rows_vec (N : Nat) (v : List Q) :
    (blockOf N (.vec v)).rows = if v.length ≠ N then v.map (List.replicate N ·) else [v] := by
  by_cases hv : v.length = N
  · simp [blockOf, hv, RMat.ofVec]
  · simp [blockOf, hv, outer, vones]

/-- the model's per-element step, in closed form. -/
theorem mapM_model_part (N : Nat) : ∀ (es : List (PyNL.UElem Q)), (∀ e ∈ es, UElem.WF e) →
    (es.map toUElem).mapM (fun e =>
      match e with
      | CtrlVerif.UElem.scalar c => (pure [List.replicate N c] : Except Err (List (List Q)))
      | .vec v => if v.length ≠ N then pure (v.map (List.replicate N ·)) else pure [v]
      | .mat rows => if ∀ r ∈ rows, r.length = N then pure rows else .error .shape)
    = if es.all (okElem N) then .ok (es.map fun e => (blockOf N e).rows) else .error .shape := by
  intro es
  induction es with
  | nil => intro _; simp [pure, Except.pure]
  | cons e es ih =>
    intro hwf
    have ih' := ih (fun e he => hwf e (List.mem_cons_of_mem _ he))
    have hwe := hwf e (List.mem_cons_self)
    rw [List.map_cons, List.mapM_cons, ih']
    cases e with
    | scalar c =>
      simp only [toUElem, List.all_cons, okElem, Bool.true_and, List.map_cons, blockOf_rows_scalar]
      by_cases ha : es.all (okElem N) = true <;> simp [ha, bind, Except.bind, pure, Except.pure]
    | vec v =>
      simp only [toUElem, List.all_cons, okElem, Bool.true_and, List.map_cons, blockOf_rows_vec]
      by_cases hv : v.length = N <;>
        by_cases ha : es.all (okElem N) = true <;> simp [ha, hv, bind, Except.bind, pure, Except.pure]
    | mat M =>
      obtain ⟨hne, hlen⟩ := hwe
      have hiff : (∀ r ∈ M.rows, r.length = N) ↔ M.c = N := by
        constructor
        · intro h
          obtain ⟨r, hr⟩ := List.exists_mem_of_ne_nil _ hne
          rw [← hlen r hr, h r hr]
        · intro h r hr; rw [hlen r hr, h]
      simp only [toUElem, List.all_cons, okElem, List.map_cons, blockOf]
      by_cases hc : M.c = N
      · have h1 : ∀ r ∈ M.rows, r.length = N := hiff.mpr hc
        rw [if_pos h1]
        by_cases ha : es.all (okElem N) = true <;> simp [ha, hc, bind, Except.bind, pure, Except.pure]
      · have h1 : ¬ ∀ r ∈ M.rows, r.length = N := fun h => hc (hiff.mp h)
        rw [if_neg h1]
        simp [hc, bind, Except.bind]

/-- a loop that appends one block per accepted element. -/
theorem foldlM_blocks (N : Nat)
    (body : List (PyNL.RMat Q) → PyNL.UElem Q → Except Err (List (PyNL.RMat Q)))
    (hbody : ∀ acc e, body acc e = if okElem N e then .ok (acc ++ [blockOf N e]) else .error .shape) :
    ∀ (es : List (PyNL.UElem Q)) (init : List (PyNL.RMat Q)),
      List.foldlM body init es
        = if es.all (okElem N) then .ok (init ++ es.map (blockOf N)) else .error .shape := by
  intro es
  induction es with
  | nil => intro init; simp [pure, Except.pure]
  | cons e es ih =>
    intro init
    rw [List.foldlM_cons, hbody]
    by_cases he : okElem N e = true
    · simp only [he, if_true, bind, Except.bind, ih, List.all_cons, Bool.true_and]
      by_cases ha : es.all (okElem N) = true <;> simp [ha]
    · simp [he, bind, Except.bind]

theorem vstack_blocks (N : Nat) (bs : List (PyNL.RMat Q)) (hne : bs ≠ []) (hc : ∀ b ∈ bs, b.c = N) :
    vstack bs = .ok ⟨N, (bs.map (·.rows)).flatten⟩ := by
  cases bs with
  | nil => exact absurd rfl hne
  | cons b bs =>
    unfold vstack
    have hall : (b :: bs).all (fun x => x.c == b.c) = true := by
      rw [List.all_eq_true]
      intro x hx
      simp [hc x hx, hc b (List.mem_cons_self)]
    simp only [hall, if_true]
    rw [hc b (List.mem_cons_self)]

/-- a loop in the `Except` monad whose body appends one value per element. -/
theorem foldlM_pure_append {α β : Type} (g : α → β) (body : List β → α → Except Err (List β))
    (hbody : ∀ acc a, body acc a = .ok (acc ++ [g a])) :
    ∀ (l : List α) (init : List β), List.foldlM body init l = .ok (init ++ l.map g) := by
  intro l
  induction l with
  | nil => intro init; simp [pure, Except.pure]
  | cons a l ih =>
    intro init
    rw [List.foldlM_cons, hbody]
    simp only [bind, Except.bind]
    rw [ih]
    simp

end CtrlVerif.PyNL
