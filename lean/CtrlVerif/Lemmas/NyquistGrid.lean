/-
Helper lemmas for the default-grid model of C13 (`Model/NyquistGrid.lean`): `np.min` / `np.max` as folds.
-/
import CtrlVerif.Model.NyquistGrid
import CtrlVerif.Lemmas.Nyquist

namespace CtrlVerif.Nyquist

variable {K : Type} [Field K] [LinearOrder K] [IsStrictOrderedRing K] [FloorRing K]

omit [Field K] [IsStrictOrderedRing K] [FloorRing K] in
theorem minL_le_head (a : K) (t : List K) : minL a t ≤ a := by
  unfold minL
  induction t generalizing a with
  | nil => simp
  | cons b t ih => simpa using le_trans (ih (min a b)) (min_le_left a b)

omit [Field K] [IsStrictOrderedRing K] [FloorRing K] in
theorem minL_le (a : K) (t : List K) : ∀ x ∈ a :: t, minL a t ≤ x := by
  unfold minL
  induction t generalizing a with
  | nil => intro x hx; simp at hx; simp [hx]
  | cons b t ih =>
    intro x hx
    simp only [List.mem_cons] at hx
    simp only [List.foldl_cons]
    rcases hx with rfl | rfl | hx
    · exact le_trans (minL_le_head (min x b) t) (min_le_left x b)
    · exact le_trans (minL_le_head (min a x) t) (min_le_right a x)
    · exact ih (min a b) x (List.mem_cons_of_mem _ hx)

omit [Field K] [IsStrictOrderedRing K] [FloorRing K] in
theorem head_le_maxL (a : K) (t : List K) : a ≤ maxL a t := by
  unfold maxL
  induction t generalizing a with
  | nil => simp
  | cons b t ih => simpa using le_trans (le_max_left a b) (ih (max a b))

omit [Field K] [IsStrictOrderedRing K] [FloorRing K] in
theorem le_maxL (a : K) (t : List K) : ∀ x ∈ a :: t, x ≤ maxL a t := by
  unfold maxL
  induction t generalizing a with
  | nil => intro x hx; simp at hx; simp [hx]
  | cons b t ih =>
    intro x hx
    simp only [List.mem_cons] at hx
    simp only [List.foldl_cons]
    rcases hx with rfl | rfl | hx
    · exact le_trans (le_max_left x b) (head_le_maxL (max x b) t)
    · exact le_trans (le_max_right a x) (head_le_maxL (max a x) t)
    · exact ih (max a b) x (List.mem_cons_of_mem _ hx)

end CtrlVerif.Nyquist
