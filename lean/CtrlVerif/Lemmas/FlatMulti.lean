/-
Helper lemmas for the multi-output flat-system model (C20, `Model/FlatMulti.lean`):
index maps, the loop of `_basis_flag_matrix` (running offsets), block structure of the flag
matrix, the stacked boundary system.
-/
import CtrlVerif.Model.FlatMulti
import CtrlVerif.Lemmas.Flat
import CtrlVerif.Lemmas.C20Cert

namespace CtrlVerif

open Matrix

variable {K : Type} [Field K] [DecidableEq K]

/-! ### index maps -/

section idx

variable {m : Nat}

/-- **row offsets are the running sums of the flag lengths**: row `k` of flat output `i` has the
index `len 0 + … + len (i-1) + k`. -/
theorem rowIdx_val (len : Fin m → Nat) (i : Fin m) (k : Fin (len i)) :
    (rowIdx len i k).val = (∑ a : Fin i.val, len (Fin.castLE i.isLt.le a)) + k.val :=
  finSigmaFinEquiv_apply ⟨i, k⟩

/-- the column of coefficient `j` of flat output `i` is `i * N + j`. -/
theorem colIdx_val {N : Nat} (i : Fin m) (j : Fin N) : (colIdx i j).val = i.val * N + j.val := by
  simp [colIdx, finProdFinEquiv, Nat.mul_comm, Nat.add_comm]

theorem rowIdx_surjective (len : Fin m → Nat) (r : Fin (∑ i, len i)) :
    ∃ i k, rowIdx len i k = r := by
  obtain ⟨⟨i, k⟩, h⟩ := (finSigmaFinEquiv (n := len)).surjective r
  exact ⟨i, k, h⟩

theorem rowIdx_injective (len : Fin m → Nat) {i i' : Fin m} {k : Fin (len i)} {k' : Fin (len i')}
    (h : rowIdx len i k = rowIdx len i' k') : (⟨i, k⟩ : (i : Fin m) × Fin (len i)) = ⟨i', k'⟩ :=
  (finSigmaFinEquiv (n := len)).injective h

@[simp] theorem hstack_rowIdx {len : Fin m → Nat} (z : Flags m len K) (i : Fin m) (k : Fin (len i)) :
    hstack z (rowIdx len i k) = z i k := by
  unfold hstack rowIdx
  rw [Equiv.symm_apply_apply]

@[simp] theorem unstack_hstack {len : Fin m → Nat} (z : Flags m len K) : unstack (hstack z) = z := by
  funext i k
  simp [unstack]

@[simp] theorem hstack_unstack {len : Fin m → Nat} (v : Fin (∑ i, len i) → K) :
    hstack (unstack (len := len) v) = v := by
  funext r
  obtain ⟨i, k, rfl⟩ := rowIdx_surjective len r
  simp [unstack]

theorem colIdx_surjective {N : Nat} (c : Fin (m * N)) : ∃ i j, colIdx (m := m) (N := N) i j = c := by
  obtain ⟨⟨i, j⟩, h⟩ := (finProdFinEquiv (m := m) (n := N)).surjective c
  exact ⟨i, j, h⟩

end idx

/-! ### the loop of `_basis_flag_matrix` -/

section loop

variable (bs : Basis K) (t : K)

/-- rows above the running row offset are never written again. -/
theorem flagLoop_row_lt : ∀ (ls : List Nat) (fo co : Nat) (M : Nat → Nat → K) (r c : Nat),
    r < fo → flagLoop bs t ls fo co M r c = M r c
  | [], _, _, _, _, _, _ => rfl
  | l :: ls, fo, co, M, r, c, h => by
    rw [flagLoop, flagLoop_row_lt ls _ _ _ r c (by omega)]
    have : ¬ (fo ≤ r ∧ r < fo + l ∧ co ≤ c ∧ c < co + bs.N) := by omega
    simp only [this, if_false]

/-- columns left of the running coefficient offset are never written again. -/
theorem flagLoop_col_lt : ∀ (ls : List Nat) (fo co : Nat) (M : Nat → Nat → K) (r c : Nat),
    c < co → flagLoop bs t ls fo co M r c = M r c
  | [], _, _, _, _, _, _ => rfl
  | l :: ls, fo, co, M, r, c, h => by
    rw [flagLoop, flagLoop_col_lt ls _ _ _ r c (by omega)]
    have : ¬ (fo ≤ r ∧ r < fo + l ∧ co ≤ c ∧ c < co + bs.N) := by omega
    simp only [this, if_false]

/-- what the loop leaves at row `flag_off + (len 0 + … + len (i-1)) + k` (a row of flat output
`i`) and column `coef_off + i' N + j` (a coefficient of flat output `i'`): the basis-function
derivative when `i = i'`, the old content otherwise. -/
theorem flagLoop_ofFn : ∀ (m : Nat) (len : Fin m → Nat) (fo co : Nat) (M : Nat → Nat → K)
    (i : Fin m) (k : Nat) (_ : k < len i) (i' : Fin m) (j : Nat) (_ : j < bs.N) (r c : Nat)
    (_ : r = fo + (∑ a : Fin i.val, len (Fin.castLE i.isLt.le a)) + k)
    (_ : c = co + i'.val * bs.N + j),
    flagLoop bs t (List.ofFn len) fo co M r c = if i = i' then bs.evalDN j k t else M r c
  | 0, _, _, _, _, i, _, _, _, _, _, _, _, _, _ => i.elim0
  | m + 1, len, fo, co, M, i, k, hk, i', j, hj, r, c, hr, hc => by
    rw [List.ofFn_succ, flagLoop]
    induction i using Fin.cases with
    | zero =>
      have hr' : r = fo + k := by
        rw [hr]
        show fo + (∑ a : Fin 0, len (Fin.castLE (Nat.zero_le _) a)) + k = fo + k
        simp
      rw [flagLoop_row_lt bs t _ _ _ _ r c (by omega)]
      induction i' using Fin.cases with
      | zero =>
        have hc' : c = co + j := by simpa using hc
        have : fo ≤ r ∧ r < fo + len 0 ∧ co ≤ c ∧ c < co + bs.N := by omega
        have e1 : c - co = j := by omega
        have e2 : r - fo = k := by omega
        simp only [this, and_self, if_true, e1, e2]
      | succ i0' =>
        have hc' : c = co + (i0'.val * bs.N + bs.N) + j := by
          simpa [Nat.succ_mul] using hc
        have : ¬ (fo ≤ r ∧ r < fo + len 0 ∧ co ≤ c ∧ c < co + bs.N) := by omega
        have hne : (0 : Fin (m + 1)) ≠ i0'.succ := (Fin.succ_ne_zero i0').symm
        simp only [this, if_false, hne]
    | succ i0 =>
      have hsum : (∑ a : Fin (i0.succ).val, len (Fin.castLE (i0.succ).isLt.le a))
          = len 0 + ∑ a : Fin i0.val, len (Fin.succ (Fin.castLE i0.isLt.le a)) := by
        simp only [Fin.val_succ]
        rw [Fin.sum_univ_succ]
        rfl
      have hr' : r = (fo + len 0) + (∑ a : Fin i0.val, len (Fin.succ (Fin.castLE i0.isLt.le a))) + k := by
        rw [hr, hsum]; omega
      have hM : ∀ (X : Nat → Nat → K),
          (if fo ≤ r ∧ r < fo + len 0 ∧ co ≤ c ∧ c < co + bs.N
            then bs.evalDN (c - co) (r - fo) t else X r c) = X r c := by
        intro X
        have : ¬ (fo ≤ r ∧ r < fo + len 0 ∧ co ≤ c ∧ c < co + bs.N) := by omega
        simp only [this, if_false]
      induction i' using Fin.cases with
      | zero =>
        have hc' : c = co + j := by simpa using hc
        rw [flagLoop_col_lt bs t _ _ _ _ r c (by omega), hM]
        have hne : i0.succ ≠ (0 : Fin (m + 1)) := Fin.succ_ne_zero i0
        simp only [hne, if_false]
      | succ i0' =>
        have hc' : c = (co + bs.N) + i0'.val * bs.N + j := by
          have : c = co + (i0'.val * bs.N + bs.N) + j := by simpa [Nat.succ_mul] using hc
          omega
        rw [flagLoop_ofFn m (fun a => len a.succ) (fo + len 0) (co + bs.N) _ i0 k hk i0' j hj r c
          hr' hc', hM]
        simp only [Fin.succ_inj]

end loop

/-! ### block structure of the flag matrix -/

section block

variable {m : Nat} (bs : Basis K) (len : Fin m → Nat) (t : K)

theorem evalDN_lt (j : Fin bs.N) (k : Nat) : bs.evalDN j.val k t = bs.evalD j k t := by
  simp [Basis.evalDN, j.isLt]

/-- **the flag matrix is block diagonal with the blocks at the running offsets**: the entry in
row `k` of flat output `i` and the column of coefficient `j` of flat output `i'` is
`eval_deriv(j, k, t)` when `i = i'` and `0` otherwise. -/
theorem flagMatrixM_entry (i : Fin m) (k : Fin (len i)) (i' : Fin m) (j : Fin bs.N) :
    flagMatrixM bs len t (rowIdx len i k) (colIdx i' j)
      = if i = i' then bs.evalD j k.val t else 0 := by
  rw [flagMatrixM, flagLoop_ofFn bs t m len 0 0 _ i k.val k.isLt i' j.val j.isLt _ _
    (by rw [rowIdx_val]; omega) (by rw [colIdx_val]; omega), evalDN_lt]

/-- a row of flat output `i` only sees the coefficients of flat output `i`:
`(M α)[off_i + k] = Σ_j coeffs[i][j] eval_deriv(j, k, t)`. -/
theorem flagMatrixM_mulVec (α : Fin (m * bs.N) → K) (i : Fin m) (k : Fin (len i)) :
    (flagMatrixM bs len t *ᵥ α) (rowIdx len i k) = trajFlag bs (coefSlice α i) (len i) t k := by
  simp only [mulVec, dotProduct, trajFlag, flagMatrix, coefSlice]
  rw [← (finProdFinEquiv (m := m) (n := bs.N)).sum_comp, Fintype.sum_prod_type]
  rw [Fintype.sum_eq_single i]
  · refine Finset.sum_congr rfl fun j _ => ?_
    have := flagMatrixM_entry bs len t i k i j
    simp only [colIdx, if_true] at this
    rw [this]
    rfl
  · intro i' hne
    refine Finset.sum_eq_zero fun j _ => ?_
    have := flagMatrixM_entry bs len t i k i' j
    simp only [colIdx, Ne.symm hne, if_false] at this
    rw [this, zero_mul]

theorem unstack_flagMatrixM_mulVec (α : Fin (m * bs.N) → K) :
    unstack (flagMatrixM bs len t *ᵥ α) = trajFlagM bs α len t := by
  funext i k
  exact flagMatrixM_mulVec bs len t α i k

end block

/-! ### the stacked boundary system -/

section stack

variable {m : Nat} (bs : Basis K) (len : Fin m → Nat) (T0 Tf : K)

theorem stackMM_castAdd (r : Fin (∑ i, len i)) :
    stackMM bs len T0 Tf (Fin.castAdd _ r) = flagMatrixM bs len T0 r :=
  Fin.append_left (u := (flagMatrixM bs len T0 : Fin (∑ i, len i) → Fin (m * bs.N) → K))
    (v := (flagMatrixM bs len Tf : Fin (∑ i, len i) → Fin (m * bs.N) → K)) r

theorem stackMM_natAdd (r : Fin (∑ i, len i)) :
    stackMM bs len T0 Tf (Fin.natAdd _ r) = flagMatrixM bs len Tf r :=
  Fin.append_right (u := (flagMatrixM bs len T0 : Fin (∑ i, len i) → Fin (m * bs.N) → K))
    (v := (flagMatrixM bs len Tf : Fin (∑ i, len i) → Fin (m * bs.N) → K)) r

theorem stackMM_mulVec_left (α : Fin (m * bs.N) → K) (r : Fin (∑ i, len i)) :
    (stackMM bs len T0 Tf *ᵥ α) (Fin.castAdd _ r) = (flagMatrixM bs len T0 *ᵥ α) r := by
  show stackMM bs len T0 Tf (Fin.castAdd _ r) ⬝ᵥ α = flagMatrixM bs len T0 r ⬝ᵥ α
  rw [stackMM_castAdd]

theorem stackMM_mulVec_right (α : Fin (m * bs.N) → K) (r : Fin (∑ i, len i)) :
    (stackMM bs len T0 Tf *ᵥ α) (Fin.natAdd _ r) = (flagMatrixM bs len Tf *ᵥ α) r := by
  show stackMM bs len T0 Tf (Fin.natAdd _ r) ⬝ᵥ α = flagMatrixM bs len Tf r ⬝ᵥ α
  rw [stackMM_natAdd]

/-- the stacked system `M α = Z` says exactly that the flag of the trajectory is `z0` at `T0`
and `zf` at `Tf`. -/
theorem stackMM_solution_iff (α : Fin (m * bs.N) → K) (z0 zf : Flags m len K) :
    stackMM bs len T0 Tf *ᵥ α = stackZM z0 zf ↔
      trajFlagM bs α len T0 = z0 ∧ trajFlagM bs α len Tf = zf := by
  constructor
  · intro h
    constructor
    · funext i k
      have := congrFun h (Fin.castAdd _ (rowIdx len i k))
      rw [stackMM_mulVec_left, flagMatrixM_mulVec, stackZM, Fin.append_left, hstack_rowIdx] at this
      exact this
    · funext i k
      have := congrFun h (Fin.natAdd _ (rowIdx len i k))
      rw [stackMM_mulVec_right, flagMatrixM_mulVec, stackZM, Fin.append_right, hstack_rowIdx] at this
      exact this
  · rintro ⟨h0, hf⟩
    funext r
    refine Fin.addCases (fun r0 => ?_) (fun r1 => ?_) r
    · obtain ⟨i, k, rfl⟩ := rowIdx_surjective len r0
      rw [stackMM_mulVec_left, flagMatrixM_mulVec, stackZM, Fin.append_left, hstack_rowIdx, ← h0]
      rfl
    · obtain ⟨i, k, rfl⟩ := rowIdx_surjective len r1
      rw [stackMM_mulVec_right, flagMatrixM_mulVec, stackZM, Fin.append_right, hstack_rowIdx, ← hf]
      rfl

end stack

/-! ### the certified least-squares solve -/

theorem minNormSolve_ok {r c : Nat} {M : Matrix (Fin r) (Fin c) K} {Z : Fin r → K} {α : Fin c → K}
    (h : minNormSolve M Z = .ok α) : M *ᵥ α = Z := by
  unfold minNormSolve at h
  simp only [untab_tab, untabV_tabV] at h
  split at h
  · rename_i hc
    have := Except.ok.inj h
    rw [← this]
    exact hc
  · exact absurd h (by simp)

theorem minNormSolve_error {r c : Nat} {M : Matrix (Fin r) (Fin c) K} {Z : Fin r → K} {e : FlatErr}
    (h : minNormSolve M Z = .error e) : e = .cert "lstsq" := by
  unfold minNormSolve at h
  simp only at h
  split at h
  · exact absurd h (by simp)
  · exact (Except.error.inj h).symm

/-! ### one block: existence of coefficients for one flat output -/

/-- for one flat output with a flag of length `L ≤ N / 2`: any pair of boundary flags is met by
some coefficient vector (Hermite interpolation; `Lemmas/C20Cert.lean: stackM_rowIndep`). -/
theorem block_solvable [CharZero K] (bs : Basis K) (hT : bs.T ≠ 0) (L : Nat) (hN : 2 * L ≤ bs.N)
    (T0 Tf : K) (h0f : T0 ≠ Tf) (a b : Fin L → K) :
    ∃ β : Fin bs.N → K, trajFlag bs β L T0 = a ∧ trajFlag bs β L Tf = b := by
  cases L with
  | zero => exact ⟨0, funext fun k => k.elim0, funext fun k => k.elim0⟩
  | succ n =>
    obtain ⟨β, hβ⟩ := mulVec_surjective_of_vecMul_injective (stackM (n := n) bs T0 Tf)
      (fun v hv => stackM_rowIndep bs hT (by omega) T0 Tf h0f v hv) (stackZ a b)
    refine ⟨β, ?_, ?_⟩
    · funext k
      have := congrFun hβ (Fin.castAdd (n + 1) k)
      rw [stackM_mulVec_left] at this
      rw [trajFlag, this]
      exact Fin.append_left _ _ k
    · funext k
      have := congrFun hβ (Fin.natAdd (n + 1) k)
      rw [stackM_mulVec_right] at this
      rw [trajFlag, this]
      exact Fin.append_right _ _ k

end CtrlVerif
