/-
Lemmas about the primitives of `Model/PyNyq.lean` (used by `Props/C13Gen.lean`: the hand-written
model of C13 equals the functions generated from the source text).  Not trusted: only consequences of
the definitions.
-/
import CtrlVerif.Model.PyNyq
import CtrlVerif.Lemmas.PyArith
import CtrlVerif.Lemmas.Nyquist

namespace CtrlVerif.PyNyq

open CtrlVerif CtrlVerif.Nyquist

section field
variable {K : Type} [Field K] [LinearOrder K] [IsStrictOrderedRing K] [FloorRing K]

/-- NumPy's `a[1:] - a[:-1]` is the model's recursive `diff`. -/
theorem diff_eq : ∀ l : List K, PyNyq.diff l = Nyquist.diff l
  | [] => rfl
  | [_] => rfl
  | a :: b :: t => by
    have ih := diff_eq (b :: t)
    simp only [PyNyq.diff, List.tail_cons, List.dropLast_cons_cons, List.zipWith_cons_cons] at ih ⊢
    rw [Nyquist.diff_cons_cons, ← ih]

theorem scanl_eq_cons_tail {α β : Type} (f : β → α → β) (b : β) (l : List α) :
    List.scanl f b l = b :: (List.scanl f b l).tail := by
  cases l <;> simp

theorem scanl_tail_eq_cumsumFrom (c : K) (l : List K) :
    (List.scanl (fun acc x => acc + x) c l).tail = cumsumFrom c l := by
  induction l generalizing c with
  | nil => simp [cumsumFrom]
  | cons x t ih =>
    rw [List.scanl_cons, List.tail_cons, scanl_eq_cons_tail, ih, cumsumFrom]

theorem cumsumFrom_length (c : K) (l : List K) : (cumsumFrom c l).length = l.length := by
  induction l generalizing c with
  | nil => rfl
  | cons x t ih => simp [cumsumFrom, ih]

/-- the running sums are the model's `cumsumFrom 0`. -/
theorem cumsum_eq (l : List K) : PyNyq.cumsum l = cumsumFrom 0 l :=
  scanl_tail_eq_cumsumFrom 0 l

theorem zipB_ok (f : K → K → K) {xs ys : List K} (h : xs.length = ys.length) :
    zipB f xs ys = .ok (List.zipWith f xs ys) := by
  simp [zipB, h]

/-- broadcasting really happens (the primitive is not just `zipWith`). -/
theorem zipB_scalar_right (f : K → K → K) (a b c d : K) :
    zipB f [a, b, c] [d] = .ok [f a d, f b d, f c d] := by
  simp [zipB]

theorem zipB_shape (f : K → K → K) (a b c d e : K) : zipB f [a, b, c] [d, e] = .error .shape := by
  simp [zipB]

/-- `a[1:] += c` with `c` as long as `a[1:]`. -/
theorem iaddFrom_one_ok (a : K) (t c : List K) (h : c.length = t.length) :
    iaddFrom 1 (a :: t) c = .ok (a :: List.zipWith (fun x y => x + y) t c) := by
  simp [iaddFrom, h]

theorem iaddFrom_one_nil : iaddFrom 1 ([] : List K) [] = .ok [] := by
  simp [iaddFrom]

theorem caddS_one_eq (zs : List (K × K)) : caddS zs 1 = zs.map addOne := rfl

end field

section floor
variable {K : Type} [Field K] [LinearOrder K] [IsStrictOrderedRing K] [FloorRing K]

theorem fmod_ok (x : K) {p : K} (hp : p ≠ 0) : fmod x p = .ok (pmod x p) := by
  simp [fmod, hp, pmod]

theorem fmod_zero (x : K) : fmod x (0 : K) = .error .zeroDen := by simp [fmod]

theorem modS_ok (xs : List K) {p : K} (hp : p ≠ 0) : modS xs p = .ok (xs.map fun x => pmod x p) :=
  PyArith.mapM_congr_ok _ _ xs (fun x _ => fmod_ok x hp)

theorem modS_nil (p : K) : modS ([] : List K) p = .ok [] := rfl

theorem modS_cons_zero (x : K) (xs : List K) : modS (x :: xs) (0 : K) = .error .zeroDen := by
  simp [modS, List.mapM_cons, fmod_zero, bind, Except.bind]

/-- `np.round` (nearest of floor / ceiling, ties to the even one) is the model's `roundHalfEven`
(floor, fractional part against `1/2`). -/
theorem rint_eq (x : K) : rint x = roundHalfEven x := by
  unfold rint roundHalfEven
  by_cases hx : (⌊x⌋ : K) = x
  · have hc : ⌈x⌉ = ⌊x⌋ := by
      rw [← hx, Int.ceil_intCast, Int.floor_intCast]
    simp only [hc]
    have h0 : x - (⌊x⌋ : K) = 0 := by rw [hx]; ring
    have h1 : (⌊x⌋ : K) - x = 0 := by rw [hx]; ring
    rw [h0, h1]
    have hh : (0 : K) < 1 / 2 := by norm_num
    simp [hh]
  · have hc : ⌈x⌉ = ⌊x⌋ + 1 := by
      rw [Int.ceil_eq_iff]
      push_cast
      have h1 := Int.floor_le x
      have h2 := Int.lt_floor_add_one x
      have h3 : (⌊x⌋ : K) < x := lt_of_le_of_ne h1 hx
      constructor <;> linarith
    simp only [hc]
    push_cast
    have e1 : (x - (⌊x⌋ : K) < (⌊x⌋ : K) + 1 - x) ↔ (x - (⌊x⌋ : K) < 1 / 2) := by
      constructor <;> intro h <;> linarith
    have e2 : ((⌊x⌋ : K) + 1 - x < x - (⌊x⌋ : K)) ↔ (1 / 2 < x - (⌊x⌋ : K)) := by
      constructor <;> intro h <;> linarith
    simp only [e1, e2]

theorem toInt_intCast (n : ℤ) : toInt ((n : ℤ) : K) = n := by
  unfold toInt
  split_ifs <;> simp

/-- `int(np.round(x, 0))` is the model's `roundHalfEven x`. -/
theorem toInt_round0 (x : K) : toInt (round0 x) = roundHalfEven x := by
  rw [round0, toInt_intCast, rint_eq]

end floor

/-! ### strings, sides, boolean arrays -/

/-- the model's direction of a Python string (`indent_direction`). -/
def dirOfString (s : String) : Dir :=
  if s = "right" then .right else if s = "left" then .left else if s = "none" then .none else .other

theorem dirOfString_right_iff (s : String) : dirOfString s = .right ↔ s = "right" := by
  unfold dirOfString
  split_ifs <;> simp_all

theorem dirOfString_left_iff (s : String) : dirOfString s = .left ↔ s = "left" := by
  unfold dirOfString
  split_ifs with h1 h2 h3 <;> simp_all

/-- `+= offset` is `1`, `-= offset` is `-1`. -/
def sideSign : Side → Int
  | .right => 1
  | .left => -1

section counts
variable {K : Type} [Field K] [LinearOrder K]

theorem countTrue_map {α : Type} (f : α → Bool) (l : List α) :
    countTrue (l.map f) = (l.countP f : Nat) := by
  unfold countTrue
  rw [List.count_eq_countP, List.countP_map]
  congr 2
  funext x
  simp

theorem countTrue_gtS_real (zs : List (K × K)) :
    countTrue (gtS (real zs) 0) = (zs.countP (fun p => decide (0 < p.1)) : Nat) := by
  unfold gtS real
  rw [List.map_map, countTrue_map]
  rfl

theorem countTrue_geS_real (zs : List (K × K)) :
    countTrue (geS (real zs) 0) = (zs.countP (fun p => decide (0 ≤ p.1)) : Nat) := by
  unfold geS real
  rw [List.map_map, countTrue_map]
  rfl

theorem countTrue_absGtS_one (zs : List (K × K)) :
    countTrue (absGtS zs 1) = (zs.countP (fun p => decide (1 < normSq p)) : Nat) := by
  unfold absGtS
  rw [countTrue_map]
  simp only [mul_one, normSq]
  congr 1

theorem countTrue_absGeS_one (zs : List (K × K)) :
    countTrue (absGeS zs 1) = (zs.countP (fun p => decide (1 ≤ normSq p)) : Nat) := by
  unfold absGeS
  rw [countTrue_map]
  simp only [mul_one, normSq]
  congr 1

end counts

section lem
variable {K : Type} [Field K] [LinearOrder K] [IsStrictOrderedRing K]

/-! ### nearest pole, `abs(z) < r`, `mapM` -/

omit [IsStrictOrderedRing K] in
theorem dist2_csub (q s : K × K) : dist2 (csub q s) = normSq (s - q) := by
  simp only [dist2, csub, normSq, Prod.fst_sub, Prod.snd_sub]
  ring

theorem foldl_nearest (s b : K × K) (t : List (K × K)) :
    t.foldl (fun best q => if dist2 (csub q s) < dist2 (csub best s) then q else best) b =
      match nearest s t with
      | none => b
      | some q => if normSq (s - b) ≤ normSq (s - q) then b else q := by
  induction t generalizing b with
  | nil => simp [nearest]
  | cons x t ih =>
    rw [List.foldl_cons, ih]
    simp only [nearest, dist2_csub]
    cases hn : nearest s t with
    | none => simp only []; split_ifs <;> first | rfl | (exfalso; linarith)
    | some q =>
      by_cases h1 : normSq (s - x) < normSq (s - b) <;> by_cases h2 : normSq (s - x) ≤ normSq (s - q) <;>
        simp only [h1, h2, if_true, if_false] <;> split_ifs <;> first | rfl | (exfalso; linarith)

theorem nearestTo_eq (ps : List (K × K)) (s : K × K) :
    nearestTo ps s = match nearest s ps with
      | none => .error .badArg
      | some p => .ok p := by
  cases ps with
  | nil => simp [nearestTo, nearest]
  | cons p t =>
    simp only [nearestTo, foldl_nearest, nearest]
    cases hn : nearest s t with
    | none => rfl
    | some q => simp only []; split_ifs <;> rfl

theorem normSq_nonneg' (z : K × K) : 0 ≤ normSq z :=
  add_nonneg (mul_self_nonneg _) (mul_self_nonneg _)

theorem absLt_iff {r : K} (hr : 0 ≤ r) (s p : K × K) :
    absLt (csub s p) r ↔ normSq (s - p) < r * r := by
  have e : (csub s p).1 * (csub s p).1 + (csub s p).2 * (csub s p).2 = normSq (s - p) := by
    simp only [csub, normSq, Prod.fst_sub, Prod.snd_sub]
  unfold absLt
  rw [e]
  constructor
  · exact fun h => h.2
  · intro h
    refine ⟨?_, h⟩
    rcases hr.lt_or_eq with h0 | h0
    · exact h0
    · exfalso
      rw [← h0] at h
      have := normSq_nonneg' (s - p)
      linarith

theorem mapM_congr' {ε α β : Type} (f g : α → Except ε β) (l : List α) (h : ∀ x ∈ l, f x = g x) :
    l.mapM f = l.mapM g := by
  induction l with
  | nil => rfl
  | cons a l ih =>
    rw [List.mapM_cons, List.mapM_cons, h a (by simp), ih (fun x hx => h x (by simp [hx]))]

theorem mapM_length {ε α β : Type} (f : α → Except ε β) (l : List α) (out : List β)
    (h : l.mapM f = .ok out) : out.length = l.length := by
  induction l generalizing out with
  | nil => simp [List.mapM_nil, pure, Except.pure] at h; subst h; rfl
  | cons a l ih =>
    rw [List.mapM_cons] at h
    cases ha : f a with
    | error e => simp [ha, bind, Except.bind] at h
    | ok b =>
      cases hl : l.mapM f with
      | error e => simp [ha, hl, bind, Except.bind] at h
      | ok bs =>
        simp [ha, hl, bind, Except.bind, pure, Except.pure] at h
        subst h
        simp [ih bs hl]

theorem mapM_pure' {ε α : Type} (l : List α) : l.mapM (fun x => (pure x : Except ε α)) = pure l := by
  have := PyArith.mapM_ok (ε := ε) (fun x : α => x) l
  simpa [pure, Except.pure] using this

end lem

end CtrlVerif.PyNyq
