/-
Real-analysis helper lemmas for C12 (derivative of `|1+L(jω)|²`, ordering by `|log GM|`).
-/
import CtrlVerif.Lemmas.Margins
import Mathlib.Analysis.Calculus.Deriv.Polynomial
import Mathlib.Analysis.Calculus.Deriv.Inv
import Mathlib.Analysis.Calculus.LocalExtr.Basic
import Mathlib.Analysis.SpecialFunctions.Log.Basic

namespace CtrlVerif.Margins
open CtrlVerif Polynomial

/-- `|log m| = log (max m m⁻¹)` -/
theorem abs_log_eq (m : ℝ) (hm : 0 < m) : |Real.log m| = Real.log (max m m⁻¹) := by
  rcases le_total 1 m with h | h
  · have h1 : m⁻¹ ≤ m := le_trans (inv_le_one_of_one_le₀ h) h
    rw [max_eq_left h1, abs_of_nonneg (Real.log_nonneg h)]
  · have h1 : m ≤ m⁻¹ := le_trans h ((one_le_inv₀ hm).mpr h)
    rw [max_eq_right h1, Real.log_inv, abs_of_nonpos (Real.log_nonpos hm.le h)]

end CtrlVerif.Margins
