/-
Helper lemmas for C15: intertwining (`z = T x`) and responses, the companion-form algebra behind
`reachable_form` / `observable_form`, Schur complement at `s = 0` for `matchdc`.
-/
import CtrlVerif.Model.Canonical
import CtrlVerif.Lemmas.SS
import Mathlib.LinearAlgebra.Matrix.NonsingularInverse
import CtrlVerif.Lemmas.Poly
import Mathlib.LinearAlgebra.Matrix.Charpoly.Coeff
import Mathlib.Tactic.FieldSimp
import Mathlib.Tactic.LinearCombination

namespace CtrlVerif

open Matrix

namespace SS

variable {K : Type*} [Field K]
variable {σ ι o κ ε : Type*}
variable [Fintype σ] [DecidableEq σ]

/-! ### intertwined systems have the same response -/

/-- `z = T x`: if `T A = A' T`, `T B = B'`, `C' T = C`, `D' = D` then every response of `G` is a
response of `G'`. -/
theorem resp_of_intertwine (G G' : SS σ ι o K) (T : Matrix σ σ K)
    (hA : T * G.A = G'.A * T) (hB : T * G.B = G'.B) (hC : G'.C * T = G.C) (hD : G'.D = G.D)
    (s : K) {Y : Matrix o ι K} (h : G.Resp s Y) : G'.Resp s Y := by
  obtain ⟨X, hX, rfl⟩ := h
  refine ⟨T * X, ?_, ?_⟩
  · rw [← hB, ← hX]
    simp only [Matrix.sub_mul, Matrix.mul_sub, Matrix.smul_mul, Matrix.mul_smul, Matrix.one_mul,
      ← Matrix.mul_assoc, hA]
  · rw [← Matrix.mul_assoc, hC, hD]

/-- the same relations read through the inverse of `T`. -/
theorem intertwine_symm (G G' : SS σ ι o K) (T Ti : Matrix σ σ K) (hT : T * Ti = 1)
    (hA : T * G.A = G'.A * T) (hB : T * G.B = G'.B) (hC : G'.C * T = G.C) :
    Ti * G'.A = G.A * Ti ∧ Ti * G'.B = G.B ∧ G.C * Ti = G'.C := by
  have hT' : Ti * T = 1 := mul_eq_one_comm.mp hT
  refine ⟨?_, ?_, ?_⟩
  · have : Ti * (G'.A * T) * Ti = Ti * (T * G.A) * Ti := by rw [hA]
    rw [Matrix.mul_assoc, Matrix.mul_assoc, hT, Matrix.mul_one] at this
    rw [this, ← Matrix.mul_assoc, hT', Matrix.one_mul]
  · rw [← hB, ← Matrix.mul_assoc, hT', Matrix.one_mul]
  · rw [← hC, Matrix.mul_assoc, hT, Matrix.mul_one]

theorem resp_iff_of_intertwine (G G' : SS σ ι o K) (T Ti : Matrix σ σ K) (hT : T * Ti = 1)
    (hA : T * G.A = G'.A * T) (hB : T * G.B = G'.B) (hC : G'.C * T = G.C) (hD : G'.D = G.D)
    (s : K) (Y : Matrix o ι K) : G'.Resp s Y ↔ G.Resp s Y := by
  obtain ⟨hA', hB', hC'⟩ := intertwine_symm G G' T Ti hT hA hB hC
  exact ⟨resp_of_intertwine G' G Ti hA' hB' hC' hD.symm s,
    resp_of_intertwine G G' T hA hB hC hD s⟩

/-! ### the companion-form algebra -/

section companion

variable {n : Nat}

theorem sum_fin_ite_val (f : Fin n → K) (m : Nat) (c : K) :
    ∑ k : Fin n, f k * (if k.val = m then c else 0) = if h : m < n then f ⟨m, h⟩ * c else 0 := by
  split
  · rename_i h
    rw [Finset.sum_eq_single (⟨m, h⟩ : Fin n)]
    · simp
    · intro k _ hk
      have : k.val ≠ m := fun e => hk (Fin.ext e)
      simp [this]
    · simp
  · rename_i h
    apply Finset.sum_eq_zero
    intro k _
    have : k.val ≠ m := fun e => h (e ▸ k.isLt)
    simp [this]

/-- the columns `a₀⁻¹ (a₀ Aᵏ + … + a_k) B` (`k = 0 … n-1`): the inverse of the transformation
`reachable_form` computes. -/
def reachQ (A : Matrix (Fin n) (Fin n) K) (B : Matrix (Fin n) (Fin 1) K) (a : Nat → K) :
    Matrix (Fin n) (Fin n) K := fun i k => (a 0)⁻¹ * (hornerMat A a k.val * B) i 0

variable (A : Matrix (Fin n) (Fin n) K) (B : Matrix (Fin n) (Fin 1) K) (a : Nat → K)

theorem hornerMat_succ_mul (k : Nat) :
    hornerMat A a (k + 1) * B = A * (hornerMat A a k * B) + a (k + 1) • B := by
  simp [hornerMat, Matrix.add_mul, Matrix.mul_assoc]

theorem reachQ_zero (ha0 : a 0 ≠ 0) (i : Fin n) (h : 0 < n) : reachQ A B a i ⟨0, h⟩ = B i 0 := by
  simp [reachQ, hornerMat, ha0]

theorem reachQ_mul_e1 (ha0 : a 0 ≠ 0) : reachQ A B a * e1col n = B := by
  ext i j
  have hj : j = 0 := Subsingleton.elim _ _
  subst hj
  have hn : 0 < n := i.pos
  have : ∀ k : Fin n, (e1col n : Matrix (Fin n) (Fin 1) K) k 0 = if k.val = 0 then 1 else 0 :=
    fun k => rfl
  simp only [Matrix.mul_apply, this]
  rw [sum_fin_ite_val, dif_pos hn, mul_one, reachQ_zero A B a ha0 i hn]

theorem companionR_split (k j : Fin n) :
    companionR n a k j = (if k.val = 0 then -(a (j.val + 1)) / a 0 else 0)
      + (if k.val = j.val + 1 then 1 else 0) := by
  unfold companionR
  by_cases h : k.val = 0
  · have : ¬ k.val = j.val + 1 := by omega
    simp [h]
  · simp [h]

theorem mul_reachQ_apply (i j : Fin n) :
    (A * reachQ A B a) i j = (a 0)⁻¹ * (A * (hornerMat A a j.val * B)) i 0 := by
  rw [Matrix.mul_apply, Matrix.mul_apply, Finset.mul_sum]
  apply Finset.sum_congr rfl
  intro l _
  simp only [reachQ]
  ring

/-- `A Q = Q A_c` when `(a₀ Aⁿ + … + a_n) B = 0`. -/
theorem mul_reachQ (ha0 : a 0 ≠ 0) (hM : hornerMat A a n * B = 0) :
    A * reachQ A B a = reachQ A B a * companionR n a := by
  ext i j
  have hn : 0 < n := i.pos
  have hR : (reachQ A B a * companionR n a) i j
      = B i 0 * (-(a (j.val + 1)) / a 0)
        + (if h : j.val + 1 < n then reachQ A B a i ⟨j.val + 1, h⟩ * 1 else 0) := by
    rw [Matrix.mul_apply]
    simp only [companionR_split, mul_add, Finset.sum_add_distrib]
    rw [sum_fin_ite_val, sum_fin_ite_val, dif_pos hn, reachQ_zero A B a ha0 i hn]
  rw [mul_reachQ_apply, hR]
  by_cases hj : j.val + 1 < n
  · rw [dif_pos hj]
    simp only [reachQ, hornerMat_succ_mul, Matrix.add_apply, Matrix.smul_apply, smul_eq_mul]
    field_simp
    ring
  · rw [dif_neg hj]
    have hjn : j.val + 1 = n := by omega
    have hM' : hornerMat A a (j.val + 1) * B = 0 :=
      (congrArg (fun k => hornerMat A a k * B) hjn).trans hM
    have h0 := congrFun (congrFun hM' i) 0
    rw [hornerMat_succ_mul] at h0
    simp only [Matrix.add_apply, Matrix.smul_apply, smul_eq_mul, Matrix.zero_apply] at h0
    have : (A * (hornerMat A a j.val * B)) i 0 = -(a (j.val + 1) * B i 0) := by
      linear_combination h0
    rw [this]
    field_simp
    ring

theorem reachQ_mul_pow (ha0 : a 0 ≠ 0) (hM : hornerMat A a n * B = 0) (k : Nat) :
    reachQ A B a * companionR n a ^ k = A ^ k * reachQ A B a := by
  induction k with
  | zero => simp
  | succ k ih =>
    rw [pow_succ, ← Matrix.mul_assoc, ih, Matrix.mul_assoc, ← mul_reachQ A B a ha0 hM,
      ← Matrix.mul_assoc, ← pow_succ]

/-- `Q · ctrb(A_c, e₁) = ctrb(A, B)`. -/
theorem reachQ_mul_ctrb (ha0 : a 0 ≠ 0) (hM : hornerMat A a n * B = 0) :
    reachQ A B a * ctrb1 (companionR n a) (e1col n) = ctrb1 A B := by
  ext i k
  have : (reachQ A B a * ctrb1 (companionR n a) (e1col n)) i k
      = ((reachQ A B a * (companionR n a ^ k.val * e1col n) : Matrix (Fin n) (Fin 1) K)) i 0 := by
    simp [Matrix.mul_apply, ctrb1]
  rw [this, ← Matrix.mul_assoc, reachQ_mul_pow A B a ha0 hM, Matrix.mul_assoc,
    reachQ_mul_e1 A B a ha0]
  rfl

/-- the transformation of `reachable_form` is the two-sided inverse of `Q`. -/
theorem reachT_inv (ha0 : a 0 ≠ 0) (hM : hornerMat A a n * B = 0)
    (Wi : Matrix (Fin n) (Fin n) K) (hW : ctrb1 A B * Wi = 1) :
    reachQ A B a * reachT a Wi = 1 ∧ reachT a Wi * reachQ A B a = 1 := by
  have h : reachQ A B a * reachT a Wi = 1 := by
    unfold reachT
    rw [← Matrix.mul_assoc, reachQ_mul_ctrb A B a ha0 hM, hW]
  exact ⟨h, mul_eq_one_comm.mp h⟩

/-- `T A = A_c T` and `T B = e₁`. -/
theorem reachT_intertwine (ha0 : a 0 ≠ 0) (hM : hornerMat A a n * B = 0)
    (Wi : Matrix (Fin n) (Fin n) K) (hW : ctrb1 A B * Wi = 1) :
    reachT a Wi * A = companionR n a * reachT a Wi ∧ reachT a Wi * B = e1col n := by
  obtain ⟨h1, h2⟩ := reachT_inv A B a ha0 hM Wi hW
  constructor
  · have : reachT a Wi * A * (reachQ A B a * reachT a Wi)
        = reachT a Wi * reachQ A B a * companionR n a * reachT a Wi := by
      rw [Matrix.mul_assoc (reachT a Wi) (reachQ A B a), ← mul_reachQ A B a ha0 hM]
      simp only [Matrix.mul_assoc]
    rw [h1, h2, Matrix.mul_one, Matrix.one_mul] at this
    exact this
  · rw [← reachQ_mul_e1 A B a ha0, ← Matrix.mul_assoc, h2, Matrix.one_mul]

end companion

/-! ### the contract of `numpy.poly(A)`: Cayley–Hamilton -/

section cayley

open Polynomial

theorem toPoly_snoc (l : List K) (c : K) : toPoly (l ++ [c]) = X * toPoly l + Polynomial.C c := by
  rw [toPoly_append, toPoly_cons]
  simp [mul_comm]

theorem hornerMat_eq_aeval (A : Matrix σ σ K) (a : Nat → K) (k : Nat) :
    hornerMat A a k = aeval A (toPoly ((List.range (k + 1)).map a)) := by
  induction k with
  | zero =>
    simp [hornerMat, toPoly_cons, Algebra.algebraMap_eq_smul_one]
  | succ k ih =>
    rw [List.range_succ, List.map_append, List.map_cons, List.map_nil, toPoly_snoc, hornerMat, ih]
    simp [Algebra.algebraMap_eq_smul_one]

theorem range_map_getD (ap : List K) (n : Nat) (hlen : ap.length = n + 1) :
    (List.range (n + 1)).map (fun k => ap.getD k 0) = ap := by
  apply List.ext_getElem
  · simp [hlen]
  · intro i h1 h2
    simp [List.getD_eq_getElem?_getD, h2]

/-- if `ap` (length `n+1`) is the coefficient list of the characteristic polynomial of `A`
(what `numpy.poly(A)` computes) then the Horner sum vanishes and the leading entry is non-zero. -/
theorem hornerMat_charpoly {n : Nat} (A : Matrix (Fin n) (Fin n) K) (ap : List K)
    (hlen : ap.length = n + 1) (hp : toPoly ap = A.charpoly) :
    hornerMat A (fun k => ap.getD k 0) n = 0 ∧ ap.getD 0 0 ≠ 0 := by
  constructor
  · rw [hornerMat_eq_aeval, range_map_getD ap n hlen, hp, Matrix.aeval_self_charpoly]
  · match ap, hlen with
    | a0 :: t, hl =>
      simp only [List.getD_cons_zero]
      intro h0
      subst h0
      have hl' : t.length = n := by simpa using hl
      have hd := toPoly_degree_lt t
      rw [toPoly_cons] at hp
      simp only [map_zero, zero_mul, zero_add] at hp
      rw [hp, Matrix.charpoly_degree_eq_dim, hl'] at hd
      simp at hd

end cayley

/-! ### duality: `observable_form` -/

section dual

variable {n : Nat}

theorem companionO_eq_transpose (a : Nat → K) : companionO n a = (companionR n a)ᵀ := by
  ext i j; rfl

theorem e1row_eq_transpose : (e1row n : Matrix (Fin 1) (Fin n) K) = (e1col n)ᵀ := by
  ext i j; rfl

theorem obsv1_eq_transpose (A : Matrix (Fin n) (Fin n) K) (C : Matrix (Fin 1) (Fin n) K) :
    obsv1 A C = (ctrb1 Aᵀ Cᵀ)ᵀ := by
  ext k j
  simp only [obsv1, ctrb1, Matrix.transpose_apply]
  rw [← Matrix.transpose_pow, ← Matrix.transpose_mul]
  rfl

variable (A : Matrix (Fin n) (Fin n) K) (C : Matrix (Fin 1) (Fin n) K) (a : Nat → K)

/-- the transformation of `observable_form` is `Qᵀ` for the dual pair `(Aᵀ, Cᵀ)` — whether or not
the system is observable. -/
theorem obsT_eq (ha0 : a 0 ≠ 0) (hM : hornerMat Aᵀ a n * Cᵀ = 0)
    (Wzi : Matrix (Fin n) (Fin n) K) (hW : Wzi * obsv1 (companionO n a) (e1row n) = 1) :
    obsT A C Wzi = (reachQ Aᵀ Cᵀ a)ᵀ := by
  have h := reachQ_mul_ctrb Aᵀ Cᵀ a ha0 hM
  have h2 : obsv1 (companionO n a) (e1row n) * (reachQ Aᵀ Cᵀ a)ᵀ = obsv1 A C := by
    rw [obsv1_eq_transpose, obsv1_eq_transpose, companionO_eq_transpose, e1row_eq_transpose,
      Matrix.transpose_transpose, Matrix.transpose_transpose, ← Matrix.transpose_mul, h]
  unfold obsT
  rw [← h2, ← Matrix.mul_assoc, hW, Matrix.one_mul]

/-- `T A = A_o T` and `e₁ᵀ T = C`. -/
theorem obsT_intertwine (ha0 : a 0 ≠ 0) (hM : hornerMat Aᵀ a n * Cᵀ = 0)
    (Wzi : Matrix (Fin n) (Fin n) K) (hW : Wzi * obsv1 (companionO n a) (e1row n) = 1) :
    obsT A C Wzi * A = companionO n a * obsT A C Wzi ∧ e1row n * obsT A C Wzi = C := by
  rw [obsT_eq A C a ha0 hM Wzi hW, companionO_eq_transpose, e1row_eq_transpose]
  constructor
  · rw [← Matrix.transpose_mul, ← mul_reachQ Aᵀ Cᵀ a ha0 hM, Matrix.transpose_mul,
      Matrix.transpose_transpose]
  · rw [← Matrix.transpose_mul, reachQ_mul_e1 Aᵀ Cᵀ a ha0, Matrix.transpose_transpose]

end dual

/-! ### `matchdc`: Schur complement at `s = 0` -/

section matchdc

variable [Fintype κ] [DecidableEq κ] [Fintype ε] [DecidableEq ε]

/-- block form: eliminating the second block of states by residualisation keeps the response at
`s = 0` (both directions). -/
theorem matchdc_blocks (A11 : Matrix κ κ K) (A12 : Matrix κ ε K) (A21 : Matrix ε κ K)
    (A22 A22i : Matrix ε ε K) (B1 : Matrix κ ι K) (B2 : Matrix ε ι K) (C1 : Matrix o κ K)
    (C2 : Matrix o ε K) (D : Matrix o ι K) (h22 : A22 * A22i = 1) (Y : Matrix o ι K) :
    (⟨A11 - A12 * (A22i * A21), B1 - A12 * (A22i * B2), C1 - C2 * (A22i * A21),
        D - C2 * (A22i * B2)⟩ : SS κ ι o K).Resp 0 Y
      ↔ (⟨fromBlocks A11 A12 A21 A22, fromRows B1 B2, fromCols C1 C2, D⟩ :
          SS (κ ⊕ ε) ι o K).Resp 0 Y := by
  have h22' : A22i * A22 = 1 := mul_eq_one_comm.mp h22
  constructor
  · rintro ⟨X1, hX, rfl⟩
    simp only [zero_smul, zero_sub] at hX
    refine ⟨fromRows X1 (-(A22i * (B2 + A21 * X1))), ?_, ?_⟩
    · simp only [zero_smul, zero_sub]
      rw [fromBlocks_neg, fromBlocks_mul_fromRows]
      congr 1
      · have : B1 = -(A11 - A12 * (A22i * A21)) * X1 + A12 * (A22i * B2) := by
          rw [hX]; abel
        rw [this]
        simp only [Matrix.neg_mul, Matrix.mul_neg, Matrix.sub_mul, Matrix.mul_add,
          Matrix.mul_assoc]
        abel
      · simp only [Matrix.neg_mul, Matrix.mul_neg, neg_neg, ← Matrix.mul_assoc, h22,
          Matrix.one_mul, Matrix.mul_add]
        abel
    · simp only [fromCols_mul_fromRows, Matrix.mul_neg, Matrix.sub_mul, Matrix.mul_add,
        Matrix.mul_assoc]
      abel
  · rintro ⟨X, hX, rfl⟩
    obtain ⟨X1, X2, rfl⟩ : ∃ X1 X2, X = fromRows X1 X2 :=
      ⟨X.toRows₁, X.toRows₂, (fromRows_toRows X).symm⟩
    simp only [zero_smul, zero_sub] at hX
    rw [fromBlocks_neg, fromBlocks_mul_fromRows] at hX
    have e1 := (fromRows_inj.eq_iff.mp hX).1
    have e2 := (fromRows_inj.eq_iff.mp hX).2
    have hX2 : X2 = -(A22i * (B2 + A21 * X1)) := by
      have : A22i * (-A21 * X1 + -A22 * X2) = A22i * B2 := by rw [e2]
      simp only [Matrix.mul_add, Matrix.neg_mul, Matrix.mul_neg, ← Matrix.mul_assoc A22i A22,
        h22', Matrix.one_mul] at this
      rw [Matrix.mul_add, ← this]
      abel
    refine ⟨X1, ?_, ?_⟩
    · simp only [zero_smul, zero_sub]
      rw [← e1, hX2]
      simp only [Matrix.neg_mul, Matrix.mul_neg, Matrix.sub_mul, Matrix.mul_add,
        Matrix.mul_assoc]
      abel
    · rw [hX2]
      simp only [fromCols_mul_fromRows, Matrix.mul_neg, Matrix.sub_mul, Matrix.mul_add,
        Matrix.mul_assoc]
      abel

end matchdc

end SS

end CtrlVerif
