/-
Helper lemmas for the flat-system model (C20).
-/
import CtrlVerif.Model.Flat
import Mathlib.LinearAlgebra.Matrix.NonsingularInverse
import Mathlib.Tactic.Ring
import Mathlib.Tactic.Abel

namespace CtrlVerif

open Matrix

variable {K : Type} [Field K] [DecidableEq K]

namespace LinFlat

variable {n : Nat}

/-- the executable check decides `Valid`. -/
theorem validB_iff (L : LinFlat n K) : L.validB = true ↔ L.Valid := by
  simp only [validB, Valid, Bool.and_eq_true, decide_eq_true_eq, List.all_eq_true,
    List.mem_finRange, forall_const, and_assoc]

theorem Valid.inv_mul {L : LinFlat n K} (h : L.Valid) : L.Tinv * L.T = 1 :=
  mul_eq_one_comm.mp h.1

theorem Valid.rowPow_lt {L : LinFlat n K} (h : L.Valid) :
    ∀ k (hk : k < n), L.rowPow k = L.T ⟨k, hk⟩
  | 0, hk => by
    funext l
    exact (h.2.1 ⟨0, hk⟩ l rfl).symm
  | k + 1, hk => by
    have ih := Valid.rowPow_lt h k (Nat.lt_of_succ_lt hk)
    funext l
    simp only [rowPow, ih]
    exact h.2.2.1 ⟨k, Nat.lt_of_succ_lt hk⟩ ⟨k + 1, hk⟩ l rfl

theorem Valid.rowPow_n {L : LinFlat n K} (h : L.Valid) (hn : 0 < n) :
    L.rowPow n = L.F ᵥ* L.T := by
  obtain ⟨k, rfl⟩ : ∃ k, n = k + 1 := ⟨n - 1, by omega⟩
  funext l
  simp only [rowPow, Valid.rowPow_lt h k (Nat.lt_succ_self k)]
  exact h.2.2.2.1 ⟨k, Nat.lt_succ_self k⟩ l rfl

theorem Valid.T_dot_b {L : LinFlat n K} (h : L.Valid) (i : Fin n) :
    L.T i ⬝ᵥ L.b = if i.val + 1 = n then 1 else 0 := h.2.2.2.2 i

/-- the entries of the flag below the last one are `T x`. -/
theorem Valid.forward_castSucc {L : LinFlat n K} (h : L.Valid) (x : Fin n → K) (u : K)
    (i : Fin n) : L.forward x u i.castSucc = (L.T *ᵥ x) i := by
  obtain ⟨i, hi⟩ := i
  cases i with
  | zero =>
    simp only [forward, Fin.castSucc_mk, if_true, mulVec]
    congr 1
    funext l
    exact (h.2.1 ⟨0, hi⟩ l rfl).symm
  | succ k =>
    have hk : k < n := Nat.lt_of_succ_lt hi
    simp only [forward, Fin.castSucc_mk, Nat.succ_ne_zero, if_false, Nat.add_sub_cancel]
    rw [Valid.rowPow_lt h k hk, dotProduct_add, dotProduct_smul, Valid.T_dot_b h,
      dotProduct_mulVec]
    have h1 : L.T ⟨k, hk⟩ ᵥ* L.A = L.T ⟨k + 1, hi⟩ := by
      funext l; exact h.2.2.1 ⟨k, hk⟩ ⟨k + 1, hi⟩ l rfl
    have h2 : ¬ (k + 1 = n) := by omega
    simp [h1, h2, mulVec]

/-- the last entry of the flag is `F (T x) + u`. -/
theorem Valid.forward_last {L : LinFlat n K} (h : L.Valid) (hn : 0 < n) (x : Fin n → K) (u : K) :
    L.forward x u (Fin.last n) = L.F ⬝ᵥ (L.T *ᵥ x) + u := by
  obtain ⟨k, rfl⟩ : ∃ k, n = k + 1 := ⟨n - 1, by omega⟩
  simp only [forward, Fin.val_last, Nat.succ_ne_zero, if_false, Nat.add_sub_cancel]
  rw [Valid.rowPow_lt h k (Nat.lt_succ_self k), dotProduct_add, dotProduct_smul, Valid.T_dot_b h,
    dotProduct_mulVec]
  have h1 : L.T ⟨k, Nat.lt_succ_self k⟩ ᵥ* L.A = L.F ᵥ* L.T := by
    funext l; exact h.2.2.2.1 ⟨k, Nat.lt_succ_self k⟩ l rfl
  rw [h1, ← dotProduct_mulVec]
  simp

theorem Valid.flagHead_forward {L : LinFlat n K} (h : L.Valid) (x : Fin n → K) (u : K) :
    flagHead (L.forward x u) = L.T *ᵥ x := by
  funext i
  exact Valid.forward_castSucc h x u i

/-- entries `1 … n` of a flag (the derivative of its head along a trajectory). -/
def flagTail (z : Fin (n + 1) → K) : Fin n → K := fun i => z i.succ

/-- the entries of the flag above the first one are `T (A x + u b)`. -/
theorem Valid.forward_succ {L : LinFlat n K} (h : L.Valid) (x : Fin n → K) (u : K) (i : Fin n) :
    L.forward x u i.succ = (L.T *ᵥ (L.A *ᵥ x + u • L.b)) i := by
  simp only [forward, Fin.val_succ, Nat.succ_ne_zero, if_false, Nat.add_sub_cancel]
  rw [Valid.rowPow_lt h i.val i.isLt]
  rfl

theorem Valid.flagTail_forward {L : LinFlat n K} (h : L.Valid) (x : Fin n → K) (u : K) :
    flagTail (L.forward x u) = L.T *ᵥ (L.A *ᵥ x + u • L.b) := by
  funext i
  exact Valid.forward_succ h x u i

end LinFlat

theorem stackM_castAdd {n : Nat} (bs : Basis K) (T0 Tf : K) (i : Fin (n + 1)) :
    stackM (n := n) bs T0 Tf (Fin.castAdd (n + 1) i) = flagMatrix bs (n + 1) T0 i :=
  Fin.append_left (u := (flagMatrix bs (n + 1) T0 : Fin (n + 1) → Fin bs.N → K))
    (v := (flagMatrix bs (n + 1) Tf : Fin (n + 1) → Fin bs.N → K)) i

theorem stackM_natAdd {n : Nat} (bs : Basis K) (T0 Tf : K) (i : Fin (n + 1)) :
    stackM (n := n) bs T0 Tf (Fin.natAdd (n + 1) i) = flagMatrix bs (n + 1) Tf i :=
  Fin.append_right (u := (flagMatrix bs (n + 1) T0 : Fin (n + 1) → Fin bs.N → K))
    (v := (flagMatrix bs (n + 1) Tf : Fin (n + 1) → Fin bs.N → K)) i

theorem stackM_mulVec_left {n : Nat} (bs : Basis K) (T0 Tf : K) (α : Fin bs.N → K)
    (i : Fin (n + 1)) :
    (stackM (n := n) bs T0 Tf *ᵥ α) (Fin.castAdd (n + 1) i) = (flagMatrix bs (n + 1) T0 *ᵥ α) i := by
  show stackM (n := n) bs T0 Tf (Fin.castAdd (n + 1) i) ⬝ᵥ α = flagMatrix bs (n + 1) T0 i ⬝ᵥ α
  rw [stackM_castAdd]

theorem stackM_mulVec_right {n : Nat} (bs : Basis K) (T0 Tf : K) (α : Fin bs.N → K)
    (i : Fin (n + 1)) :
    (stackM (n := n) bs T0 Tf *ᵥ α) (Fin.natAdd (n + 1) i) = (flagMatrix bs (n + 1) Tf *ᵥ α) i := by
  show stackM (n := n) bs T0 Tf (Fin.natAdd (n + 1) i) ⬝ᵥ α = flagMatrix bs (n + 1) Tf i ⬝ᵥ α
  rw [stackM_natAdd]

end CtrlVerif
