/-
Glue between the run-time layer (`Model/SSDyn.lean`, `DSS` with `Nat` dimensions) and the typed
layer (`Model/SS.lean`) of C02: helper lemmas for `Props/C02Glue.lean` / `Props/C02GlueTree.lean`.
(The definitions the statements use — `DSS.Resp`, `bc`, `bdiag`, `flatMat`, `splitUpper`,
`splitLower`, `sqD`, `fbF`, `lftRes`, the run-time trees — are in `Model/C02Dyn.lean`.)

* `SS.Resp_reindex`: relabelling the states along an equivalence does not change the set of
  responses (both directions); `Resp_flatS`, `Resp_selectEquiv`, `Resp_flatIO`, `Resp_castIO`,
  `Resp_splitIO`: the same for the re-typings of the run-time layer.
* `DSS.Resp_mk`, `common_self`, small facts about `bc` / `bdiag` / `flatMat`.
* the cores of the run-time operators after SISO promotion (`mulCore`, `addCore`,
  `mulArrayCore`, `rmulArrayCore`, `addArrayCore`) and the unfolding lemmas of the `do`-blocks of
  `Model/SSDyn.lean` (`mulSS_eq`, `addSS_eq`, `inv_eq`, `feedbackSS_eq`, …): each run-time operator
  is "broadcast the SISO operand, then the core"; `appendN_ok`.
* `entryL` / `entryR` / `binop_cases`: the operand dispatch of `DSS.binop`.
-/
import CtrlVerif.Lemmas.SS
import CtrlVerif.Lemmas.C02Expr
import CtrlVerif.Model.SSDyn
import CtrlVerif.Model.C02Dyn

namespace CtrlVerif

open Matrix

namespace SS

section typed

variable {K : Type*} [Field K]
variable {σ σ' ι ι' o o' : Type*}
variable [Fintype σ] [DecidableEq σ] [Fintype σ'] [DecidableEq σ']

theorem reindex_reindex_symm (G : SS σ ι o K) (e : σ ≃ σ') : (G.reindex e).reindex e.symm = G := by
  cases G
  simp [reindex, Matrix.submatrix_submatrix]

/-- one direction of `Resp_reindex` (the state response is relabelled with the states). -/
theorem Resp.reindex {G : SS σ ι o K} {s : K} {Y : Matrix o ι K} (h : G.Resp s Y) (e : σ ≃ σ') :
    (G.reindex e).Resp s Y := by
  obtain ⟨X, hX, rfl⟩ := h
  refine ⟨X.submatrix e.symm id, ?_, ?_⟩
  · simp only [SS.reindex]
    have : (s • (1 : Matrix σ' σ' K) - G.A.submatrix e.symm e.symm)
        = (s • (1 : Matrix σ σ K) - G.A).submatrix e.symm e.symm := by
      ext i j; simp [Matrix.one_apply, Matrix.sub_apply]
    rw [this, Matrix.submatrix_mul_equiv, hX]
  · simp only [SS.reindex]
    rw [← Matrix.submatrix_id_id (G.C.submatrix id ⇑e.symm * X.submatrix ⇑e.symm id)]
    rw [Matrix.submatrix_mul_equiv]
    simp

/-- **Re-indexing the states preserves the response**, in both directions: `Y` is a value of the
transfer matrix of the relabelled system exactly when it is one of the original system. -/
theorem Resp_reindex (G : SS σ ι o K) (e : σ ≃ σ') (s : K) (Y : Matrix o ι K) :
    (G.reindex e).Resp s Y ↔ G.Resp s Y := by
  constructor
  · intro h
    have := h.reindex e.symm
    rwa [reindex_reindex_symm] at this
  · intro h; exact h.reindex e

/-- one direction for arbitrary index maps (`sys[rows, cols]`). -/
theorem Resp.select {G : SS σ ι o K} {s : K} {Y : Matrix o ι K} (h : G.Resp s Y)
    (r : o' → o) (c : ι' → ι) : (G.select r c).Resp s (Y.submatrix r c) := by
  obtain ⟨X, hX, rfl⟩ := h
  refine ⟨X.submatrix id c, ?_, ?_⟩
  · simp only [SS.select]
    rw [← hX]
    ext i j; simp [Matrix.mul_apply]
  · ext i j; simp [SS.select, Matrix.mul_apply]

theorem select_select {o'' ι'' : Type*} (G : SS σ ι o K) (r : o' → o) (c : ι' → ι)
    (r' : o'' → o') (c' : ι'' → ι') : (G.select r c).select r' c' = G.select (r ∘ r') (c ∘ c') := by
  cases G
  simp [select, Matrix.submatrix_submatrix]

theorem select_id (G : SS σ ι o K) : G.select id id = G := by
  cases G
  simp [select]

/-- relabelling inputs and outputs along equivalences relabels the response. -/
theorem Resp_selectEquiv (G : SS σ ι o K) (eo : o' ≃ o) (ei : ι' ≃ ι) (s : K) (Y : Matrix o' ι' K) :
    (G.select eo ei).Resp s Y ↔ G.Resp s (Y.submatrix eo.symm ei.symm) := by
  constructor
  · intro h
    have := h.select eo.symm ei.symm
    rwa [select_select, Equiv.self_comp_symm, Equiv.self_comp_symm, select_id] at this
  · intro h
    have := h.select eo ei
    simpa [Matrix.submatrix_submatrix] using this

end typed

section runtime

variable {K : Type} [Field K]
variable {σ : Type*} [Fintype σ] [DecidableEq σ]

/-- `Fin a ⊕ Fin b` re-typed as `Fin (a + b)` on the states: same responses. -/
theorem Resp_flatS {a b : Nat} {ι o : Type*} (G : SS (Fin a ⊕ Fin b) ι o K) (s : K)
    (Y : Matrix o ι K) : G.flatS.Resp s Y ↔ G.Resp s Y :=
  Resp_reindex G finSumFinEquiv s Y

/-- `Fin c ⊕ Fin d` re-typed as `Fin (c + d)` on inputs and outputs: the response is re-typed the
same way. -/
theorem Resp_flatIO {c d e f : Nat} (G : SS σ (Fin c ⊕ Fin d) (Fin e ⊕ Fin f) K) (s : K)
    (Y : Matrix (Fin (e + f)) (Fin (c + d)) K) :
    G.flatIO.Resp s Y ↔ G.Resp s (Y.submatrix finSumFinEquiv finSumFinEquiv) :=
  Resp_selectEquiv G finSumFinEquiv.symm finSumFinEquiv.symm s Y

/-- partitioning inputs and outputs: the response is partitioned the same way. -/
theorem Resp_splitIO {c d e f : Nat} (G : SS σ (Fin (c + d)) (Fin (e + f)) K) (s : K)
    (Y : Matrix (Fin e ⊕ Fin f) (Fin c ⊕ Fin d) K) :
    G.splitIO.Resp s Y ↔ G.Resp s (Y.submatrix finSumFinEquiv.symm finSumFinEquiv.symm) :=
  Resp_selectEquiv G finSumFinEquiv finSumFinEquiv s Y

theorem castIO_rfl {p m : Nat} (G : SS σ (Fin m) (Fin p) K) (hp : p = p) (hm : m = m) :
    G.castIO hp hm = G := by
  cases G; simp [castIO, select]

/-- re-typing along equalities of the dimensions. -/
theorem Resp_castIO {p p' m m' : Nat} (hp : p = p') (hm : m = m') (G : SS σ (Fin m) (Fin p) K)
    (s : K) (Y : Matrix (Fin p') (Fin m') K) :
    (G.castIO hp hm).Resp s Y ↔ G.Resp s (Y.submatrix (Fin.cast hp) (Fin.cast hm)) := by
  subst hp hm
  rw [castIO_rfl]
  have : Y.submatrix (Fin.cast rfl) (Fin.cast rfl) = Y := by ext i j; rfl
  rw [this]

end runtime

end SS

namespace DSS

variable {K : Type} [Field K]

@[simp] theorem submatrix_cast_rfl {p m : Nat} (Y : Matrix (Fin p) (Fin m) K) (hp : p = p)
    (hm : m = m) : Y.submatrix (Fin.cast hp) (Fin.cast hm) = Y := by ext i j; rfl

theorem Resp_mk {n p m : Nat} (sys : SS (Fin n) (Fin m) (Fin p) K) (dt : Dt) (s : K)
    (Y : Matrix (Fin p) (Fin m) K) : (DSS.mk n p m sys dt).Resp s p m Y ↔ sys.Resp s Y := by
  constructor
  · rintro ⟨hp, hm, h⟩
    simpa using h
  · intro h
    exact ⟨rfl, rfl, by simpa using h⟩

theorem Resp.dims {G : DSS K} {s : K} {p m : Nat} {Y : Matrix (Fin p) (Fin m) K}
    (h : G.Resp s p m Y) : G.p = p ∧ G.m = m := ⟨h.1, h.2.1⟩

/-- a timebase is compatible with itself. -/
theorem common_self (d : Dt) : common d d = .ok d := by
  cases d with
  | disc h =>
    have : close h h = true := by
      unfold close
      simp only [sub_self, lt_self_iff_false, if_false, decide_eq_true_eq]
      split <;> nlinarith
    simp [common, Dt.num, this]
  | cont => simp [common, Dt.num, close]
  | none => rfl
  | dtrue => rfl

/-! ### values of the run-time algebra -/

theorem bc_one_one (y : Matrix (Fin 1) (Fin 1) K) : bc 1 1 y = y := by
  ext i j
  have hi : i = 0 := Subsingleton.elim _ _
  have hj : j = 0 := Subsingleton.elim _ _
  simp [bc, hi, hj]

theorem one_by_one_eq_smul (y : Matrix (Fin 1) (Fin 1) K) : y = y 0 0 • (1 : Matrix (Fin 1) (Fin 1) K) := by
  ext i j
  have hi : i = 0 := Subsingleton.elim _ _
  have hj : j = 0 := Subsingleton.elim _ _
  simp [hi, hj]

theorem bdiag_smul_one (c : K) (k : Nat) :
    bdiag (c • (1 : Matrix (Fin k) (Fin k) K)) (c • (1 : Matrix (Fin 1) (Fin 1) K))
      = c • (1 : Matrix (Fin (k + 1)) (Fin (k + 1)) K) := by
  unfold bdiag
  have : fromBlocks (c • (1 : Matrix (Fin k) (Fin k) K)) 0 0 (c • (1 : Matrix (Fin 1) (Fin 1) K))
      = c • (1 : Matrix (Fin k ⊕ Fin 1) (Fin k ⊕ Fin 1) K) := by
    rw [← fromBlocks_one, fromBlocks_smul]; simp
  rw [this]
  ext i j
  simp [Matrix.one_apply]

theorem bdiag_eq_flatMat {p p' m m' : Nat} (Y : Matrix (Fin p) (Fin m) K)
    (Y' : Matrix (Fin p') (Fin m') K) : bdiag Y Y' = flatMat (fromBlocks Y 0 0 Y') := rfl

theorem flatMat_submatrix {a b c d : Nat} (M : Matrix (Fin a ⊕ Fin b) (Fin c ⊕ Fin d) K) :
    (flatMat M).submatrix finSumFinEquiv finSumFinEquiv = M := by
  ext i j; simp [flatMat]

/-! ### unfolding the `do`-blocks of `Model/SSDyn.lean` -/

theorem append_eq (G H : DSS K) : G.append H =
    (common G.dt H.dt).bind fun dt =>
      .ok ⟨G.n + H.n, G.p + H.p, G.m + H.m, (SS.append G.sys H.sys).flatS.flatIO, dt⟩ := rfl

theorem appendN_succ (g : DSS K) (k : Nat) (hk : k ≠ 0) :
    appendN g (k + 1) = (appendN g k).bind fun a => a.append g := by
  cases k with
  | zero => exact absurd rfl hk
  | succ k => rfl

/-- for `k ≥ 1` the broadcast succeeds; states / outputs / inputs are `k` times those of `g`. -/
theorem appendN_ok (g : DSS K) : ∀ k : Nat, k ≠ 0 →
    ∃ R, appendN g k = .ok R ∧ R.n = k * g.n ∧ R.p = k * g.p ∧ R.m = k * g.m ∧ R.dt = g.dt
  | 0, h => absurd rfl h
  | 1, _ => ⟨g, rfl, by simp, by simp, by simp, rfl⟩
  | k + 2, _ => by
    obtain ⟨a, ha, hn, hp, hm, hdt⟩ := appendN_ok g (k + 1) (by omega)
    rw [appendN_succ g (k + 1) (by omega), ha]
    simp only [Except.bind, append_eq, hdt, common_self]
    exact ⟨_, rfl, by simp [hn]; ring, by simp [hp]; ring, by simp [hm]; ring, rfl⟩

/-- `self * M` once `self` has been broadcast. -/
def mulArrayCore (G : DSS K) (q r : Nat) (M : Matrix (Fin q) (Fin r) K) : Except Err (DSS K) :=
  if h : G.m = q then .ok ⟨G.n, G.p, r, (G.sys.castIO rfl h).mulConst M, G.dt⟩ else .error .shape

theorem mulArray_eq (G : DSS K) (q r : Nat) (M : Matrix (Fin q) (Fin r) K) :
    G.mulArray q r M = (if G.isSiso then appendN G q else .ok G).bind fun G' =>
      mulArrayCore G' q r M := by
  unfold mulArray; split <;> rfl

/-- `M * self` once `self` has been broadcast. -/
def rmulArrayCore (G : DSS K) (q r : Nat) (M : Matrix (Fin q) (Fin r) K) : Except Err (DSS K) :=
  if h : G.p = r then .ok ⟨G.n, q, G.m, SS.constMul M (G.sys.castIO h rfl), G.dt⟩ else .error .shape

theorem rmulArray_eq (G : DSS K) (q r : Nat) (M : Matrix (Fin q) (Fin r) K) :
    G.rmulArray q r M = (if G.isSiso then appendN G r else .ok G).bind fun G' =>
      rmulArrayCore G' q r M := by
  unfold rmulArray; split <;> rfl

/-- `__mul__` of two systems once SISO operands have been broadcast. -/
def mulCore (G H : DSS K) : Except Err (DSS K) :=
  if h : G.m = H.p then
    (common G.dt H.dt).bind fun dt =>
      .ok ⟨H.n + G.n, G.p, H.m, (SS.mul G.sys (H.sys.castIO h.symm rfl)).flatS, dt⟩
  else .error .shape

theorem mulSS_eq (G H : DSS K) : mulSS G H =
    (if G.isSiso && !H.isSiso then appendN G H.p else .ok G).bind fun G' =>
    (if !G.isSiso && H.isSiso then appendN H G.m else .ok H).bind fun H' => mulCore G' H' := by
  unfold mulSS; split <;> split <;> rfl

theorem rmulSS_eq (self other : DSS K) : rmulSS self other =
    (if self.isSiso && !other.isSiso then appendN self other.m else .ok self).bind fun self' =>
    (if !self.isSiso && other.isSiso then appendN other self.p else .ok other).bind fun other' =>
      mulSS other' self' := by
  unfold rmulSS; split <;> split <;> rfl

/-- `__add__` of two systems once SISO operands have been broadcast. -/
def addCore (G H : DSS K) : Except Err (DSS K) :=
  if h : G.m = H.m ∧ G.p = H.p then
    (common G.dt H.dt).bind fun dt =>
      .ok ⟨G.n + H.n, G.p, G.m, (SS.add G.sys (H.sys.castIO h.2.symm h.1.symm)).flatS, dt⟩
  else .error .shape

theorem addSS_eq (G H : DSS K) : addSS G H =
    (if G.isSiso && !H.isSiso then onesTimes H.p H.m G else .ok G).bind fun G' =>
    (if !G.isSiso && H.isSiso then onesTimes G.p G.m H else .ok H).bind fun H' => addCore G' H' := by
  unfold addSS; split <;> split <;> rfl

/-- `self + M` once `self` has been broadcast. -/
def addArrayCore (G : DSS K) (q r : Nat) (M : Matrix (Fin q) (Fin r) K) : Except Err (DSS K) :=
  if h : G.p = q ∧ G.m = r then
    .ok { G with sys := G.sys.addConst (M.submatrix (Fin.cast h.1) (Fin.cast h.2)) }
  else .error .shape

theorem addArray_eq (G : DSS K) (q r : Nat) (M : Matrix (Fin q) (Fin r) K) :
    G.addArray q r M = (if G.isSiso then onesTimes q r G else .ok G).bind fun G' =>
      addArrayCore G' q r M := by
  unfold addArray; split <;> rfl

theorem powNat_succ (G : DSS K) (k : Nat) (hk : k ≠ 0) :
    powNat G (k + 1) = (powNat G k).bind fun r => mulSS G r := by
  cases k with
  | zero => exact absurd rfl hk
  | succ k => rfl

theorem isSiso_iff (G : DSS K) : G.isSiso = true ↔ G.p = 1 ∧ G.m = 1 := by
  simp [isSiso]


/-! ### the operand dispatch `DSS.binop` -/

section dispatch
variable [DecidableEq K]

/-- the operator of the left system … -/
def entryL (op : SSOp) (G : DSS K) (x : SOperand K) : Except Err (DSS K) :=
  match op with
  | .add => G.add x
  | .sub => G.sub x
  | .mul => G.mul x
  | .div => G.truediv x
  | .append => G.append (toSys x)

/-- … else the reflected operator of the right system (`x` is the left operand). -/
def entryR (op : SSOp) (G : DSS K) (x : SOperand K) : Except Err (DSS K) :=
  match op with
  | .add => G.add x
  | .sub => G.rsub x
  | .mul => G.rmul x
  | .div => G.rtruediv x
  | .append => (toSys x).append G

/-- `binop` dispatches on the left operand if it is a system, else on the right one; it is
undefined when neither is a system (except for `append`, which converts both). -/
theorem binop_cases {op : SSOp} {a b : SOperand K} {r : Except Err (SOperand K)}
    (h : binop op a b = some r) :
    (∃ G, a = .sys G ∧ r = (entryL op G b).map SOperand.sys) ∨
    (∃ G, a.kind ≠ .sys ∧ b = .sys G ∧ r = (entryR op G a).map SOperand.sys) ∨
    (op = .append ∧ a.kind ≠ .sys ∧ b.kind ≠ .sys ∧
      r = ((toSys a).append (toSys b)).map SOperand.sys) := by
  cases op <;> cases a <;> cases b <;>
    simp_all [binop, entryL, entryR, SOperand.kind, toSys, eq_comm]

theorem map_sys_ok {r' : Except Err (DSS K)} {r : SOperand K}
    (h : r'.map SOperand.sys = .ok r) : ∃ R, r' = .ok R ∧ r = .sys R := by
  cases r' with
  | error e => cases h
  | ok R => exact ⟨R, rfl, by simpa [Except.map] using h.symm⟩

theorem map_sys_error {r' : Except Err (DSS K)} {e : Err}
    (h : r'.map SOperand.sys = .error e) : r' = .error e := by
  cases r' with
  | error e' => simpa [Except.map] using h
  | ok R => cases h

end dispatch

section det
variable [DecidableEq K]

theorem cast_eq_id {n : Nat} (h : n = n) : (Fin.cast h : Fin n → Fin n) = id := rfl

theorem inv_eq (G : DSS K) : G.inv =
    if h : G.m = G.p then
      (if (sqD G h).det = 0 then .error .illPosed
       else .ok ⟨G.n, G.m, G.p, G.sys.inv ((SS.invQ (sqD G h)).submatrix (Fin.cast h) id), G.dt⟩)
    else .error .notImplemented := rfl

theorem feedbackSS_eq (G H : DSS K) (sign : K) : feedbackSS G H sign =
    if h : G.m = H.p ∧ G.p = H.m then
      (common G.dt H.dt).bind fun dt =>
        if (fbF G H h sign).det = 0 then .error .illPosed
        else .ok ⟨G.n + H.n, G.p, G.m,
          (SS.feedback G.sys (H.sys.castIO h.1.symm h.2.symm) sign (SS.invQ (fbF G H h sign))).flatS, dt⟩
    else .error .shape := by
  unfold feedbackSS
  split
  · rfl
  · rfl

end det

end DSS

end CtrlVerif
