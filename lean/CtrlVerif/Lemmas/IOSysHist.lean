/-
Helper lemmas about the parameter state of I/O-system objects (`Model/IOSysHist.lean`).
-/
import CtrlVerif.Model.IOSysHist

namespace CtrlVerif

namespace ParamEnv

theorem Same.refl (a : ParamEnv) : Same a a := fun _ => rfl

theorem Same.symm {a b : ParamEnv} (h : Same a b) : Same b a := fun k => (h k).symm

theorem Same.trans {a b c : ParamEnv} (h₁ : Same a b) (h₂ : Same b c) : Same a c :=
  fun k => (h₁ k).trans (h₂ k)

theorem Same.append {a a' b b' : ParamEnv} (h₁ : Same a a') (h₂ : Same b b') :
    Same (a ++ b) (a' ++ b') := by
  intro k
  simp only [List.lookup_append, h₁ k, h₂ k]

/-- updating twice with the same dictionary is updating once. -/
theorem same_append_dup (a b : ParamEnv) : Same (a ++ b ++ b) (a ++ b) := by
  intro k
  simp only [List.lookup_append]
  cases a.lookup k <;> cases b.lookup k <;> rfl

end ParamEnv

open ParamEnv

/-- the callables see a dictionary only through its entries. -/
theorem evalVar_congr {e e' : ParamEnv} (h : Same e e') {n m : Nat} (t : Q) (x : Fin n → Q)
    (u : Fin m → Q) : evalVar e t x u = evalVar e' t x u := by
  funext v
  cases v with
  | p s => simp only [evalVar, h s]
  | _ => rfl

theorem polySys_congr {e e' : ParamEnv} (h : Same e e') (n m p : Nat) (fs : List PPoly)
    (hs : Option (List PPoly)) : polySys n m p fs hs e = polySys n m p fs hs e' := by
  have hp : ∀ {n m : Nat} (t : Q) (x : Fin n → Q) (u : Fin m → Q),
      evalPoly e t x u = evalPoly e' t x u := by
    intro n m t x u
    funext q
    simp only [evalPoly, evalTerm, evalVar_congr h]
  simp only [polySys, hp]

namespace PObj

mutual
theorem params_forget : ∀ o : PObj, o.forget.params = o.params
  | leaf _ _ _ => rfl
  | node _ _ => rfl
end

mutual
theorem forget_update : ∀ (o : PObj) (env : ParamEnv), (o.update env).forget = o.forget
  | leaf _ _ _, _ => rfl
  | node ps subs, env => by
    simp only [update, forget, forgetSubs_updateSubs subs (env ++ ps)]
theorem forgetSubs_updateSubs : ∀ (l : PObjs) (pre : ParamEnv),
    forgetSubs (updateSubs l pre) = forgetSubs l
  | .nil, _ => rfl
  | .cons s rest, pre => by
    simp only [updateSubs, forgetSubs, forget_update s, forgetSubs_updateSubs rest pre]
end

mutual
/-- `_update_params` does not read `_current_params`. -/
theorem update_congr : ∀ (o o' : PObj) (env : ParamEnv), o.forget = o'.forget →
    o.update env = o'.update env
  | leaf ps d c, leaf ps' d' c', env, h => by
    simp only [forget, leaf.injEq] at h
    obtain ⟨rfl, rfl, -⟩ := h
    rfl
  | leaf _ _ _, node _ _, _, h => by simp [forget] at h
  | node _ _, leaf _ _ _, _, h => by simp [forget] at h
  | node ps subs, node ps' subs', env, h => by
    simp only [forget, node.injEq] at h
    obtain ⟨rfl, h⟩ := h
    simp only [update, updateSubs_congr subs subs' (env ++ ps) h]
theorem updateSubs_congr : ∀ (l l' : PObjs) (pre : ParamEnv), forgetSubs l = forgetSubs l' →
    updateSubs l pre = updateSubs l' pre
  | .nil, .nil, _, _ => rfl
  | .nil, .cons _ _, _, h => by simp [forgetSubs] at h
  | .cons _ _, .nil, _, h => by simp [forgetSubs] at h
  | .cons s rest, .cons s' rest', pre, h => by
    simp only [forgetSubs, PObjs.cons.injEq] at h
    obtain ⟨hs, hr⟩ := h
    have hp : s.params = s'.params := by rw [← params_forget s, hs, params_forget]
    simp only [updateSubs, hp, update_congr s s' _ hs, updateSubs_congr rest rest' pre hr]
end

mutual
theorem forget_callAt : ∀ (o : PObj) (path : List Nat) (env : ParamEnv),
    (o.callAt path env).forget = o.forget
  | o, [], env => by
    cases o <;> simp only [callAt, forget_update]
  | leaf _ _ _, _ :: _, _ => rfl
  | node ps subs, i :: path, env => by
    simp only [callAt, forget, forgetSubs_callAtSubs subs i path env]
theorem forgetSubs_callAtSubs : ∀ (l : PObjs) (i : Nat) (path : List Nat) (env : ParamEnv),
    forgetSubs (callAtSubs l i path env) = forgetSubs l
  | .nil, _, _, _ => rfl
  | .cons s rest, 0, path, env => by
    simp only [callAtSubs, forgetSubs, forget_callAt s path env]
  | .cons s rest, i + 1, path, env => by
    simp only [callAtSubs, forgetSubs, forgetSubs_callAtSubs rest i path env]
end

theorem forget_runHist (o : PObj) (h : List (List Nat × ParamEnv)) :
    (o.runHist h).forget = o.forget := by
  induction h generalizing o with
  | nil => rfl
  | cons c rest ih =>
    obtain ⟨path, env⟩ := c
    simp only [runHist, ih, forget_callAt]

mutual
theorem sub_callAt : ∀ (o : PObj) (path : List Nat) (env : ParamEnv),
    (o.callAt path env).sub path = (o.sub path).map (fun s => s.update env)
  | o, [], env => by cases o <;> simp [callAt, sub]
  | leaf _ _ _, _ :: _, _ => by simp [callAt, sub]
  | node ps subs, i :: path, env => by
    simp only [callAt, sub, subSubs_callAtSubs subs i path env]
theorem subSubs_callAtSubs : ∀ (l : PObjs) (i : Nat) (path : List Nat) (env : ParamEnv),
    subSubs (callAtSubs l i path env) i path = (subSubs l i path).map (fun s => s.update env)
  | .nil, _, _, _ => by simp [callAtSubs, subSubs]
  | .cons s rest, 0, path, env => by simp only [callAtSubs, subSubs, sub_callAt s path env]
  | .cons s rest, i + 1, path, env => by
    simp only [callAtSubs, subSubs, subSubs_callAtSubs rest i path env]
end

mutual
theorem sub_forget : ∀ (o : PObj) (path : List Nat),
    o.forget.sub path = (o.sub path).map forget
  | o, [] => by cases o <;> simp [sub]
  | leaf _ _ _, _ :: _ => by simp [forget, sub]
  | node ps subs, i :: path => by simp only [forget, sub, subSubs_forgetSubs subs i path]
theorem subSubs_forgetSubs : ∀ (l : PObjs) (i : Nat) (path : List Nat),
    subSubs (forgetSubs l) i path = (subSubs l i path).map forget
  | .nil, _, _ => by simp [forgetSubs, subSubs]
  | .cons s rest, 0, path => by simp only [forgetSubs, subSubs, sub_forget s path]
  | .cons s rest, i + 1, path => by simp only [forgetSubs, subSubs, subSubs_forgetSubs rest i path]
end

/-- list-wise `Same`. -/
def SameAll : List ParamEnv → List ParamEnv → Prop
  | [], [] => True
  | a :: l, b :: l' => Same a b ∧ SameAll l l'
  | _, _ => False

theorem SameAll.append : ∀ {l₁ l₁' l₂ l₂' : List ParamEnv}, SameAll l₁ l₁' → SameAll l₂ l₂' →
    SameAll (l₁ ++ l₂) (l₁' ++ l₂')
  | [], [], _, _, _, h₂ => by simpa using h₂
  | a :: l, b :: l', _, _, h₁, h₂ => by
    simp only [List.cons_append, SameAll] at h₁ ⊢
    exact ⟨h₁.1, SameAll.append h₁.2 h₂⟩
  | [], _ :: _, _, _, h₁, _ => by simp [SameAll] at h₁
  | _ :: _, [], _, _, h₁, _ => by simp [SameAll] at h₁

mutual
/-- below an interconnection: a subsystem updated with a dictionary that already contains its own
`params` sees what the functional description gives it. -/
theorem seen_update_sub : ∀ (s : PObj) (e e' : ParamEnv), Same e (e' ++ s.params) →
    SameAll (s.update e).seen (s.chain e')
  | leaf ps d c, e, e', h => by
    simp only [update, seen, chain, SameAll, and_true]
    simp only [params] at h
    exact ((h.append (Same.refl ps)).trans (same_append_dup e' ps)).append (Same.refl d)
  | node ps subs, e, e', h => by
    simp only [update, seen, chain]
    simp only [params] at h
    exact seenSubs_updateSubs subs (e ++ ps) (e' ++ ps)
      ((h.append (Same.refl ps)).trans (same_append_dup e' ps))
theorem seenSubs_updateSubs : ∀ (l : PObjs) (pre pre' : ParamEnv), Same pre pre' →
    SameAll (seenSubs (updateSubs l pre)) (chainSubs l pre')
  | .nil, _, _, _ => by simp [updateSubs, seenSubs, chainSubs, SameAll]
  | .cons s rest, pre, pre', h => by
    simp only [updateSubs, seenSubs, chainSubs]
    exact SameAll.append (seen_update_sub s (pre ++ s.params) pre' (h.append (Same.refl _)))
      (seenSubs_updateSubs rest pre pre' h)
end

end PObj

end CtrlVerif
