/-
Lemmas about the primitives of `Model/PyTF.lean` and about counted loops over 2-D arrays of
coefficient arrays (used by `Props/C01Gen*.lean`, the proofs that the run-time layer of the C01
model equals the methods generated from the source text of control/xferfcn.py).  Not trusted: only
consequences of the definitions.  Nothing here mentions a generated file.
-/
import CtrlVerif.Model.PyTF
import CtrlVerif.Lemmas.PyArith

namespace CtrlVerif.PyTF

open CtrlVerif

/-! ## counted loops -/

/-- `for k in range(n): s = f(s, k)` when the states are known: `F k` is the state before round
`k`. -/
theorem foldlM_range_eq {σ : Type} (n : Nat) (f : σ → Int → Except Err σ) (F : Nat → σ) (s0 : σ)
    (h0 : s0 = F 0) (hstep : ∀ k, k < n → f (F k) (k : Int) = .ok (F (k + 1))) :
    List.foldlM f s0 (PyArith.range 0 (n : Int)) = .ok (F n) := by
  subst h0
  rw [PyArith.range_zero]
  have e : ((n : Int)).toNat = n := by omega
  rw [e]
  have key : ∀ m, m ≤ n →
      List.foldlM f (F 0) ((List.range m).map (fun (i : Nat) => (i : Int))) = .ok (F m) := by
    intro m
    induction m with
    | zero => intro _; rfl
    | succ m ih =>
      intro hm
      rw [List.range_succ, List.map_append, List.foldlM_append, ih (by omega)]
      simp only [List.map_cons, List.map_nil, List.foldlM_cons, List.foldlM_nil, bind, Except.bind]
      rw [hstep m (by omega)]
      rfl
  exact key n le_rfl

/-- a counted loop with an invariant `I k` (the state before round `k`), followed by more code:
whatever holds of the rest for every state satisfying `I n` holds of the whole. -/
theorem foldlM_range_inv {σ : Type} (n : Nat) (f : σ → Int → Except Err σ) (I : Nat → σ → Prop)
    (s0 : σ) (h0 : I 0 s0)
    (hstep : ∀ k, k < n → ∀ s, I k s → ∃ s', f s (k : Int) = .ok s' ∧ I (k + 1) s') :
    ∃ s', List.foldlM f s0 (PyArith.range 0 (n : Int)) = .ok s' ∧ I n s' := by
  rw [PyArith.range_zero]
  have e : ((n : Int)).toNat = n := by omega
  rw [e]
  have key : ∀ m, m ≤ n →
      ∃ s', List.foldlM f s0 ((List.range m).map (fun (i : Nat) => (i : Int))) = .ok s' ∧ I m s' := by
    intro m
    induction m with
    | zero => intro _; exact ⟨s0, rfl, h0⟩
    | succ m ih =>
      intro hm
      obtain ⟨s1, h1, i1⟩ := ih (by omega)
      obtain ⟨s2, h2, i2⟩ := hstep m (by omega) s1 i1
      refine ⟨s2, ?_, i2⟩
      rw [List.range_succ, List.map_append, List.foldlM_append, h1]
      simp only [List.map_cons, List.map_nil, List.foldlM_cons, List.foldlM_nil, bind, Except.bind]
      rw [h2]
      rfl
  exact key n le_rfl

/-- `foldlM_range_inv` for a goal `loop >>= rest = r`. -/
theorem foldlM_range_inv_bind_eq {σ β : Type} (n : Nat) (f : σ → Int → Except Err σ)
    (I : Nat → σ → Prop) (s0 : σ) (k : σ → Except Err β) (r : Except Err β) (h0 : I 0 s0)
    (hstep : ∀ i, i < n → ∀ s, I i s → ∃ s', f s (i : Int) = .ok s' ∧ I (i + 1) s')
    (hk : ∀ s', I n s' → k s' = r) :
    (List.foldlM f s0 (PyArith.range 0 (n : Int)) >>= k) = r := by
  obtain ⟨s', h1, h2⟩ := foldlM_range_inv n f I s0 h0 hstep
  rw [h1]
  exact hk s' h2

/-- `foldlM_range_inv` for a goal `∃ s', loop >>= rest = .ok s' ∧ J s'` (a round of an enclosing
loop). -/
theorem foldlM_range_inv_bind_ex {σ β : Type} (n : Nat) (f : σ → Int → Except Err σ)
    (I : Nat → σ → Prop) (s0 : σ) (k : σ → Except Err β) (J : β → Prop) (h0 : I 0 s0)
    (hstep : ∀ i, i < n → ∀ s, I i s → ∃ s', f s (i : Int) = .ok s' ∧ I (i + 1) s')
    (hk : ∀ s', I n s' → ∃ b, k s' = .ok b ∧ J b) :
    ∃ b, (List.foldlM f s0 (PyArith.range 0 (n : Int)) >>= k) = .ok b ∧ J b := by
  obtain ⟨s', h1, h2⟩ := foldlM_range_inv n f I s0 h0 hstep
  rw [h1]
  exact hk s' h2

theorem getItem_set_self {α : Type} (xs : List α) {k : Nat} (hk : k < xs.length) (v : α) :
    PyArith.getItem (xs.set k v) (k : Int) = .ok v := by
  rw [PyArith.getItem_nat _ (by simpa using hk)]
  simp

/-- a loop over the items of a list when the states are known. -/
theorem foldlM_list_eq {σ α : Type} (l : List α) (f : σ → α → Except Err σ) (F : Nat → σ) (s0 : σ)
    (h0 : s0 = F 0) (hstep : ∀ k (hk : k < l.length), f (F k) l[k] = .ok (F (k + 1))) :
    List.foldlM f s0 l = .ok (F l.length) := by
  subst h0
  have key : ∀ m (hm : m ≤ l.length), List.foldlM f (F 0) (l.take m) = .ok (F m) := by
    intro m
    induction m with
    | zero => intro _; rfl
    | succ m ih =>
      intro hm
      have hlt : m < l.length := by omega
      rw [List.take_succ_eq_append_getElem hlt, List.foldlM_append, ih (by omega)]
      simp only [List.foldlM_cons, List.foldlM_nil, bind, Except.bind]
      rw [hstep m hlt]
      rfl
  have := key l.length le_rfl
  rwa [List.take_length] at this

/-- a counted loop that may raise `e`: `I k` is the invariant of the states, `E k` says "round `k`
raises".  Whatever holds of the continuation for every good final state (no round raised), and of
`.error e` when some round raises, holds of the whole. -/
theorem foldlM_range_inv_err_bind {σ β : Type} (n : Nat) (f : σ → Int → Except Err σ)
    (I : Nat → σ → Prop) (E : Nat → Prop) (e : Err) (s0 : σ) (k : σ → Except Err β)
    (P : Except Err β → Prop) (h0 : I 0 s0)
    (hstep : ∀ i, i < n → ∀ s, I i s →
      (∃ s', f s (i : Int) = .ok s' ∧ I (i + 1) s' ∧ ¬ E i) ∨ (f s (i : Int) = .error e ∧ E i))
    (hok : ∀ s', I n s' → (∀ i, i < n → ¬ E i) → P (k s'))
    (herr : (∃ i, i < n ∧ E i) → P (.error e)) :
    P (List.foldlM f s0 (PyArith.range 0 (n : Int)) >>= k) := by
  rw [PyArith.range_zero]
  have e' : ((n : Int)).toNat = n := by omega
  rw [e']
  have key : ∀ m, m ≤ n →
      (∃ s', List.foldlM f s0 ((List.range m).map (fun (i : Nat) => (i : Int))) = .ok s' ∧ I m s' ∧
        ∀ i, i < m → ¬ E i) ∨
      (List.foldlM f s0 ((List.range n).map (fun (i : Nat) => (i : Int))) = .error e ∧
        ∃ i, i < n ∧ E i) := by
    intro m
    induction m with
    | zero => intro _; exact Or.inl ⟨s0, rfl, h0, fun i hi => absurd hi (Nat.not_lt_zero i)⟩
    | succ m ih =>
      intro hm
      rcases ih (by omega) with ⟨s1, h1, i1, n1⟩ | h
      · rcases hstep m (by omega) s1 i1 with ⟨s2, h2, i2, n2⟩ | ⟨h2, e2⟩
        · refine Or.inl ⟨s2, ?_, i2, ?_⟩
          · rw [List.range_succ, List.map_append, List.foldlM_append, h1]
            simp only [List.map_cons, List.map_nil, List.foldlM_cons, List.foldlM_nil, bind, Except.bind]
            rw [h2]
            rfl
          · intro i hi
            rcases Nat.lt_succ_iff_lt_or_eq.mp hi with h | h
            · exact n1 i h
            · rw [h]; exact n2
        · refine Or.inr ⟨?_, m, by omega, e2⟩
          have split : List.range n
              = List.range (m + 1) ++ (List.range (n - (m + 1))).map ((m + 1) + ·) := by
            rw [← List.range_add]
            congr 1; omega
          rw [split, List.map_append, List.foldlM_append, List.range_succ, List.map_append,
            List.foldlM_append, h1]
          simp only [List.map_cons, List.map_nil, List.foldlM_cons, List.foldlM_nil, bind, Except.bind]
          rw [h2]
      · exact Or.inr h
  rcases key n le_rfl with ⟨s', h1, h2, h3⟩ | ⟨h1, h2⟩
  · rw [h1]; exact hok s' h2 h3
  · rw [h1]; exact herr h2

/-- `foldlM_range_inv_err_bind` for a loop that is not followed by anything. -/
theorem foldlM_range_inv_err {σ : Type} (n : Nat) (f : σ → Int → Except Err σ)
    (I : Nat → σ → Prop) (E : Nat → Prop) (e : Err) (s0 : σ) (P : Except Err σ → Prop) (h0 : I 0 s0)
    (hstep : ∀ i, i < n → ∀ s, I i s →
      (∃ s', f s (i : Int) = .ok s' ∧ I (i + 1) s' ∧ ¬ E i) ∨ (f s (i : Int) = .error e ∧ E i))
    (hok : ∀ s', I n s' → (∀ i, i < n → ¬ E i) → P (.ok s'))
    (herr : (∃ i, i < n ∧ E i) → P (.error e)) :
    P (List.foldlM f s0 (PyArith.range 0 (n : Int))) := by
  have h := foldlM_range_inv_err_bind n f I E e s0 pure P h0 hstep hok herr
  have e2 : ∀ x : Except Err σ, (x >>= pure) = x := fun x => by cases x <;> rfl
  rwa [e2] at h

/-- congruence for `>>=` in `Except`. -/
theorem bind_congr' {α β : Type} {x y : Except Err α} {f g : α → Except Err β}
    (hx : x = y) (hf : ∀ a, f a = g a) : (x >>= f) = (y >>= g) := by
  subst hx
  cases x with
  | error e => rfl
  | ok a => exact hf a

theorem scale_neg_one {K : Type} [Field K] (p : List K) : scale (-1 : K) p = pneg p := by
  simp [scale, pneg]

section arr
variable {K : Type} [Field K] [DecidableEq K]

/-! ## 2-D arrays -/

theorem PolyArr.ext' {a b : PolyArr K} (hp : a.p = b.p) (hm : a.m = b.m)
    (hg : ∀ r c, a.get r c = b.get r c) : a = b := by
  cases a; cases b
  simp only at hp hm
  subst hp hm
  congr
  funext r c
  exact hg r c

/-- the array `_create_poly_array((p, m), d)` makes. -/
def newArr (p m : Nat) (d : Option (List K)) : PolyArr K :=
  ⟨p, m, fun r c => if r < p ∧ c < m then d else none⟩

@[simp] theorem newArr_p (p m : Nat) (d : Option (List K)) : (newArr p m d).p = p := rfl
@[simp] theorem newArr_m (p m : Nat) (d : Option (List K)) : (newArr p m d).m = m := rfl

theorem newArr_get (p m : Nat) (d : Option (List K)) {r c : Nat} (hr : r < p) (hc : c < m) :
    (newArr p m d).get r c = d := by simp [newArr, hr, hc]

theorem createPolyArray_nat (p m : Nat) (d : Option (List K)) :
    createPolyArray (p : Int) (m : Int) d = .ok (newArr p m d) := by
  have h : ¬ ((p : Int) < 0 ∨ (m : Int) < 0) := by omega
  simp [createPolyArray, h, newArr]

theorem PolyArr.getItem_nat (a : PolyArr K) {r c : Nat} (hr : r < a.p) (hc : c < a.m) {v : List K}
    (hv : a.get r c = some v) : a.getItem (r : Int) (c : Int) = .ok v := by
  simp [PolyArr.getItem, PyArith.normIdx_nat hr, PyArith.normIdx_nat hc, hv]

theorem PolyArr.getItem_zero (a : PolyArr K) (hr : 0 < a.p) (hc : 0 < a.m) {v : List K}
    (hv : a.get 0 0 = some v) : a.getItem 0 0 = .ok v := by
  have := PolyArr.getItem_nat a hr hc hv
  simpa using this

theorem PolyArr.getItem_zero_row_empty (a : PolyArr K) (hr : a.p = 0) : a.getItem 0 0 = .error .indexRange := by
  simp [PolyArr.getItem, PyArith.normIdx, hr]

theorem PolyArr.getItem_zero_col_empty (a : PolyArr K) (hc : a.m = 0) :
    a.getItem 0 0 = .error .indexRange := by
  unfold PolyArr.getItem
  have h2 : PyArith.normIdx a.m 0 = .error .indexRange := by simp [PyArith.normIdx, hc]
  rw [h2]
  by_cases hp : a.p = 0
  · have h1 : PyArith.normIdx a.p 0 = .error .indexRange := by simp [PyArith.normIdx, hp]
    rw [h1]
  · have h1 : PyArith.normIdx a.p 0 = .ok 0 := by
      have := PyArith.normIdx_nat (len := a.p) (i := 0) (by omega)
      simpa using this
    rw [h1]

theorem PolyArr.setItem_nat (a : PolyArr K) {r c : Nat} (hr : r < a.p) (hc : c < a.m) (v : List K) :
    a.setItem (r : Int) (c : Int) v
      = .ok ⟨a.p, a.m, fun r' c' => if r' = r ∧ c' = c then some v else a.get r' c'⟩ := by
  simp [PolyArr.setItem, PyArith.normIdx_nat hr, PyArith.normIdx_nat hc]

/-- `a` with the entry `(r, c)` replaced (what `a[r, c] = v` leaves for in-range indices). -/
def PolyArr.set (a : PolyArr K) (r c : Nat) (v : List K) : PolyArr K :=
  ⟨a.p, a.m, fun r' c' => if r' = r ∧ c' = c then some v else a.get r' c'⟩

@[simp] theorem PolyArr.set_p (a : PolyArr K) (r c : Nat) (v : List K) : (a.set r c v).p = a.p := rfl
@[simp] theorem PolyArr.set_m (a : PolyArr K) (r c : Nat) (v : List K) : (a.set r c v).m = a.m := rfl

theorem PolyArr.setItem_nat' (a : PolyArr K) {r c : Nat} (hr : r < a.p) (hc : c < a.m) (v : List K) :
    a.setItem (r : Int) (c : Int) v = .ok (a.set r c v) := PolyArr.setItem_nat a hr hc v

theorem PolyArr.set_get_self (a : PolyArr K) (r c : Nat) (v : List K) : (a.set r c v).get r c = some v := by
  simp [PolyArr.set]

theorem PolyArr.getItem_set_self (a : PolyArr K) {r c : Nat} (hr : r < a.p) (hc : c < a.m) (v : List K) :
    (a.set r c v).getItem (r : Int) (c : Int) = .ok v :=
  PolyArr.getItem_nat (a.set r c v) (by simpa using hr) (by simpa using hc) (PolyArr.set_get_self a r c v)

theorem PolyArr.set_set (a : PolyArr K) (r c : Nat) (v w : List K) :
    (a.set r c v).set r c w = a.set r c w := by
  apply PolyArr.ext'
  · rfl
  · rfl
  intro r' c'
  simp only [PolyArr.set]
  split <;> rfl

theorem PolyArr.setItem_set (a : PolyArr K) {r c : Nat} (hr : r < a.p) (hc : c < a.m) (v w : List K) :
    (a.set r c v).setItem (r : Int) (c : Int) w = .ok (a.set r c w) := by
  rw [PolyArr.setItem_nat' _ (by simpa using hr) (by simpa using hc), PolyArr.set_set]

theorem PolyArr.set_same (a : PolyArr K) (r c : Nat) (v : List K) (h : a.get r c = some v) :
    a.set r c v = a := by
  apply PolyArr.ext'
  · rfl
  · rfl
  intro r' c'
  simp only [PolyArr.set]
  split
  · rename_i h'; rw [h'.1, h'.2, h]
  · rfl

/-- the array `a` with the entries before position `(i, j)` (row-major order) replaced by `f`. -/
def fillTo (a : PolyArr K) (f : Nat → Nat → List K) (i j : Nat) : PolyArr K :=
  ⟨a.p, a.m, fun r c =>
    if (r < i ∨ (r = i ∧ c < j)) ∧ r < a.p ∧ c < a.m then some (f r c) else a.get r c⟩

@[simp] theorem fillTo_p (a : PolyArr K) (f : Nat → Nat → List K) (i j : Nat) : (fillTo a f i j).p = a.p := rfl
@[simp] theorem fillTo_m (a : PolyArr K) (f : Nat → Nat → List K) (i j : Nat) : (fillTo a f i j).m = a.m := rfl

theorem fillTo_zero (a : PolyArr K) (f : Nat → Nat → List K) : fillTo a f 0 0 = a := by
  apply PolyArr.ext'
  · rfl
  · rfl
  intro r c
  simp [fillTo]

theorem fillTo_row_end (a : PolyArr K) (f : Nat → Nat → List K) (i : Nat) :
    fillTo a f i a.m = fillTo a f (i + 1) 0 := by
  apply PolyArr.ext'
  · rfl
  · rfl
  intro r c
  simp only [fillTo]
  by_cases hc : c < a.m
  · have : (r < i ∨ r = i ∧ c < a.m) ↔ (r < i + 1 ∨ r = i + 1 ∧ c < 0) := by omega
    simp [this]
  · simp [hc]

/-- not yet reached entries are the old ones. -/
theorem fillTo_get_here (a : PolyArr K) (f : Nat → Nat → List K) (i j : Nat) :
    (fillTo a f i j).get i j = a.get i j := by
  simp [fillTo]

theorem fillTo_setItem (a : PolyArr K) (f : Nat → Nat → List K) {i j : Nat} (hi : i < a.p)
    (hj : j < a.m) : (fillTo a f i j).setItem (i : Int) (j : Int) (f i j) = .ok (fillTo a f i (j + 1)) := by
  rw [PolyArr.setItem_nat _ (by simpa using hi) (by simpa using hj)]
  congr 1
  apply PolyArr.ext'
  · rfl
  · rfl
  intro r c
  simp only [fillTo]
  by_cases h : r = i ∧ c = j
  · obtain ⟨rfl, rfl⟩ := h
    simp [hi, hj]
  · simp only [h, if_false]
    have : (r < i ∨ r = i ∧ c < j + 1) ↔ (r < i ∨ r = i ∧ c < j) := by
      constructor
      · rintro (h1 | ⟨h1, h2⟩)
        · exact Or.inl h1
        · rcases Nat.lt_succ_iff_lt_or_eq.mp h2 with h3 | h3
          · exact Or.inr ⟨h1, h3⟩
          · exact absurd ⟨h1, h3⟩ h
      · rintro (h1 | ⟨h1, h2⟩)
        · exact Or.inl h1
        · exact Or.inr ⟨h1, by omega⟩
    simp [this]

theorem fillTo_set (a : PolyArr K) (f : Nat → Nat → List K) {i j : Nat} (hi : i < a.p)
    (hj : j < a.m) : (fillTo a f i j).set i j (f i j) = fillTo a f i (j + 1) := by
  have h := fillTo_setItem a f hi hj
  rw [PolyArr.setItem_nat' _ (by simpa using hi) (by simpa using hj)] at h
  exact Except.ok.inj h

/-- entries of completed rows are the values of `f` (all rows completed: the tabulation of `f`). -/
theorem fillTo_get_done (a : PolyArr K) (f : Nat → Nat → List K) (i j r c : Nat) (hi : r < i)
    (hr : r < a.p) (hc : c < a.m) : (fillTo a f i j).get r c = some (f r c) := by
  simp [fillTo, hi, hr, hc]

/-! ## fields of a system -/

theorem entry?_lt (G : DTF K) {r c : Nat} (hr : r < G.p) (hc : c < G.m) :
    entry? G r c = some (G.sys.e ⟨r, hr⟩ ⟨c, hc⟩) := by
  simp [entry?, hr, hc]

theorem numArray_getItem (G : DTF K) {r c : Nat} (hr : r < G.p) (hc : c < G.m) :
    (numArray G).getItem (r : Int) (c : Int) = .ok (G.sys.e ⟨r, hr⟩ ⟨c, hc⟩).num :=
  PolyArr.getItem_nat _ hr hc (by simp [numArray, entry?_lt G hr hc])

theorem denArray_getItem (G : DTF K) {r c : Nat} (hr : r < G.p) (hc : c < G.m) :
    (denArray G).getItem (r : Int) (c : Int) = .ok (G.sys.e ⟨r, hr⟩ ⟨c, hc⟩).den :=
  PolyArr.getItem_nat _ hr hc (by simp [denArray, entry?_lt G hr hc])

/-! ## the constructor on tabulated arrays -/

theorem mkTF_of_get (num den : PolyArr K) (dt : Dt) (raw : Fin num.p → Fin num.m → Frac K)
    (hp : num.p = den.p) (hm : num.m = den.m)
    (hn : ∀ (i : Fin num.p) (j : Fin num.m), num.get i j = some (raw i j).num)
    (hd : ∀ (i : Fin num.p) (j : Fin num.m), den.get i j = some (raw i j).den) :
    mkTF num den dt = (do let s ← TFM.mk' raw; pure ⟨num.p, num.m, s, dt⟩) := by
  have hf : ∀ (i : Fin num.p) (j : Fin num.m), frac? num den i j = some (raw i j) := by
    intro i j
    simp [frac?, hn i j, hd i j]
  have hs : ∀ (i : Fin num.p) (j : Fin num.m), (frac? num den i j).isSome = true := by
    intro i j; rw [hf i j]; rfl
  unfold mkTF
  rw [if_pos ⟨hp, hm⟩, dif_pos hs]
  have : (fun (i : Fin num.p) (j : Fin num.m) => (frac? num den i j).get (hs i j)) = raw := by
    funext i j
    simp [hf i j]
  rw [this]

end arr

end CtrlVerif.PyTF
