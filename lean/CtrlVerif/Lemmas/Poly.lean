/-
Refinement of the coefficient-list model to Mathlib's `Polynomial K`.
-/
import CtrlVerif.Model.Poly
import Mathlib.Algebra.Polynomial.Eval.Defs
import Mathlib.Algebra.Polynomial.Degree.Lemmas
import Mathlib.Tactic.Ring

namespace CtrlVerif

open Polynomial

variable {K : Type*} [Field K]

/-- the polynomial denoted by a coefficient list (highest power first). -/
noncomputable def toPoly (p : List K) : K[X] :=
  p.foldl (fun acc c => acc * X + C c) 0

theorem toPoly_foldl (p : List K) (a : K[X]) :
    p.foldl (fun acc c => acc * X + C c) a = a * X ^ p.length + toPoly p := by
  induction p generalizing a with
  | nil => simp [toPoly]
  | cons c p ih =>
    simp only [List.foldl_cons, List.length_cons, toPoly]
    rw [ih, ih (0 * X + C c)]
    ring

@[simp] theorem toPoly_nil : toPoly ([] : List K) = 0 := rfl

theorem toPoly_cons (a : K) (p : List K) :
    toPoly (a :: p) = C a * X ^ p.length + toPoly p := by
  simp only [toPoly, List.foldl_cons]
  rw [toPoly_foldl]; simp [toPoly]

theorem toPoly_append (p q : List K) :
    toPoly (p ++ q) = toPoly p * X ^ q.length + toPoly q := by
  simp only [toPoly, List.foldl_append]
  rw [toPoly_foldl]; rfl

@[simp] theorem toPoly_replicate_zero (n : Nat) : toPoly (List.replicate n (0 : K)) = 0 := by
  induction n with
  | zero => rfl
  | succ n ih => rw [List.replicate_succ, toPoly_cons, ih]; simp

@[simp] theorem toPoly_padLeft (n : Nat) (p : List K) : toPoly (padLeft n p) = toPoly p := by
  simp [padLeft, toPoly_append]

theorem length_padLeft (n : Nat) (p : List K) : (padLeft n p).length = max n p.length := by
  simp [padLeft]; omega

theorem toPoly_zipWith_add (p q : List K) (h : p.length = q.length) :
    toPoly (List.zipWith (· + ·) p q) = toPoly p + toPoly q := by
  induction p generalizing q with
  | nil => cases q <;> simp_all
  | cons a p ih =>
    cases q with
    | nil => simp at h
    | cons b q =>
      simp only [List.length_cons, Nat.add_right_cancel_iff] at h
      simp only [List.zipWith_cons_cons, toPoly_cons, ih q h, List.length_zipWith, h,
        Nat.min_self, C_add]
      ring

theorem toPoly_polyadd (p q : List K) : toPoly (polyadd p q) = toPoly p + toPoly q := by
  unfold polyadd
  rw [toPoly_zipWith_add]
  · simp
  · simp [length_padLeft]

theorem toPoly_scale (c : K) (p : List K) : toPoly (scale c p) = C c * toPoly p := by
  induction p with
  | nil => simp [scale]
  | cons a p ih =>
    simp only [scale, List.map_cons, toPoly_cons, List.length_map, C_mul] at *
    rw [ih]; ring

theorem toPoly_pneg (p : List K) : toPoly (pneg p) = - toPoly p := by
  induction p with
  | nil => simp [pneg]
  | cons a p ih =>
    simp only [pneg, List.map_cons, toPoly_cons, List.length_map, C_neg] at *
    rw [ih]; ring

theorem toPoly_polymul_foldl (p q : List K) (acc : List K) :
    toPoly (p.foldl (fun acc c => polyadd (acc ++ [0]) (scale c q)) acc)
      = toPoly acc * X ^ p.length + toPoly p * toPoly q := by
  induction p generalizing acc with
  | nil => simp
  | cons c p ih =>
    simp only [List.foldl_cons, List.length_cons]
    rw [ih, toPoly_polyadd, toPoly_append, toPoly_scale, toPoly_cons]
    simp only [List.length_cons, List.length_nil, toPoly_cons, toPoly_nil]
    simp
    ring

theorem toPoly_polymul (p q : List K) : toPoly (polymul p q) = toPoly p * toPoly q := by
  unfold polymul
  rw [toPoly_polymul_foldl]; simp

theorem polyval_foldl [CommSemiring R] (p : List R) (a x : R) :
    p.foldl (fun acc c => acc * x + c) a = a * x ^ p.length + polyval p x := by
  induction p generalizing a with
  | nil => simp [polyval]
  | cons c p ih =>
    simp only [List.foldl_cons, List.length_cons, polyval]
    rw [ih, ih (0 * x + c)]
    ring

theorem polyval_eq_eval (p : List K) (x : K) : polyval p x = (toPoly p).eval x := by
  induction p with
  | nil => simp [polyval]
  | cons a p ih =>
    rw [toPoly_cons]
    simp only [polyval, List.foldl_cons]
    rw [polyval_foldl, ih]
    simp

/-! ### `trim`, `isZero` -/

theorem toPoly_dropWhile_zero [DecidableEq K] (p : List K) :
    toPoly (p.dropWhile (· = 0)) = toPoly p := by
  induction p with
  | nil => rfl
  | cons a p ih =>
    by_cases h : a = 0
    · subst h; simp [toPoly_cons, ih]
    · simp [h]

theorem toPoly_trim [DecidableEq K] (p : List K) : toPoly (trim p) = toPoly p := by
  unfold trim
  split
  · rename_i h
    rw [← toPoly_dropWhile_zero p, h]; simp [toPoly_cons]
  · exact toPoly_dropWhile_zero p

theorem toPoly_eq_zero_of_isZero [DecidableEq K] (p : List K) (h : isZero p = true) :
    toPoly p = 0 := by
  induction p with
  | nil => rfl
  | cons a p ih =>
    simp only [isZero, List.all_cons, Bool.and_eq_true, decide_eq_true_eq] at h
    rw [toPoly_cons, h.1]
    simp only [map_zero, zero_mul, zero_add]
    exact ih (by simpa [isZero] using h.2)

theorem toPoly_degree_lt (p : List K) : (toPoly p).degree < (p.length : WithBot ℕ) := by
  induction p with
  | nil => simp
  | cons a p ih =>
    rw [toPoly_cons]
    refine lt_of_le_of_lt (degree_add_le _ _) (max_lt ?_ ?_)
    · refine lt_of_le_of_lt (degree_C_mul_X_pow_le _ _) ?_
      exact_mod_cast Nat.lt_succ_self _
    · refine lt_trans ih ?_
      exact_mod_cast Nat.lt_succ_self _

theorem isZero_of_toPoly_eq_zero [DecidableEq K] (p : List K) (h : toPoly p = 0) :
    isZero p = true := by
  induction p with
  | nil => rfl
  | cons a p ih =>
    rw [toPoly_cons] at h
    have ha : a = 0 := by
      by_contra hne
      have h1 : (C a * X ^ p.length).degree = (p.length : WithBot ℕ) :=
        degree_C_mul_X_pow _ hne
      have h2 : (C a * X ^ p.length + toPoly p).degree = (p.length : WithBot ℕ) := by
        rw [degree_add_eq_left_of_degree_lt, h1]
        rw [h1]; exact toPoly_degree_lt p
      rw [h] at h2
      simp at h2
    subst ha
    simp only [map_zero, zero_mul, zero_add] at h
    simpa [isZero] using ih h

theorem isZero_iff [DecidableEq K] (p : List K) : isZero p = true ↔ toPoly p = 0 :=
  ⟨toPoly_eq_zero_of_isZero p, isZero_of_toPoly_eq_zero p⟩

end CtrlVerif
