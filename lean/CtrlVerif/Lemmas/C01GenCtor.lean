/-
Model-side lemmas for `Props/C01GenCtor.lean` (the core of the `TransferFunction` constructor: the
zero-denominator / zero-numerator loop of `__init__` and `_truncatecoeff`, against the model's
`TFM.mk'` / `Frac.norm` / `trim` / `isZero`).  Only consequences of the model's definitions; nothing
here mentions a generated file.
-/
import CtrlVerif.Lemmas.C01Gen

namespace CtrlVerif.C01Gen
open CtrlVerif

variable {K : Type} [Field K] [DecidableEq K]

/-- a 2-D array all of whose entries inside the shape are set. -/
def tabArr (p m : Nat) (f : Nat → Nat → List K) : PyTF.PolyArr K :=
  ⟨p, m, fun r c => if r < p ∧ c < m then some (f r c) else none⟩

@[simp] theorem tabArr_p (p m : Nat) (f : Nat → Nat → List K) : (tabArr p m f).p = p := rfl
@[simp] theorem tabArr_m (p m : Nat) (f : Nat → Nat → List K) : (tabArr p m f).m = m := rfl

theorem tabArr_get (p m : Nat) (f : Nat → Nat → List K) {r c : Nat} (hr : r < p) (hc : c < m) :
    (tabArr p m f).get r c = some (f r c) := by simp [tabArr, hr, hc]

/-- all rows filled with `g`: the tabulation of `g`. -/
theorem fillTo_tabArr_full (p m : Nat) (f g : Nat → Nat → List K) :
    PyTF.fillTo (tabArr p m f) g p 0 = tabArr p m g := by
  apply PyTF.PolyArr.ext'
  · rfl
  · rfl
  intro r c
  simp only [PyTF.fillTo, tabArr]
  by_cases h : r < p ∧ c < m
  · simp [h, h.1]
  · have : ¬ ((r < p ∨ r = p ∧ c < 0) ∧ r < p ∧ c < m) := fun h' => h h'.2
    simp [h, this]

/-- writing the value an entry already has changes nothing. -/
theorem fillTo_succ_same (a : PyTF.PolyArr K) (f : Nat → Nat → List K) {i j : Nat} (hi : i < a.p)
    (hj : j < a.m) (h : a.get i j = some (f i j)) :
    PyTF.fillTo a f i (j + 1) = PyTF.fillTo a f i j := by
  rw [← PyTF.fillTo_set a f hi hj]
  exact PyTF.PolyArr.set_same _ _ _ _ (by rw [PyTF.fillTo_get_here]; exact h)

/-! ### the scan `for k in v: if k != 0: flag = False; break` -/

theorem isZero_take_succ (v : List K) {k : Nat} (hk : k < v.length) :
    isZero (v.take (k + 1)) = (isZero (v.take k) && decide (v[k] = 0)) := by
  unfold isZero
  rw [List.take_succ_eq_append_getElem hk, List.all_append]
  simp

theorem isZero_take_zero (v : List K) : isZero (v.take 0) = true := by simp [isZero]

/-! ### the scan `for k in range(v.size): if v[k]: nonzero = k; break` and `trim` -/

/-- number of leading zeros. -/
def lz (v : List K) : Nat := (v.takeWhile (· = 0)).length

theorem lz_le (v : List K) : lz v ≤ v.length := by
  unfold lz
  exact (List.takeWhile_sublist _).length_le

theorem lz_cons (a : K) (v : List K) : lz (a :: v) = if a = 0 then lz v + 1 else 0 := by
  unfold lz
  by_cases h : a = 0 <;> simp [List.takeWhile_cons, h]

theorem getElem_lt_lz (v : List K) {k : Nat} (hk : k < lz v) (hl : k < v.length) : v[k] = 0 := by
  induction v generalizing k with
  | nil => simp at hl
  | cons a v ih =>
    rw [lz_cons] at hk
    by_cases h : a = 0
    · rw [if_pos h] at hk
      cases k with
      | zero => simpa using h
      | succ k => simpa using ih (by omega) (by simpa using hl)
    · rw [if_neg h] at hk; omega

theorem getElem_lz_ne (v : List K) (hl : lz v < v.length) : v[lz v] ≠ 0 := by
  induction v with
  | nil => simp at hl
  | cons a v ih =>
    by_cases h : a = 0
    · have e : lz (a :: v) = lz v + 1 := by rw [lz_cons, if_pos h]
      have hl' : lz v < v.length := by rw [e] at hl; simpa using hl
      simp only [e, List.getElem_cons_succ]
      exact ih hl'
    · have e : lz (a :: v) = 0 := by rw [lz_cons, if_neg h]
      simp only [e, List.getElem_cons_zero]
      exact h

theorem ne_zero_iff_lz (v : List K) {k : Nat} (hk : k ≤ lz v) (hl : k < v.length) :
    v[k] ≠ 0 ↔ lz v = k := by
  constructor
  · intro h
    by_contra hne
    exact h (getElem_lt_lz v (by omega) hl)
  · intro h
    subst h
    exact getElem_lz_ne v hl

theorem dropWhile_eq_drop_lz (v : List K) : v.dropWhile (· = 0) = v.drop (lz v) := by
  induction v with
  | nil => rfl
  | cons a v ih =>
    by_cases h : a = 0
    · rw [lz_cons, if_pos h, List.dropWhile_cons]
      simp [h, ih]
    · rw [lz_cons, if_neg h, List.dropWhile_cons]
      simp [h]

theorem trim_all_zero (v : List K) (h : lz v = v.length) : trim v = [0] := by
  unfold trim
  rw [dropWhile_eq_drop_lz, h, List.drop_length]

theorem trim_not_all_zero (v : List K) (h : lz v < v.length) : trim v = v.drop (lz v) := by
  unfold trim
  rw [dropWhile_eq_drop_lz]
  cases hd : v.drop (lz v) with
  | nil =>
    have := congrArg List.length hd
    simp at this
    omega
  | cons a l => rfl

theorem isZero_iff_lz (v : List K) : isZero v = true ↔ lz v = v.length := by
  induction v with
  | nil => simp [isZero, lz]
  | cons a v ih =>
    rw [lz_cons]
    by_cases h : a = 0
    · simp only [h, if_true, List.length_cons, Nat.add_right_cancel_iff]
      rw [← ih]
      simp [isZero]
    · simp [isZero, h]

/-- the state of the scan for the first non-zero coefficient after `k` rounds. -/
def nzState (v : List K) (k : Nat) : Option Int × Bool :=
  if lz v < k then (some (lz v : Int), true) else (none, false)

theorem sliceFrom_nat {α : Type} (xs : List α) (n : Nat) : PyTF.sliceFrom xs (n : Int) = xs.drop n := by
  have h : (0 : Int) ≤ (n : Int) := by omega
  simp [PyTF.sliceFrom, h]

/-- the constructor's per-entry normalisation, the way the source does it in two passes: `__init__`
replaces the denominator of a zero numerator by `[1]`, `_truncatecoeff` trims both. -/
theorem norm_two_pass (f : Frac K) :
    f.norm = ⟨trim f.num, trim (if isZero f.num = true then [1] else f.den)⟩ := by
  unfold Frac.norm
  by_cases h : isZero f.num = true
  · have h1 : (1 : K) ≠ 0 := one_ne_zero
    have hz : trim f.num = [0] := trim_all_zero _ ((isZero_iff_lz _).mp h)
    have h2 : trim ([1] : List K) = [1] := by simp [trim, h1]
    rw [if_pos h, if_pos h, hz, h2]
  · simp [h]

/-- `x.num_array` / `x.den_array` of an object are tabulated arrays. -/
theorem numArray_eq_tabArr (S : DTF K) : PyTF.numArray S = tabArr S.p S.m (fun r c => (entryD S r c).num) := by
  apply PyTF.PolyArr.ext'
  · rfl
  · rfl
  intro r c
  simp only [PyTF.numArray, tabArr]
  by_cases h : r < S.p ∧ c < S.m
  · simp [h, PyTF.entry?_lt S h.1 h.2, entryD_lt S h.1 h.2]
  · simp [h, PyTF.entry?]

theorem denArray_eq_tabArr (S : DTF K) : PyTF.denArray S = tabArr S.p S.m (fun r c => (entryD S r c).den) := by
  apply PyTF.PolyArr.ext'
  · rfl
  · rfl
  intro r c
  simp only [PyTF.denArray, tabArr]
  by_cases h : r < S.p ∧ c < S.m
  · simp [h, PyTF.entry?_lt S h.1 h.2, entryD_lt S h.1 h.2]
  · simp [h, PyTF.entry?]

end CtrlVerif.C01Gen
