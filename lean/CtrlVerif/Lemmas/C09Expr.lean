/-
Helper lemmas for the C09 tree theorem over run-time shapes: the relation `Spec` between a
computation of the run-time layer (`Model/FRDDyn.lean`), its grid-independent signature and its
pointwise value, and one `Spec` lemma per operator of the run-time layer.
-/
import CtrlVerif.Model.C09Expr
import CtrlVerif.Lemmas.FRD

namespace CtrlVerif.FRDTree

open CtrlVerif Matrix Polynomial

variable {K : Type} [Field K] [DecidableEq K] {n : Nat}

/-- `r` (a computation of the run-time layer on an `n`-point grid) is described by the
grid-independent computation `st` and the pointwise computations `pw k`:
* when `r` returns `R`, `st` returns the signature of `R` and every `pw k` the value of `R` at `k`;
* when `r` raises `e`, either `st` raises `e`, or some `pw k` raises `e`. -/
structure Spec (r : Except Err (DFRD K n)) (st : Except Err (Sig n))
    (pw : Fin n → Except Err (PVal K)) : Prop where
  ok : ∀ R, r = .ok R → st = .ok (sigOf R) ∧ ∀ k, pw k = .ok (pt R k)
  err : ∀ e, r = .error e → st = .error e ∨ ∃ k, pw k = .error e

namespace Spec

theorem pure (R : DFRD K n) : Spec (.ok R) (.ok (sigOf R)) (fun k => .ok (pt R k)) :=
  ⟨fun R' h => (by cases h; exact ⟨rfl, fun _ => rfl⟩), fun e h => by cases h⟩

theorem ok' {st : Except Err (Sig n)} {pw : Fin n → Except Err (PVal K)} (R : DFRD K n)
    (h1 : st = .ok (sigOf R)) (h2 : ∀ k, pw k = .ok (pt R k)) : Spec (.ok R) st pw :=
  ⟨fun R' h => (by cases h; exact ⟨h1, h2⟩), fun e h => by cases h⟩

theorem errSt {st : Except Err (Sig n)} {pw : Fin n → Except Err (PVal K)} (e : Err)
    (h : st = .error e) : Spec (.error e) st pw :=
  ⟨fun R' h' => (by cases h'), fun e' h' => by cases h'; exact Or.inl h⟩

theorem errPw {st : Except Err (Sig n)} {pw : Fin n → Except Err (PVal K)} (e : Err)
    (k : Fin n) (h : pw k = .error e) : Spec (.error e) st pw :=
  ⟨fun R' h' => (by cases h'), fun e' h' => by cases h'; exact Or.inr ⟨k, h⟩⟩

theorem congr {r r' : Except Err (DFRD K n)} {st st' : Except Err (Sig n)}
    {pw pw' : Fin n → Except Err (PVal K)} (h : Spec r st pw) (hr : r' = r) (hs : st' = st)
    (hp : ∀ k, pw' k = pw k) : Spec r' st' pw' := by
  have : pw' = pw := funext hp
  subst hr hs this
  exact h

/-- sequencing: the three computations proceed in the same order. -/
theorem bind {r : Except Err (DFRD K n)} {st : Except Err (Sig n)}
    {pw : Fin n → Except Err (PVal K)} (h : Spec r st pw)
    {f : DFRD K n → Except Err (DFRD K n)} {g : Sig n → Except Err (Sig n)}
    {c : Fin n → PVal K → Except Err (PVal K)}
    (hf : ∀ x, Spec (f x) (g (sigOf x)) (fun k => c k (pt x k))) :
    Spec (r >>= f) (st >>= g) (fun k => pw k >>= c k) := by
  cases hr : r with
  | error e =>
    rcases h.err e hr with hs | ⟨k, hk⟩
    · exact errSt e (by rw [hs]; rfl)
    · exact errPw e k (by show pw k >>= c k = _; rw [hk]; rfl)
  | ok x =>
    obtain ⟨hs, hp⟩ := h.ok x hr
    refine (hf x).congr rfl (by rw [hs]; rfl) (fun k => ?_)
    show pw k >>= c k = _
    rw [hp k]; rfl

/-- sequencing of two independent sub-computations followed by a binary operator. -/
theorem bind2 {r₁ r₂ : Except Err (DFRD K n)} {st₁ st₂ : Except Err (Sig n)}
    {pw₁ pw₂ : Fin n → Except Err (PVal K)} (h₁ : Spec r₁ st₁ pw₁) (h₂ : Spec r₂ st₂ pw₂)
    {f : DFRD K n → DFRD K n → Except Err (DFRD K n)} {g : Sig n → Sig n → Except Err (Sig n)}
    {c : Fin n → PVal K → PVal K → Except Err (PVal K)}
    (hf : ∀ x y, Spec (f x y) (g (sigOf x) (sigOf y)) (fun k => c k (pt x k) (pt y k))) :
    Spec (r₁ >>= fun x => r₂ >>= fun y => f x y) (st₁ >>= fun s => st₂ >>= fun t => g s t)
      (fun k => pw₁ k >>= fun A => pw₂ k >>= fun B => c k A B) := by
  cases hr : r₁ with
  | error e =>
    rcases h₁.err e hr with hs | ⟨k, hk⟩
    · exact errSt e (by rw [hs]; rfl)
    · exact errPw e k (by show (pw₁ k >>= fun A => pw₂ k >>= fun B => c k A B) = _; rw [hk]; rfl)
  | ok x =>
    obtain ⟨hs, hp⟩ := h₁.ok x hr
    refine (h₂.bind (f := f x) (g := g (sigOf x)) (c := fun k => c k (pt x k))
      (fun y => hf x y)).congr rfl (by rw [hs]; rfl) (fun k => ?_)
    show (pw₁ k >>= fun A => pw₂ k >>= fun B => c k A B) = _
    rw [hp k]; rfl

/-- the model raises exactly when the signature or some pointwise value does not exist. -/
theorem error_iff {r : Except Err (DFRD K n)} {st : Except Err (Sig n)}
    {pw : Fin n → Except Err (PVal K)} (h : Spec r st pw) :
    (∃ e, r = .error e) ↔ ((∃ e, st = .error e) ∨ ∃ k e, pw k = .error e) := by
  constructor
  · rintro ⟨e, he⟩
    rcases h.err e he with hs | ⟨k, hk⟩
    · exact Or.inl ⟨e, hs⟩
    · exact Or.inr ⟨k, e, hk⟩
  · intro hx
    cases hr : r with
    | error e => exact ⟨e, rfl⟩
    | ok R =>
      obtain ⟨hs, hp⟩ := h.ok R hr
      rcases hx with ⟨e, he⟩ | ⟨k, e, he⟩
      · rw [hs] at he; cases he
      · rw [hp k] at he; cases he

end Spec

/-! ### elementary facts -/

@[simp] theorem castM_rfl {p m : Nat} (M : Matrix (Fin p) (Fin m) K) : castM rfl rfl M = M := by
  ext i j; rfl

@[simp] theorem pt_isSiso (G : DFRD K n) (k : Fin n) : (pt G k).isSiso = G.isSiso := rfl
@[simp] theorem sigOf_isSiso (G : DFRD K n) : (sigOf G).isSiso = G.isSiso := rfl
@[simp] theorem pt_s00 (G : DFRD K n) (k : Fin n) : (pt G k).s00 = G.g00 k := rfl

theorem PVal.mk_congr {w : ℚ} {p m : Nat} {M M' : Matrix (Fin p) (Fin m) K} (h : M = M') :
    PVal.mk w p m M = PVal.mk w p m M' := by rw [h]

@[simp] theorem sargOf_frd (k : Fin n) (H : DFRD K n) : sargOf k (.frd n H) = .pv (pt H k) := by
  simp only [sargOf, dif_pos]; rfl

@[simp] theorem targOf_frd (H : DFRD K n) : (targOf (.frd n H) : TArg K n) = .sig (sigOf H) := by
  simp only [targOf, dif_pos]; rfl

theorem isSiso_iff (p m : Nat) : (p == 1 && m == 1) = true ↔ p = 1 ∧ m = 1 := by
  simp

/-! ### one `Spec` lemma per operator of the run-time layer -/

theorem convert_spec (E : Env K) (omega : Fin n → ℚ) (p m : Nat) (x : FOperand K) :
    Spec (DFRD.convert E omega p m x) (Sig.convert omega p m (targOf x))
      (fun k => PVal.convert E (omega k) p m (sargOf k x)) := by
  cases x with
  | frd n' H =>
    by_cases h : n' = n
    · subst h
      simp only [DFRD.convert, dif_pos, sargOf_frd, targOf_frd, Sig.convert, PVal.convert]
      by_cases hg : FRD.gridMatch omega (FRD.castN rfl H.sys).omega = true
      · rw [if_pos hg]
        have hg' : ∀ k, |omega k - (pt H k).w| < 1 / 100000000 := of_decide_eq_true hg
        refine Spec.ok' _ rfl (fun k => ?_)
        rw [if_pos (hg' k)]
        rfl
      · rw [if_neg hg]
        have : ¬ ∀ k, |omega k - (pt H k).w| < 1 / 100000000 := fun hall =>
          hg (decide_eq_true hall)
        obtain ⟨k, hk⟩ := not_forall.mp this
        exact Spec.errPw _ k (by show (if _ then _ else _) = _; rw [if_neg hk])
    · simp only [DFRD.convert, dif_neg h, targOf, Sig.convert]
      exact Spec.errSt _ rfl
  | scalar c => exact Spec.ok' _ rfl (fun k => rfl)
  | array p' m' D => exact Spec.ok' _ rfl (fun k => rfl)
  | lti L =>
    simp only [DFRD.convert, DFRD.ofLTI, targOf, sargOf, Sig.convert, PVal.convert]
    by_cases hs : ∃ k, L.singularAt (freqPoint E L.dt (omega k)) = true
    · rw [if_pos hs]
      obtain ⟨k, hk⟩ := hs
      exact Spec.errPw _ k (by show (if _ then _ else _) = _; rw [if_pos hk])
    · rw [if_neg hs]
      refine Spec.ok' _ rfl (fun k => ?_)
      rw [if_neg (fun hk => hs ⟨k, hk⟩)]
      rfl

theorem mulAligned_spec (G H : DFRD K n) :
    Spec (G.mulAligned H)
      (if G.m = H.p then .ok ⟨G.p, H.m, G.smooth && H.smooth, G.sys.omega⟩ else .error .shape)
      (fun k => if h : G.m = H.p then
          .ok ⟨G.sys.omega k, G.p, H.m, G.sys.data k * castM h.symm rfl (H.sys.data k)⟩
        else .error .shape) := by
  unfold DFRD.mulAligned
  by_cases h : G.m = H.p
  · simp only [dif_pos h, if_pos h]
    exact Spec.ok' _ rfl (fun k => rfl)
  · simp only [dif_neg h, if_neg h]
    exact Spec.errSt _ rfl

theorem mulCore_spec (G H : DFRD K n) :
    Spec (G.mulCore H) (Sig.mulCore (sigOf G) (sigOf H))
      (fun k => PVal.mulCore (pt G k) (pt H k)) := by
  unfold DFRD.mulCore Sig.mulCore PVal.mulCore
  simp only [pt_isSiso, sigOf_isSiso, pt_s00]
  rcases Bool.eq_false_or_eq_true G.isSiso with hG | hG <;>
  rcases Bool.eq_false_or_eq_true H.isSiso with hH | hH <;>
    simp only [hG, hH, Bool.false_and, Bool.true_and, Bool.not_false, Bool.not_true, Bool.and_true,
      Bool.and_false, if_true, if_false, Bool.false_eq_true]
  · exact mulAligned_spec G H
  · unfold DFRD.mulAligned
    have h0 : (G.diagOf H.p).m = H.p := rfl
    rw [dif_pos h0]
    refine Spec.ok' _ rfl (fun k => congrArg Except.ok (PVal.mk_congr ?_))
    show G.g00 k • H.sys.data k = (Matrix.diagonal fun _ : Fin H.p => G.g00 k) * castM rfl rfl (H.sys.data k)
    rw [castM_rfl]
    ext i j
    rw [Matrix.diagonal_mul, Matrix.smul_apply, smul_eq_mul]
  · unfold DFRD.mulAligned
    have h0 : G.m = (H.diagOf G.m).p := rfl
    rw [dif_pos h0]
    refine Spec.ok' _ rfl (fun k => congrArg Except.ok (PVal.mk_congr ?_))
    show H.g00 k • G.sys.data k = G.sys.data k * castM rfl rfl (Matrix.diagonal fun _ : Fin G.m => H.g00 k)
    rw [castM_rfl]
    ext i j
    rw [Matrix.mul_diagonal, Matrix.smul_apply, smul_eq_mul, mul_comm]
  · exact mulAligned_spec G H

/-- the size check and the product of `__rmul__`, after promotion. -/
def rmulAligned (self' other' : DFRD K n) (sm : Bool) : Except Err (DFRD K n) :=
  if h : other'.m = self'.p then
    .ok ⟨other'.p, self'.m, FRD.rmul self'.sys (FRD.castShape rfl h other'.sys), sm⟩
  else .error .shape

theorem rmulCore_eq (self other : DFRD K n) :
    self.rmulCore other =
      rmulAligned (if self.isSiso && !other.isSiso then self.diagOf other.m else self)
        (if !self.isSiso && other.isSiso then other.diagOf self.p else other)
        (self.smooth && other.smooth) := rfl

theorem rmulAligned_spec (G H : DFRD K n) (sm : Bool) :
    Spec (rmulAligned G H sm)
      (if H.m = G.p then .ok ⟨H.p, G.m, sm, G.sys.omega⟩ else .error .shape)
      (fun k => if h : H.m = G.p then
          .ok ⟨G.sys.omega k, H.p, G.m, castM rfl h (H.sys.data k) * G.sys.data k⟩
        else .error .shape) := by
  unfold rmulAligned
  by_cases h : H.m = G.p
  · simp only [dif_pos h, if_pos h]
    exact Spec.ok' _ rfl (fun k => rfl)
  · simp only [dif_neg h, if_neg h]
    exact Spec.errSt _ rfl

theorem rmulCore_spec (G H : DFRD K n) :
    Spec (G.rmulCore H) (Sig.rmulCore (sigOf G) (sigOf H))
      (fun k => PVal.rmulCore (pt G k) (pt H k)) := by
  rw [rmulCore_eq]
  unfold Sig.rmulCore PVal.rmulCore
  simp only [pt_isSiso, sigOf_isSiso, pt_s00]
  rcases Bool.eq_false_or_eq_true G.isSiso with hG | hG <;>
  rcases Bool.eq_false_or_eq_true H.isSiso with hH | hH <;>
    simp only [hG, hH, Bool.false_and, Bool.true_and, Bool.not_false, Bool.not_true, Bool.and_true,
      Bool.and_false, if_true, if_false, Bool.false_eq_true]
  · exact rmulAligned_spec G H _
  · unfold rmulAligned
    have h0 : H.m = (G.diagOf H.m).p := rfl
    rw [dif_pos h0]
    refine Spec.ok' _ rfl (fun k => congrArg Except.ok (PVal.mk_congr ?_))
    show G.g00 k • H.sys.data k
      = castM rfl rfl (H.sys.data k) * (Matrix.diagonal fun _ : Fin H.m => G.g00 k)
    rw [castM_rfl]
    ext i j
    rw [Matrix.mul_diagonal, Matrix.smul_apply, smul_eq_mul, mul_comm]
  · unfold rmulAligned
    have h0 : (H.diagOf G.p).m = G.p := rfl
    rw [dif_pos h0]
    refine Spec.ok' _ rfl (fun k => congrArg Except.ok (PVal.mk_congr ?_))
    show H.g00 k • G.sys.data k
      = castM rfl rfl (Matrix.diagonal fun _ : Fin G.p => H.g00 k) * G.sys.data k
    rw [castM_rfl]
    ext i j
    rw [Matrix.diagonal_mul, Matrix.smul_apply, smul_eq_mul]
  · exact rmulAligned_spec G H _

/-- the result of `np.ones((p, m)) * g` for a SISO `g` and a non-SISO shape. -/
def onesOf (p m : Nat) (g : DFRD K n) : DFRD K n :=
  ⟨p, m, FRD.rmul (g.diagOf m).sys
    (FRD.castShape rfl rfl (DFRD.constD g.sys.omega p m (Matrix.of fun _ _ => (1 : K))).sys),
    g.smooth && true⟩

theorem onesTimes_eq (p m : Nat) (g : DFRD K n) (hg : g.isSiso = true)
    (hpm : (p == 1 && m == 1) = false) : DFRD.onesTimes p m g = .ok (onesOf p m g) := by
  unfold DFRD.onesTimes
  rw [rmulCore_eq]
  have hc : (DFRD.constD g.sys.omega p m (Matrix.of fun _ _ => (1 : K))).isSiso = false := hpm
  simp only [hg, hc, Bool.not_false, Bool.not_true, Bool.and_true, Bool.false_and, if_true,
    if_false, Bool.false_eq_true, Bool.true_and]
  unfold rmulAligned
  split
  · rfl
  · exact absurd rfl ‹_›

theorem onesOf_data (p m : Nat) (g : DFRD K n) (k : Fin n) (i : Fin p) (j : Fin m) :
    (onesOf p m g).sys.data k i j = g.g00 k := by
  show ((castM rfl rfl (Matrix.of fun _ _ => (1 : K)) : Matrix (Fin p) (Fin m) K) * (Matrix.diagonal fun _ : Fin m => g.g00 k)) i j = _
  rw [castM_rfl, Matrix.mul_diagonal]
  simp

/-- the shape check and the sum of `__add__`, after promotion. -/
def addAligned (G' H' : DFRD K n) : Except Err (DFRD K n) :=
  if hm : G'.m = H'.m then
    if hp : G'.p = H'.p then
      .ok ⟨G'.p, G'.m, FRD.add G'.sys (FRD.castShape hp.symm hm.symm H'.sys), false⟩
    else .error .shape
  else .error .shape

theorem addCore_eq (G H : DFRD K n) :
    G.addCore H =
      ((if G.isSiso && !H.isSiso then DFRD.onesTimes H.p H.m G else .ok G) >>= fun G' =>
        (if !G.isSiso && H.isSiso then DFRD.onesTimes G.p G.m H else .ok H) >>= fun H' =>
          addAligned G' H') := by
  unfold DFRD.addCore addAligned
  by_cases h1 : (G.isSiso && !H.isSiso) = true <;> by_cases h2 : (!G.isSiso && H.isSiso) = true <;>
    simp only [h1, h2, if_true, if_false] <;> rfl

theorem addAligned_spec (G H : DFRD K n) :
    Spec (addAligned G H)
      (if G.p = H.p ∧ G.m = H.m then .ok ⟨G.p, G.m, false, H.sys.omega⟩ else .error .shape)
      (fun k => if h : G.p = H.p ∧ G.m = H.m then
          .ok ⟨H.sys.omega k, G.p, G.m, G.sys.data k + castM h.1.symm h.2.symm (H.sys.data k)⟩
        else .error .shape) := by
  unfold addAligned
  by_cases hm : G.m = H.m
  · by_cases hp : G.p = H.p
    · simp only [dif_pos hm, dif_pos hp, if_pos (And.intro hp hm), dif_pos (And.intro hp hm)]
      exact Spec.ok' _ rfl (fun k => rfl)
    · have : ¬ (G.p = H.p ∧ G.m = H.m) := fun h => hp h.1
      simp only [dif_pos hm, dif_neg hp, if_neg this]
      exact Spec.errSt _ rfl
  · have : ¬ (G.p = H.p ∧ G.m = H.m) := fun h => hm h.2
    simp only [dif_neg hm, if_neg this]
    exact Spec.errSt _ rfl

theorem addCore_spec (G H : DFRD K n) :
    Spec (G.addCore H) (Sig.addCore (sigOf G) (sigOf H))
      (fun k => PVal.addCore (pt G k) (pt H k)) := by
  rw [addCore_eq]
  unfold Sig.addCore PVal.addCore
  simp only [pt_isSiso, sigOf_isSiso, pt_s00]
  rcases Bool.eq_false_or_eq_true G.isSiso with hG | hG <;>
  rcases Bool.eq_false_or_eq_true H.isSiso with hH | hH <;>
    simp only [hG, hH, Bool.false_and, Bool.true_and, Bool.not_false, Bool.not_true, Bool.and_true,
      Bool.and_false, if_true, if_false, Bool.false_eq_true]
  · exact addAligned_spec G H
  · rw [onesTimes_eq H.p H.m G hG hH]
    show Spec (addAligned (onesOf H.p H.m G) H) _ _
    unfold addAligned
    have hm : (onesOf H.p H.m G).m = H.m := rfl
    have hp : (onesOf H.p H.m G).p = H.p := rfl
    rw [dif_pos hm, dif_pos hp]
    refine Spec.ok' _ rfl (fun k => congrArg Except.ok (PVal.mk_congr ?_))
    refine Matrix.ext fun (i : Fin H.p) (j : Fin H.m) => ?_
    show G.g00 k + H.sys.data k i j = (onesOf H.p H.m G).sys.data k i j + castM rfl rfl (H.sys.data k) i j
    rw [onesOf_data, castM_rfl]
  · rw [onesTimes_eq G.p G.m H hH hG]
    show Spec (addAligned G (onesOf G.p G.m H)) _ _
    unfold addAligned
    have hm : G.m = (onesOf G.p G.m H).m := rfl
    have hp : G.p = (onesOf G.p G.m H).p := rfl
    rw [dif_pos hm, dif_pos hp]
    refine Spec.ok' _ rfl (fun k => congrArg Except.ok (PVal.mk_congr ?_))
    refine Matrix.ext fun (i : Fin G.p) (j : Fin G.m) => ?_
    show G.sys.data k i j + H.g00 k = G.sys.data k i j + castM rfl rfl ((onesOf G.p G.m H).sys.data k) i j
    rw [castM_rfl, onesOf_data]
  · exact addAligned_spec G H

theorem neg_spec (G : DFRD K n) :
    Spec (.ok G.neg) (.ok (sigOf G).neg) (fun k => .ok (pt G k).neg) :=
  Spec.ok' _ rfl (fun _ => rfl)

theorem truedivCore_spec (G H : DFRD K n) :
    Spec (G.truedivCore H) (Sig.truedivCore (sigOf G) (sigOf H))
      (fun k => PVal.truedivCore (pt G k) (pt H k)) := by
  unfold DFRD.truedivCore Sig.truedivCore PVal.truedivCore
  simp only [pt_isSiso, sigOf_isSiso, pt_s00]
  rcases Bool.eq_false_or_eq_true H.isSiso with hH | hH <;>
    simp only [hH, Bool.not_true, Bool.not_false, if_true, if_false, Bool.false_eq_true]
  · unfold FRD.divSiso
    by_cases hz : ∃ k, H.g00 k = 0
    · rw [if_pos hz]
      obtain ⟨k, hk⟩ := hz
      exact Spec.errPw _ k (if_pos hk)
    · rw [if_neg hz]
      exact Spec.ok' _ rfl (fun k => (if_neg (fun hk => hz ⟨k, hk⟩)).trans rfl)
  · exact Spec.errSt _ rfl

theorem feedbackCore_spec (G H : DFRD K n) (sign : K) :
    Spec (G.feedbackCore H sign) (Sig.feedbackCore (sigOf G) (sigOf H))
      (fun k => PVal.feedbackCore (pt G k) (pt H k) sign) := by
  unfold DFRD.feedbackCore Sig.feedbackCore PVal.feedbackCore
  by_cases h : G.p = H.m ∧ G.m = H.p
  · have h' : (sigOf G).p = (sigOf H).m ∧ (sigOf G).m = (sigOf H).p := h
    have h'' : ∀ k, (pt G k).p = (pt H k).m ∧ (pt G k).m = (pt H k).p := fun _ => h
    simp only [dif_pos h, if_pos h', dif_pos (h'' _)]
    unfold FRD.feedback
    by_cases hz : ∃ k, (FRD.loopMat G.sys (FRD.castShape h.2.symm h.1.symm H.sys) sign k).det = 0
    · rw [if_pos hz]
      obtain ⟨k, hk⟩ := hz
      exact Spec.errPw _ k (if_pos hk)
    · rw [if_neg hz]
      refine Spec.ok' _ rfl (fun k => ?_)
      have hk : (FRD.loopMat G.sys (FRD.castShape h.2.symm h.1.symm H.sys) sign k).det ≠ 0 :=
        fun hk => hz ⟨k, hk⟩
      refine (if_neg hk).trans (congrArg Except.ok (PVal.mk_congr ?_))
      show G.sys.data k * (FRD.loopMat G.sys (FRD.castShape h.2.symm h.1.symm H.sys) sign k)⁻¹
        = G.sys.data k * SS.invQ (FRD.loopMat G.sys (FRD.castShape h.2.symm h.1.symm H.sys) sign k)
      rw [invQ_eq_inv _ hk]
  · have h' : ¬ ((sigOf G).p = (sigOf H).m ∧ (sigOf G).m = (sigOf H).p) := h
    simp only [dif_neg h, if_neg h']
    exact Spec.errSt _ rfl

theorem appendCore_spec (G H : DFRD K n) :
    Spec (.ok (G.appendCore H)) (.ok (Sig.appendCore (sigOf G) (sigOf H)))
      (fun k => .ok (PVal.appendCore (pt G k) (pt H k))) :=
  Spec.ok' _ rfl (fun _ => rfl)

theorem select_spec (G : DFRD K n) (rows cols : List Nat) :
    Spec (G.select rows cols) (Sig.select (sigOf G) rows cols)
      (fun k => PVal.select (pt G k) rows cols) := by
  unfold DFRD.select Sig.select PVal.select
  by_cases h : (∀ r ∈ rows, r < G.p) ∧ (∀ c ∈ cols, c < G.m)
  · have h' : (∀ r ∈ rows, r < (sigOf G).p) ∧ (∀ c ∈ cols, c < (sigOf G).m) := h
    have h'' : ∀ k, (∀ r ∈ rows, r < (pt G k).p) ∧ (∀ c ∈ cols, c < (pt G k).m) := fun _ => h
    simp only [dif_pos h, if_pos h', dif_pos (h'' _)]
    exact Spec.ok' _ rfl (fun k => rfl)
  · have h' : ¬ ((∀ r ∈ rows, r < (sigOf G).p) ∧ (∀ c ∈ cols, c < (sigOf G).m)) := h
    simp only [dif_neg h, if_neg h']
    exact Spec.errSt _ rfl

/-! ### powers: the recursion of `__pow__`, pointwise and on signatures -/

def PVal.unityLike (A : PVal K) : PVal K :=
  ⟨A.w, A.p, A.m, Matrix.of fun i j => if i.val = j.val then 1 else 0⟩

def PVal.onesLike (A : PVal K) : PVal K := ⟨A.w, A.p, A.m, Matrix.of fun _ _ => 1⟩

def PVal.powNatR (A : PVal K) : Nat → Except Err (PVal K)
  | 0 => .ok A.unityLike
  | k + 1 => PVal.powNatR A k >>= fun r => PVal.mulCore A r

def PVal.powNegNatR (A : PVal K) : Nat → Except Err (PVal K)
  | 0 => .ok A.unityLike
  | k + 1 => PVal.truedivCore A.onesLike A >>= fun i =>
      PVal.powNegNatR A k >>= fun r => PVal.mulCore i r

def Sig.onesLike (s : Sig n) : Sig n := ⟨s.p, s.m, false, s.omega⟩

def Sig.powNatR (s : Sig n) : Nat → Except Err (Sig n)
  | 0 => .ok s
  | k + 1 => Sig.powNatR s k >>= fun r => Sig.mulCore s r

def Sig.powNegNatR (s : Sig n) : Nat → Except Err (Sig n)
  | 0 => .ok s
  | k + 1 => Sig.truedivCore s.onesLike s >>= fun i =>
      Sig.powNegNatR s k >>= fun r => Sig.mulCore i r

theorem powNat_specR (G : DFRD K n) (k : Nat) :
    Spec (G.powNat k) (Sig.powNatR (sigOf G) k) (fun i => PVal.powNatR (pt G i) k) := by
  induction k with
  | zero => exact Spec.ok' _ rfl (fun _ => rfl)
  | succ k ih => exact ih.bind (fun r => mulCore_spec G r)

theorem powNegNat_specR (G : DFRD K n) (k : Nat) :
    Spec (G.powNegNat k) (Sig.powNegNatR (sigOf G) k) (fun i => PVal.powNegNatR (pt G i) k) := by
  induction k with
  | zero => exact Spec.ok' _ rfl (fun _ => rfl)
  | succ k ih =>
    exact Spec.bind2 (truedivCore_spec (DFRD.onesLike G) G) ih (fun i r => mulCore_spec i r)

theorem rectId_square (p : Nat) :
    (Matrix.of fun (i j : Fin p) => if i.val = j.val then (1 : K) else 0) = 1 := by
  ext i j
  simp [Matrix.one_apply, Fin.ext_iff]

theorem PVal.mulCore_square (w : ℚ) (p : Nat) (M N : Matrix (Fin p) (Fin p) K) :
    PVal.mulCore ⟨w, p, p, M⟩ ⟨w, p, p, N⟩ = .ok ⟨w, p, p, M * N⟩ := by
  unfold PVal.mulCore
  have h1 : (PVal.mk w p p N).isSiso = (PVal.mk w p p M).isSiso := rfl
  simp only [h1, Bool.and_not_self, Bool.not_and_self, Bool.false_eq_true, if_false, dif_pos,
    castM_rfl]

theorem PVal.powNatR_square (w : ℚ) (p : Nat) (M : Matrix (Fin p) (Fin p) K) (k : Nat) :
    PVal.powNatR ⟨w, p, p, M⟩ k = .ok ⟨w, p, p, M ^ k⟩ := by
  induction k with
  | zero =>
    show Except.ok (PVal.unityLike _) = _
    unfold PVal.unityLike
    simp only [rectId_square, pow_zero]
  | succ k ih =>
    show PVal.powNatR _ k >>= _ = _
    rw [ih]
    show PVal.mulCore _ _ = _
    rw [PVal.mulCore_square, pow_succ']

theorem PVal.powNatR_nonsquare (A : PVal K) (h : A.p ≠ A.m) (k : Nat) :
    PVal.powNatR A (k + 1) = .error .shape := by
  induction k with
  | zero =>
    show PVal.mulCore A A.unityLike = _
    have hs : A.isSiso = false := by
      rcases Bool.eq_false_or_eq_true A.isSiso with hA | hA
      · exact absurd ((isSiso_iff _ _).mp hA).1 (fun h1 => h (h1.trans ((isSiso_iff _ _).mp hA).2.symm))
      · exact hA
    have hs' : A.unityLike.isSiso = false := hs
    unfold PVal.mulCore
    simp only [hs, hs', Bool.false_and, Bool.not_false, Bool.and_false, Bool.false_eq_true, if_false]
    rw [dif_neg]
    exact fun h' => h h'.symm
  | succ k ih =>
    show PVal.powNatR A (k + 1) >>= _ = _
    rw [ih]; rfl

theorem PVal.powNatR_eq (A : PVal K) (k : Nat) : PVal.powNatR A k = A.pow (.ofNat k) := by
  cases k with
  | zero => rfl
  | succ k =>
    obtain ⟨w, p, m, M⟩ := A
    by_cases h : p = m
    · subst h
      rw [PVal.powNatR_square]
      unfold PVal.pow
      simp only [dif_pos, castM_rfl]
    · rw [PVal.powNatR_nonsquare _ h]
      unfold PVal.pow
      simp only [dif_neg h]

theorem PVal.powNegNatR_notSiso (A : PVal K) (h : A.isSiso = false) (k : Nat) :
    PVal.powNegNatR A (k + 1) = .error .notImplemented := by
  show PVal.truedivCore A.onesLike A >>= _ = _
  unfold PVal.truedivCore
  simp only [h, Bool.not_false, if_true]
  rfl

theorem PVal.powNegNatR_zero (A : PVal K) (h : A.isSiso = true) (hz : A.s00 = 0) (k : Nat) :
    PVal.powNegNatR A (k + 1) = .error .zeroDen := by
  show PVal.truedivCore A.onesLike A >>= _ = _
  unfold PVal.truedivCore
  simp only [h, Bool.not_true, Bool.false_eq_true, if_false, hz, if_true]
  rfl

theorem PVal.powNegNatR_siso (w : ℚ) (M : Matrix (Fin 1) (Fin 1) K) (hz : M 0 0 ≠ 0) (k : Nat) :
    PVal.powNegNatR ⟨w, 1, 1, M⟩ k = .ok ⟨w, 1, 1, Matrix.of fun _ _ => (M 0 0)⁻¹ ^ k⟩ := by
  induction k with
  | zero =>
    show Except.ok (PVal.unityLike _) = _
    refine congrArg Except.ok (PVal.mk_congr ?_)
    ext i j
    simp [Subsingleton.elim i j]
  | succ k ih =>
    show PVal.truedivCore (PVal.onesLike _) _ >>= (fun i => PVal.powNegNatR _ k >>= fun r => PVal.mulCore i r) = _
    rw [ih]
    have hs : (PVal.mk w 1 1 M).s00 = M 0 0 := rfl
    have ht : PVal.truedivCore (PVal.onesLike (PVal.mk w 1 1 M)) (PVal.mk w 1 1 M)
        = .ok ⟨w, 1, 1, (M 0 0)⁻¹ • (Matrix.of fun _ _ => (1 : K) : Matrix (Fin 1) (Fin 1) K)⟩ := by
      unfold PVal.truedivCore
      have : (PVal.mk w 1 1 M).isSiso = true := rfl
      simp only [this, Bool.not_true, Bool.false_eq_true, if_false, hs, if_neg hz]
      rfl
    rw [ht]
    show PVal.mulCore (PVal.mk w 1 1 ((M 0 0)⁻¹ • (Matrix.of fun _ _ => (1 : K))))
      (PVal.mk w 1 1 (Matrix.of fun _ _ => (M 0 0)⁻¹ ^ k)) = _
    rw [PVal.mulCore_square]
    refine congrArg Except.ok (PVal.mk_congr ?_)
    ext i j
    simp [Matrix.mul_apply, pow_succ']

theorem PVal.powNegNatR_eq (A : PVal K) (k : Nat) :
    PVal.powNegNatR A (k + 1) = A.pow (.negSucc k) := by
  rcases Bool.eq_false_or_eq_true A.isSiso with hA | hA
  · obtain ⟨w, p, m, M⟩ := A
    obtain ⟨hp, hm⟩ := (isSiso_iff _ _).mp hA
    subst hp hm
    have hs : (PVal.mk w 1 1 M).s00 = M 0 0 := rfl
    by_cases hz : M 0 0 = 0
    · rw [PVal.powNegNatR_zero _ hA (hs.trans hz)]
      unfold PVal.pow
      simp only [hA, Bool.not_true, Bool.false_eq_true, if_false, hs, hz, if_true]
    · rw [PVal.powNegNatR_siso w M hz]
      unfold PVal.pow
      simp only [hA, Bool.not_true, Bool.false_eq_true, if_false, hs, if_neg hz]
  · rw [PVal.powNegNatR_notSiso _ hA]
    unfold PVal.pow
    simp only [hA, Bool.not_false, if_true]

/-! signatures -/

theorem Sig.mulCore_self (s : Sig n) (h : s.p = s.m) : Sig.mulCore s s = .ok s := by
  unfold Sig.mulCore
  simp only [Bool.and_not_self, Bool.not_and_self, Bool.false_eq_true, if_false, if_pos h.symm,
    Bool.and_self]

theorem Sig.powNatR_eq (s : Sig n) (k : Nat) : Sig.powNatR s k = s.pow (.ofNat k) := by
  cases k with
  | zero => rfl
  | succ k =>
    by_cases h : s.p = s.m
    · have : ∀ k, Sig.powNatR s k = .ok s := by
        intro k
        induction k with
        | zero => rfl
        | succ k ih =>
          show Sig.powNatR s k >>= _ = _
          rw [ih]
          exact Sig.mulCore_self s h
      rw [this]
      unfold Sig.pow
      simp only [if_pos h]
    · have : ∀ k, Sig.powNatR s (k + 1) = .error .shape := by
        intro k
        induction k with
        | zero =>
          show Sig.mulCore s s = _
          have hs : s.isSiso = false := by
            rcases Bool.eq_false_or_eq_true s.isSiso with hA | hA
            · exact absurd ((isSiso_iff _ _).mp hA).1
                (fun h1 => h (h1.trans ((isSiso_iff _ _).mp hA).2.symm))
            · exact hA
          unfold Sig.mulCore
          simp only [hs, Bool.false_and, Bool.not_false, Bool.and_false, Bool.false_eq_true, if_false]
          rw [if_neg]
          exact fun h' => h h'.symm
        | succ k ih =>
          show Sig.powNatR s (k + 1) >>= _ = _
          rw [ih]; rfl
      rw [this]
      unfold Sig.pow
      simp only [if_neg h]

theorem Sig.powNegNatR_eq (s : Sig n) (k : Nat) :
    Sig.powNegNatR s (k + 1) = s.pow (.negSucc k) := by
  rcases Bool.eq_false_or_eq_true s.isSiso with hA | hA
  · obtain ⟨hp, hm⟩ := (isSiso_iff _ _).mp hA
    have h1 : Sig.truedivCore s.onesLike s = .ok s.onesLike := by
      unfold Sig.truedivCore
      simp only [hA, Bool.not_true, Bool.false_eq_true, if_false]
      rfl
    have h2 : ∀ r : Sig n, r.p = s.p → r.m = s.m → r.omega = s.omega →
        Sig.mulCore s.onesLike r = .ok s.onesLike := by
      intro r hrp hrm hro
      have hr : r.isSiso = true := by
        unfold Sig.isSiso; rw [hrp, hrm]; exact hA
      have ho : s.onesLike.isSiso = true := hA
      unfold Sig.mulCore
      simp only [hr, ho, Bool.not_true, Bool.and_false, Bool.false_and, Bool.false_eq_true, if_false]
      rw [if_pos (by show s.m = r.p; rw [hrp, hp, hm])]
      show Except.ok (Sig.mk s.p r.m (false && r.smooth) s.omega) = .ok (Sig.mk s.p s.m false s.omega)
      rw [hrm]; rfl
    have : ∀ k, Sig.powNegNatR s (k + 1) = .ok s.onesLike := by
      intro k
      induction k with
      | zero =>
        show Sig.truedivCore s.onesLike s >>= (fun i => Sig.powNegNatR s 0 >>= fun r => Sig.mulCore i r) = _
        rw [h1]
        exact h2 s rfl rfl rfl
      | succ k ih =>
        show Sig.truedivCore s.onesLike s >>= (fun i => Sig.powNegNatR s (k + 1) >>= fun r => Sig.mulCore i r) = _
        rw [h1, ih]
        exact h2 s.onesLike rfl rfl rfl
    rw [this]
    unfold Sig.pow
    simp only [hA, Bool.not_true, Bool.false_eq_true, if_false]
    rfl
  · show Sig.truedivCore s.onesLike s >>= _ = _
    unfold Sig.truedivCore Sig.pow
    simp only [hA, Bool.not_false, if_true]
    rfl

theorem pow_spec (G : DFRD K n) (k : Int) :
    Spec (G.pow k) ((sigOf G).pow k) (fun i => (pt G i).pow k) := by
  cases k with
  | ofNat k =>
    exact (powNat_specR G k).congr rfl (Sig.powNatR_eq _ k).symm
      (fun i => (PVal.powNatR_eq _ k).symm)
  | negSucc k =>
    exact (powNegNat_specR G (k + 1)).congr rfl (Sig.powNegNatR_eq _ k).symm
      (fun i => (PVal.powNegNatR_eq _ k).symm)

/-! ### the dispatching operators -/

def isScalarF : FOperand K → Bool
  | .scalar _ => true
  | _ => false

def SArg.isScalar : SArg K → Bool
  | .scalar _ => true
  | _ => false

def TArg.isScalar : TArg K n → Bool
  | .scalar _ => true
  | _ => false

theorem sargOf_isScalar (k : Fin n) (x : FOperand K) : (sargOf k x).isScalar = isScalarF x := by
  cases x with
  | frd n' H => by_cases h : n' = n <;> simp only [sargOf, dif_pos, dif_neg, h, not_false_eq_true] <;> rfl
  | _ => rfl

theorem targOf_isScalar (x : FOperand K) : (targOf x : TArg K n).isScalar = isScalarF x := by
  cases x with
  | frd n' H => by_cases h : n' = n <;> simp only [targOf, dif_pos, dif_neg, h, not_false_eq_true] <;> rfl
  | _ => rfl

theorem sargOf_neg (k : Fin n) (x : FOperand K) :
    sargOf k (DFRD.negOperand x) = (sargOf k x).neg := by
  cases x with
  | frd n' H => by_cases h : n' = n <;> simp only [DFRD.negOperand, sargOf, dif_pos, dif_neg, h, not_false_eq_true] <;> rfl
  | _ => rfl

theorem targOf_neg (x : FOperand K) :
    (targOf (DFRD.negOperand x) : TArg K n) = (targOf x).neg := by
  cases x with
  | frd n' H => by_cases h : n' = n <;> simp only [DFRD.negOperand, targOf, dif_pos, dif_neg, h, not_false_eq_true] <;> rfl
  | lti L => cases L <;> rfl
  | _ => rfl

theorem add_spec (E : Env K) (G : DFRD K n) (x : FOperand K) :
    Spec (G.add E x) (Sig.add (sigOf G) (targOf x)) (fun k => PVal.add E (pt G k) (sargOf k x)) := by
  rcases Bool.eq_false_or_eq_true (isScalarF x) with hx | hx
  · obtain ⟨c, rfl⟩ : ∃ c, x = .scalar c := by
      cases x <;> first | exact ⟨_, rfl⟩ | cases hx
    exact (convert_spec E G.sys.omega G.p G.m (.scalar c)).bind (fun H => addCore_spec G H)
  · have h1 : G.add E x = DFRD.convert E G.sys.omega 1 1 x >>= fun H => G.addCore H := by
      cases x <;> first | rfl | cases hx
    have h2 : ∀ y : TArg K n, y.isScalar = false →
        Sig.add (sigOf G) y = Sig.convert (sigOf G).omega 1 1 y >>= fun t => Sig.addCore (sigOf G) t := by
      intro y hy; cases y <;> first | rfl | cases hy
    have h3 : ∀ (A : PVal K) (y : SArg K), y.isScalar = false →
        PVal.add E A y = PVal.convert E A.w 1 1 y >>= fun B => PVal.addCore A B := by
      intro A y hy; cases y <;> first | rfl | cases hy
    exact ((convert_spec E G.sys.omega 1 1 x).bind (fun H => addCore_spec G H)).congr h1
      (h2 _ ((targOf_isScalar x).trans hx))
      (fun k => h3 _ _ ((sargOf_isScalar k x).trans hx))

theorem sub_spec (E : Env K) (G : DFRD K n) (x : FOperand K) :
    Spec (G.sub E x) (Sig.sub (sigOf G) (targOf x)) (fun k => PVal.sub E (pt G k) (sargOf k x)) :=
  (add_spec E G (DFRD.negOperand x)).congr rfl (by unfold Sig.sub; rw [targOf_neg])
    (fun k => by unfold PVal.sub; rw [sargOf_neg])

theorem rsub_spec (E : Env K) (G : DFRD K n) (x : FOperand K) :
    Spec (G.rsub E x) (Sig.rsub (sigOf G) (targOf x)) (fun k => PVal.rsub E (pt G k) (sargOf k x)) :=
  add_spec E G.neg x

theorem mul_spec (E : Env K) (G : DFRD K n) (x : FOperand K) :
    Spec (G.mul E x) (Sig.mul (sigOf G) (targOf x)) (fun k => PVal.mul E (pt G k) (sargOf k x)) := by
  rcases Bool.eq_false_or_eq_true (isScalarF x) with hx | hx
  · obtain ⟨c, rfl⟩ : ∃ c, x = .scalar c := by
      cases x <;> first | exact ⟨_, rfl⟩ | cases hx
    exact Spec.ok' _ rfl (fun k => rfl)
  · have h1 : G.mul E x = DFRD.convert E G.sys.omega 1 1 x >>= fun H => G.mulCore H := by
      cases x <;> first | rfl | cases hx
    have h2 : ∀ y : TArg K n, y.isScalar = false →
        Sig.mul (sigOf G) y = Sig.convert (sigOf G).omega 1 1 y >>= fun t => Sig.mulCore (sigOf G) t := by
      intro y hy; cases y <;> first | rfl | cases hy
    have h3 : ∀ (A : PVal K) (y : SArg K), y.isScalar = false →
        PVal.mul E A y = PVal.convert E A.w 1 1 y >>= fun B => PVal.mulCore A B := by
      intro A y hy; cases y <;> first | rfl | cases hy
    exact ((convert_spec E G.sys.omega 1 1 x).bind (fun H => mulCore_spec G H)).congr h1
      (h2 _ ((targOf_isScalar x).trans hx))
      (fun k => h3 _ _ ((sargOf_isScalar k x).trans hx))

theorem rmul_spec (E : Env K) (G : DFRD K n) (x : FOperand K) :
    Spec (G.rmul E x) (Sig.rmul (sigOf G) (targOf x)) (fun k => PVal.rmul E (pt G k) (sargOf k x)) := by
  rcases Bool.eq_false_or_eq_true (isScalarF x) with hx | hx
  · obtain ⟨c, rfl⟩ : ∃ c, x = .scalar c := by
      cases x <;> first | exact ⟨_, rfl⟩ | cases hx
    exact Spec.ok' _ rfl (fun k => rfl)
  · have h1 : G.rmul E x = DFRD.convert E G.sys.omega 1 1 x >>= fun H => G.rmulCore H := by
      cases x <;> first | rfl | cases hx
    have h2 : ∀ y : TArg K n, y.isScalar = false →
        Sig.rmul (sigOf G) y = Sig.convert (sigOf G).omega 1 1 y >>= fun t => Sig.rmulCore (sigOf G) t := by
      intro y hy; cases y <;> first | rfl | cases hy
    have h3 : ∀ (A : PVal K) (y : SArg K), y.isScalar = false →
        PVal.rmul E A y = PVal.convert E A.w 1 1 y >>= fun B => PVal.rmulCore A B := by
      intro A y hy; cases y <;> first | rfl | cases hy
    exact ((convert_spec E G.sys.omega 1 1 x).bind (fun H => rmulCore_spec G H)).congr h1
      (h2 _ ((targOf_isScalar x).trans hx))
      (fun k => h3 _ _ ((sargOf_isScalar k x).trans hx))

theorem truediv_spec (E : Env K) (G : DFRD K n) (x : FOperand K) :
    Spec (G.truediv E x) (Sig.truediv (sigOf G) (targOf x))
      (fun k => PVal.truediv E (pt G k) (sargOf k x)) := by
  rcases Bool.eq_false_or_eq_true (isScalarF x) with hx | hx
  · obtain ⟨c, rfl⟩ : ∃ c, x = .scalar c := by
      cases x <;> first | exact ⟨_, rfl⟩ | cases hx
    show Spec (if c = 0 then _ else _) (if c = 0 then _ else _) (fun k => if c = 0 then _ else _)
    by_cases hc : c = 0
    · simp only [if_pos hc]
      exact Spec.errSt _ rfl
    · simp only [if_neg hc]
      exact Spec.ok' _ rfl (fun k => rfl)
  · have h1 : G.truediv E x = DFRD.convert E G.sys.omega 1 1 x >>= fun H => G.truedivCore H := by
      cases x <;> first | rfl | cases hx
    have h2 : ∀ y : TArg K n, y.isScalar = false →
        Sig.truediv (sigOf G) y
          = Sig.convert (sigOf G).omega 1 1 y >>= fun t => Sig.truedivCore (sigOf G) t := by
      intro y hy; cases y <;> first | rfl | cases hy
    have h3 : ∀ (A : PVal K) (y : SArg K), y.isScalar = false →
        PVal.truediv E A y = PVal.convert E A.w 1 1 y >>= fun B => PVal.truedivCore A B := by
      intro A y _; cases y <;> rfl
    exact ((convert_spec E G.sys.omega 1 1 x).bind (fun H => truedivCore_spec G H)).congr h1
      (h2 _ ((targOf_isScalar x).trans hx))
      (fun k => h3 _ _ ((sargOf_isScalar k x).trans hx))

theorem rtruediv_spec (E : Env K) (G : DFRD K n) (x : FOperand K) :
    Spec (G.rtruediv E x) (Sig.rtruediv (sigOf G) (targOf x))
      (fun k => PVal.rtruediv E (pt G k) (sargOf k x)) := by
  have hcore : ∀ H : DFRD K n,
      Spec (if !G.isSiso then .error .notImplemented else H.truedivCore G)
        (if !(sigOf G).isSiso then .error .notImplemented else Sig.truedivCore (sigOf H) (sigOf G))
        (fun k => if !(pt G k).isSiso then .error .notImplemented
          else PVal.truedivCore (pt H k) (pt G k)) := by
    intro H
    simp only [pt_isSiso, sigOf_isSiso]
    rcases Bool.eq_false_or_eq_true G.isSiso with hG | hG <;>
      simp only [hG, Bool.not_true, Bool.not_false, if_true, if_false, Bool.false_eq_true]
    · exact truedivCore_spec H G
    · exact Spec.errSt _ rfl
  rcases Bool.eq_false_or_eq_true (isScalarF x) with hx | hx
  · obtain ⟨c, rfl⟩ : ∃ c, x = .scalar c := by
      cases x <;> first | exact ⟨_, rfl⟩ | cases hx
    show Spec (if !G.isSiso then _ else _) (if !(sigOf G).isSiso then _ else _)
      (fun k => if !(pt G k).isSiso then _ else _)
    simp only [pt_isSiso, sigOf_isSiso, pt_s00]
    rcases Bool.eq_false_or_eq_true G.isSiso with hG | hG <;>
      simp only [hG, Bool.not_true, Bool.not_false, if_true, if_false, Bool.false_eq_true]
    · unfold FRD.rdivScalar
      by_cases hz : ∃ k, G.g00 k = 0
      · rw [if_pos hz]
        obtain ⟨k, hk⟩ := hz
        exact Spec.errPw _ k (if_pos hk)
      · rw [if_neg hz]
        exact Spec.ok' _ rfl (fun k => (if_neg (fun hk => hz ⟨k, hk⟩)).trans rfl)
    · exact Spec.errSt _ rfl
  · have h1 : G.rtruediv E x = DFRD.convert E G.sys.omega 1 1 x >>= fun H =>
        if !G.isSiso then .error .notImplemented else H.truedivCore G := by
      cases x <;> first | rfl | cases hx
    have h2 : ∀ y : TArg K n, y.isScalar = false →
        Sig.rtruediv (sigOf G) y = Sig.convert (sigOf G).omega 1 1 y >>= fun t =>
          if !(sigOf G).isSiso then .error .notImplemented else Sig.truedivCore t (sigOf G) := by
      intro y hy; cases y <;> first | rfl | cases hy
    have h3 : ∀ (A : PVal K) (y : SArg K), y.isScalar = false →
        PVal.rtruediv E A y = PVal.convert E A.w 1 1 y >>= fun B =>
          if !A.isSiso then .error .notImplemented else PVal.truedivCore B A := by
      intro A y hy; cases y <;> first | rfl | cases hy
    exact ((convert_spec E G.sys.omega 1 1 x).bind hcore).congr h1
      (h2 _ ((targOf_isScalar x).trans hx))
      (fun k => h3 _ _ ((sargOf_isScalar k x).trans hx))

theorem feedback_spec (E : Env K) (G : DFRD K n) (x : FOperand K) (sign : K) :
    Spec (G.feedback E x sign) (Sig.feedback (sigOf G) (targOf x))
      (fun k => PVal.feedback E (pt G k) (sargOf k x) sign) :=
  (convert_spec E G.sys.omega 1 1 x).bind (fun H => feedbackCore_spec G H sign)

theorem feedbackL_spec (E : Env K) (G : DFRD K n) (x : FOperand K) (sign : K) :
    Spec (G.feedbackL E x sign) (Sig.feedbackL (sigOf G) (targOf x))
      (fun k => PVal.feedbackL E (pt G k) (sargOf k x) sign) :=
  (convert_spec E G.sys.omega 1 1 x).bind (fun H => feedbackCore_spec H G sign)

theorem append_spec (E : Env K) (G : DFRD K n) (x : FOperand K) :
    Spec (G.append E x) (Sig.append (sigOf G) (targOf x))
      (fun k => PVal.append E (pt G k) (sargOf k x)) :=
  (convert_spec E G.sys.omega 1 1 x).bind (fun H => appendCore_spec G H)

theorem opF_spec (E : Env K) (op : BinOp) (G : DFRD K n) (x : FOperand K) :
    Spec (opF E op G x) (Sig.opF op (sigOf G) (targOf x))
      (fun k => PVal.opF E op (pt G k) (sargOf k x)) := by
  cases op
  · exact add_spec E G x
  · exact sub_spec E G x
  · exact mul_spec E G x
  · exact truediv_spec E G x

theorem ropF_spec (E : Env K) (op : BinOp) (G : DFRD K n) (x : FOperand K) :
    Spec (ropF E op G x) (Sig.ropF op (sigOf G) (targOf x))
      (fun k => PVal.ropF E op (pt G k) (sargOf k x)) := by
  cases op
  · exact add_spec E G x
  · exact rsub_spec E G x
  · exact rmul_spec E G x
  · exact rtruediv_spec E G x

/-! ### `-x` on an operand is the negated value -/

theorem polyval_pneg' (p : List K) (x : K) : polyval (pneg p) x = - polyval p x := by
  rw [polyval_eq_eval, toPoly_pneg, eval_neg, ← polyval_eq_eval]

theorem LTI.singularAt_neg (L : LTI K) (s : K) : L.neg.singularAt s = L.singularAt s := by
  cases L <;> rfl

theorem PVal.convert_lti_neg (E : Env K) (w : ℚ) (p m : Nat) (L : LTI K) :
    PVal.convert E w p m (.lti L.neg) = (PVal.convert E w p m (.lti L)).map PVal.neg := by
  cases L with
  | tf p' m' e dt =>
    show (if _ then _ else _) = Except.map _ (if _ then _ else _)
    by_cases hs : (LTI.tf p' m' e dt).singularAt (freqPoint E dt w) = true
    · have hs' : (LTI.tf p' m' e dt).neg.singularAt (freqPoint E dt w) = true := by
        rw [LTI.singularAt_neg]; exact hs
      exact (if_pos hs').trans
        (congrArg (Except.map PVal.neg) (if_pos (t := Except.error Err.zeroDen) hs)).symm
    · have hs' : ¬ (LTI.tf p' m' e dt).neg.singularAt (freqPoint E dt w) = true := by
        rw [LTI.singularAt_neg]; exact hs
      refine (if_neg hs').trans (Eq.trans ?_ (congrArg (Except.map PVal.neg) (if_neg hs)).symm)
      refine congrArg Except.ok (PVal.mk_congr ?_)
      refine Matrix.ext fun (i : Fin p') (j : Fin m') => ?_
      show polyval (pneg (e i j).num) _ / polyval (e i j).den _ = - (polyval (e i j).num _ / polyval (e i j).den _)
      rw [polyval_pneg', neg_div]
      rfl
  | ss ns p' m' G dt =>
    show (if _ then _ else _) = Except.map _ (if _ then _ else _)
    by_cases hs : (LTI.ss ns p' m' G dt).singularAt (freqPoint E dt w) = true
    · have hs' : (LTI.ss ns p' m' G dt).neg.singularAt (freqPoint E dt w) = true := by
        rw [LTI.singularAt_neg]; exact hs
      exact (if_pos hs').trans
        (congrArg (Except.map PVal.neg) (if_pos (t := Except.error Err.zeroDen) hs)).symm
    · have hs' : ¬ (LTI.ss ns p' m' G dt).neg.singularAt (freqPoint E dt w) = true := by
        rw [LTI.singularAt_neg]; exact hs
      refine (if_neg hs').trans (Eq.trans ?_ (congrArg (Except.map PVal.neg) (if_neg hs)).symm)
      refine congrArg Except.ok (PVal.mk_congr ?_)
      show -G.C * (SS.invQ _ * G.B) + -G.D = -(G.C * (SS.invQ _ * G.B) + G.D)
      rw [Matrix.neg_mul]
      exact (neg_add _ _).symm

theorem PVal.convert_neg (E : Env K) (w : ℚ) (p m : Nat) (x : SArg K) :
    PVal.convert E w p m x.neg = (PVal.convert E w p m x).map PVal.neg := by
  cases x with
  | pv B =>
    show (if _ then _ else _) = Except.map _ (if _ then _ else _)
    by_cases h : |w - B.w| < 1 / 100000000
    · have h' : |w - B.neg.w| < 1 / 100000000 := h
      rw [if_pos h, if_pos h']; rfl
    · have h' : ¬ |w - B.neg.w| < 1 / 100000000 := h
      rw [if_neg h, if_neg h']; rfl
  | offgrid => rfl
  | scalar c =>
    refine congrArg Except.ok (PVal.mk_congr ?_)
    ext i j; rfl
  | array p' m' D => rfl
  | lti L => exact PVal.convert_lti_neg E w p m L

end CtrlVerif.FRDTree
