/-
Helper lemmas for the indexing model (C17): `mapM` in `Except`, Python ranges and slices,
index normalisation, name lookup, and the decomposition of `getitem`.
-/
import CtrlVerif.Model.Index
import Mathlib.Tactic.Ring
import Mathlib.Tactic.Linarith

namespace CtrlVerif.Index

open CtrlVerif

/-! ### `mapM` in `Except` -/

theorem mapM_ok_of_forall {α β : Type} (f : α → Except Err β) (g : α → β) (l : List α)
    (h : ∀ a ∈ l, f a = .ok (g a)) : l.mapM f = .ok (l.map g) := by
  induction l with
  | nil => rfl
  | cons a t ih =>
    have h1 := h a (by simp)
    have h2 := ih (fun x hx => h x (by simp [hx]))
    simp [List.mapM_cons, h1, h2]
    rfl

/-- if some element fails and every failure is the same error `e`, the whole `mapM` is `e`. -/
theorem mapM_error_of_exists {α β : Type} (f : α → Except Err β) (e : Err) (l : List α)
    (hall : ∀ a ∈ l, ∀ e', f a = .error e' → e' = e) (hex : ∃ a ∈ l, ∃ e', f a = .error e') :
    l.mapM f = .error e := by
  induction l with
  | nil => obtain ⟨a, ha, _⟩ := hex; simp at ha
  | cons a t ih =>
    cases hfa : f a with
    | error e' =>
      have := hall a (by simp) e' hfa
      subst this
      simp [List.mapM_cons, hfa]
      rfl
    | ok b =>
      have hex' : ∃ a ∈ t, ∃ e', f a = .error e' := by
        obtain ⟨x, hx, e', he'⟩ := hex
        rcases List.mem_cons.mp hx with rfl | hx'
        · rw [hfa] at he'; cases he'
        · exact ⟨x, hx', e', he'⟩
      have := ih (fun x hx => hall x (by simp [hx])) hex'
      simp [List.mapM_cons, hfa, this]
      rfl

theorem mapM_ok_inv {α β : Type} (f : α → Except Err β) (l : List α) (l' : List β)
    (h : l.mapM f = .ok l') : l'.length = l.length ∧
      ∀ (k : Nat) (h1 : k < l.length) (h2 : k < l'.length), f l[k] = .ok l'[k] := by
  induction l generalizing l' with
  | nil =>
    simp at h
    cases h
    simp
  | cons a t ih =>
    rw [List.mapM_cons] at h
    cases hfa : f a with
    | error e => rw [hfa] at h; cases h
    | ok b =>
      rw [hfa] at h
      cases ht : t.mapM f with
      | error e => rw [ht] at h; cases h
      | ok t' =>
        rw [ht] at h
        have : l' = b :: t' := by cases h; rfl
        subst this
        obtain ⟨hl, hk⟩ := ih t' ht
        refine ⟨by simp [hl], ?_⟩
        intro k h1 h2
        cases k with
        | zero => simpa using hfa
        | succ k => simpa using hk k (by simpa using h1) (by simpa using h2)

/-! ### ranges -/

theorem mem_rangeList {start step : Int} {len : Nat} {x : Int} :
    x ∈ rangeList start step len ↔ ∃ k : Nat, k < len ∧ x = start + (k : Int) * step := by
  simp only [rangeList, List.mem_map, List.mem_range]
  constructor
  · rintro ⟨k, hk, rfl⟩; exact ⟨k, hk, rfl⟩
  · rintro ⟨k, hk, rfl⟩; exact ⟨k, hk, rfl⟩

theorem length_rangeList (start step : Int) (len : Nat) :
    (rangeList start step len).length = len := by simp [rangeList]

theorem getElem_rangeList (start step : Int) (len k : Nat) (h : k < (rangeList start step len).length) :
    (rangeList start step len)[k] = start + (k : Int) * step := by
  simp [rangeList]

theorem lt_rangeLen_pos {start stop step : Int} (h : 0 < step) (k : Nat) :
    k < rangeLen start stop step ↔ start + (k : Int) * step < stop := by
  have hk : (0 : Int) ≤ (k : Int) * step := Int.mul_nonneg (Int.natCast_nonneg k) (le_of_lt h)
  unfold rangeLen
  rw [if_pos h]
  split
  · rename_i hs
    rw [Int.lt_toNat]
    have : ((k : Int) < (stop - start - 1) / step + 1) ↔ ((k : Int) ≤ (stop - start - 1) / step) := by
      omega
    rw [this, Int.le_ediv_iff_mul_le h]
    omega
  · rename_i hs
    constructor
    · intro h0; omega
    · intro h1; omega

theorem lt_rangeLen_neg {start stop step : Int} (h : step < 0) (k : Nat) :
    k < rangeLen start stop step ↔ stop < start + (k : Int) * step := by
  have hk : (k : Int) * step ≤ 0 :=
    Int.mul_nonpos_of_nonneg_of_nonpos (Int.natCast_nonneg k) (le_of_lt h)
  have hn : ¬ (0 < step) := by omega
  unfold rangeLen
  rw [if_neg hn, if_pos h]
  split
  · rename_i hs
    rw [Int.lt_toNat]
    have : ((k : Int) < (start - stop - 1) / (-step) + 1) ↔ ((k : Int) ≤ (start - stop - 1) / (-step)) := by
      omega
    rw [this, Int.le_ediv_iff_mul_le (by omega : 0 < -step)]
    have : (k : Int) * (-step) = -((k : Int) * step) := by ring
    rw [this]
    omega
  · rename_i hs
    constructor
    · intro h0; omega
    · intro h1; omega

/-- `range(start, stop, step)` for a positive step: exactly the `x` with
`start ≤ x < stop` and `x ≡ start (mod step)`. -/
theorem mem_range_pos {start stop step x : Int} (h : 0 < step) :
    x ∈ rangeList start step (rangeLen start stop step) ↔
      start ≤ x ∧ x < stop ∧ step ∣ x - start := by
  rw [mem_rangeList]
  constructor
  · rintro ⟨k, hk, rfl⟩
    have hk0 : (0 : Int) ≤ (k : Int) * step := Int.mul_nonneg (Int.natCast_nonneg k) (le_of_lt h)
    refine ⟨by omega, (lt_rangeLen_pos h k).mp hk, ⟨(k : Int), by ring⟩⟩
  · rintro ⟨h1, h2, ⟨c, hc⟩⟩
    have hc0 : 0 ≤ c := by
      by_contra hneg
      have : step * c ≤ step * (-1) := Int.mul_le_mul_of_nonneg_left (by omega) (le_of_lt h)
      omega
    refine ⟨c.toNat, ?_, ?_⟩
    · rw [lt_rangeLen_pos h, Int.toNat_of_nonneg hc0]
      have : c * step = step * c := by ring
      omega
    · rw [Int.toNat_of_nonneg hc0]
      have : c * step = step * c := by ring
      omega

/-- `range(start, stop, step)` for a negative step: the `x` with `stop < x ≤ start`,
`x ≡ start (mod step)`. -/
theorem mem_range_neg {start stop step x : Int} (h : step < 0) :
    x ∈ rangeList start step (rangeLen start stop step) ↔
      stop < x ∧ x ≤ start ∧ step ∣ x - start := by
  rw [mem_rangeList]
  constructor
  · rintro ⟨k, hk, rfl⟩
    have hk0 : (k : Int) * step ≤ 0 :=
      Int.mul_nonpos_of_nonneg_of_nonpos (Int.natCast_nonneg k) (le_of_lt h)
    refine ⟨(lt_rangeLen_neg h k).mp hk, by omega, ⟨(k : Int), by ring⟩⟩
  · rintro ⟨h1, h2, ⟨c, hc⟩⟩
    have hc0 : 0 ≤ c := by
      by_contra hneg
      have : step * (-1) ≤ step * c := Int.mul_le_mul_of_nonpos_left (le_of_lt h) (by omega)
      omega
    refine ⟨c.toNat, ?_, ?_⟩
    · rw [lt_rangeLen_neg h, Int.toNat_of_nonneg hc0]
      have : c * step = step * c := by ring
      omega
    · rw [Int.toNat_of_nonneg hc0]
      have : c * step = step * c := by ring
      omega

theorem rangeList_pairwise_lt {start step : Int} (h : 0 < step) (len : Nat) :
    (rangeList start step len).Pairwise (· < ·) := by
  unfold rangeList
  rw [List.pairwise_map]
  refine List.Pairwise.imp ?_ List.pairwise_lt_range
  intro a b hab
  have : (a : Int) * step < (b : Int) * step :=
    Int.mul_lt_mul_of_pos_right (by exact_mod_cast hab) h
  omega

theorem rangeList_pairwise_gt {start step : Int} (h : step < 0) (len : Nat) :
    (rangeList start step len).Pairwise (· > ·) := by
  unfold rangeList
  rw [List.pairwise_map]
  refine List.Pairwise.imp ?_ List.pairwise_lt_range
  intro a b hab
  have : (b : Int) * step < (a : Int) * step :=
    Int.mul_lt_mul_of_neg_right (by exact_mod_cast hab) h
  omega

/-! ### slices -/

theorem sliceIndices_zero (a b : Option Int) (n : Nat) :
    sliceIndices a b (some 0) n = .error .badArg := by
  simp [sliceIndices, stepOf]

/-- bounds of the adjusted `start`/`stop`. -/
theorem sliceIndices_ok (a b c : Option Int) (n : Nat) (hc : stepOf c ≠ 0) :
    ∃ s e, sliceIndices a b c n = .ok (s, e, stepOf c) ∧
      (0 < stepOf c → 0 ≤ s ∧ s ≤ n ∧ 0 ≤ e ∧ e ≤ n) ∧
      (stepOf c < 0 → -1 ≤ s ∧ s ≤ (n : Int) - 1 ∧ -1 ≤ e ∧ e ≤ (n : Int) - 1) := by
  refine ⟨startOf a n (decide (stepOf c < 0)), stopOf b n (decide (stepOf c < 0)), ?_, ?_, ?_⟩
  · simp [sliceIndices, hc]
  · intro hpos
    have hd : decide (stepOf c < 0) = false := by simp; omega
    rw [hd]
    cases a <;> cases b <;> simp [startOf, stopOf, clamp, lowerB, upperB] <;> omega
  · intro hneg
    have hd : decide (stepOf c < 0) = true := by simp; omega
    rw [hd]
    cases a <;> cases b <;> simp [startOf, stopOf, clamp, lowerB, upperB] <;> omega

theorem toFin_ok {n : Nat} {i : Int} (h : 0 ≤ i ∧ i < n) :
    toFin n i = .ok ⟨i.toNat, by omega⟩ := by
  simp [toFin, h]

/-- every element of the range of an adjusted slice is a valid position: a slice never raises
(except for a zero step) and never selects outside the axis. -/
theorem range_in_bounds {n : Nat} {s e st : Int}
    (hpos : 0 < st → 0 ≤ s ∧ s ≤ n ∧ 0 ≤ e ∧ e ≤ n)
    (hneg : st < 0 → -1 ≤ s ∧ s ≤ (n : Int) - 1 ∧ -1 ≤ e ∧ e ≤ (n : Int) - 1)
    (hst : st ≠ 0) : ∀ x ∈ rangeList s st (rangeLen s e st), 0 ≤ x ∧ x < n := by
  intro x hx
  rcases lt_or_gt_of_ne hst with h | h
  · have := (mem_range_neg h).mp hx
    have := hneg h
    omega
  · have := (mem_range_pos h).mp hx
    have := hpos h
    omega

theorem toFin_val {n : Nat} {i : Int} {y : Fin n} (h : toFin n i = .ok y) : (y.val : Int) = i := by
  unfold toFin at h
  split at h
  · cases h
    simp
    omega
  · cases h

theorem mapM_ok_of_forall_exists {α β : Type} (f : α → Except Err β) (l : List α)
    (h : ∀ a ∈ l, ∃ b, f a = .ok b) : ∃ l', l.mapM f = .ok l' := by
  induction l with
  | nil => exact ⟨[], rfl⟩
  | cons a t ih =>
    obtain ⟨b, hb⟩ := h a (by simp)
    obtain ⟨t', ht'⟩ := ih (fun x hx => h x (by simp [hx]))
    refine ⟨b :: t', ?_⟩
    simp [List.mapM_cons, hb, ht']
    rfl

/-- `sliceList` succeeds for every non-zero step and lists exactly `range(*slice.indices(n))`. -/
theorem sliceList_ok (a b c : Option Int) (n : Nat) (hc : stepOf c ≠ 0) :
    ∃ s e l, sliceIndices a b c n = .ok (s, e, stepOf c) ∧ sliceList a b c n = .ok l ∧
      l.map (fun i => (i.val : Int)) = rangeList s (stepOf c) (rangeLen s e (stepOf c)) := by
  obtain ⟨s, e, h1, hpos, hneg⟩ := sliceIndices_ok a b c n hc
  have hb := range_in_bounds hpos hneg hc
  obtain ⟨l, hl⟩ := mapM_ok_of_forall_exists (toFin n) _ (fun x hx => ⟨_, toFin_ok (hb x hx)⟩)
  refine ⟨s, e, l, h1, ?_, ?_⟩
  · unfold sliceList
    rw [h1]
    exact hl
  · obtain ⟨hlen, hk⟩ := mapM_ok_inv _ _ _ hl
    apply List.ext_getElem
    · simp [hlen]
    · intro k h1 h2
      simp only [List.getElem_map]
      exact toFin_val (hk k (by simpa [hlen] using h1) (by simpa using h1))

/-! ### integer indices -/

theorem normIdx_nonneg {n : Nat} {i : Int} (h : 0 ≤ i ∧ i < n) :
    normIdx n i = .ok ⟨i.toNat, by omega⟩ := by
  simp [normIdx, h]

theorem normIdx_neg {n : Nat} {i : Int} (h : -(n : Int) ≤ i ∧ i < 0) :
    normIdx n i = .ok ⟨(i + n).toNat, by omega⟩ := by
  have h0 : ¬ (0 ≤ i ∧ i < n) := by omega
  simp [normIdx, h0, h]

theorem normIdx_err {n : Nat} {i : Int} (h : i < -(n : Int) ∨ (n : Int) ≤ i) :
    normIdx n i = .error .indexRange := by
  have h0 : ¬ (0 ≤ i ∧ i < n) := by omega
  have h1 : ¬ (-(n : Int) ≤ i ∧ i < 0) := by omega
  simp [normIdx, h0, h1]

theorem normIdx_error_kind {n : Nat} {i : Int} {e : Err} (h : normIdx n i = .error e) :
    e = .indexRange := by
  unfold normIdx at h
  split at h
  · cases h
  · split at h
    · cases h
    · cases h; rfl

/-- a successful normalisation returns `i` or `i + n`, whichever lies in `0 … n-1`. -/
theorem normIdx_ok_val {n : Nat} {i : Int} {k : Fin n} (h : normIdx n i = .ok k) :
    (0 ≤ i ∧ (k.val : Int) = i) ∨ (i < 0 ∧ (k.val : Int) = i + n) := by
  unfold normIdx at h
  split at h
  · cases h; left; simp; omega
  · split at h
    · cases h; right; simp; omega
    · cases h

theorem sliceList_unit {n : Nat} (k : Fin n) :
    sliceList (some (k.val : Int)) (some ((k.val : Int) + 1)) (some 1) n = .ok [k] := by
  obtain ⟨s, e, l, h1, h2, h3⟩ :=
    sliceList_ok (some (k.val : Int)) (some ((k.val : Int) + 1)) (some 1) n (by simp [stepOf])
  have hk := k.isLt
  have hs : s = k.val ∧ e = (k.val : Int) + 1 := by
    simp [sliceIndices, stepOf, startOf, stopOf, clamp, lowerB, upperB] at h1
    omega
  obtain ⟨rfl, rfl⟩ := hs
  have hlen : rangeLen (k.val : Int) ((k.val : Int) + 1) (stepOf (some 1)) = 1 := by
    simp [rangeLen, stepOf]
  rw [hlen] at h3
  rw [h2]
  congr 1
  have h4 : l.map (fun i => (i.val : Int)) = [(k.val : Int)] := by
    rw [h3]; simp [rangeList, stepOf]
  match l, h4 with
  | [x], h4 =>
    simp at h4
    congr
    exact Fin.ext (by exact_mod_cast h4)
  | [], h4 => simp at h4
  | _ :: _ :: _, h4 => simp at h4

theorem intIdx_eq {n : Nat} (i : Int) :
    intIdx n i = (normIdx n i).map fun k => [k] := by
  unfold intIdx
  cases h : normIdx n i with
  | error e => rfl
  | ok k => simp [bind, Except.bind, Except.map, sliceList_unit]

theorem intIdx_nonneg {n : Nat} {i : Int} (h : 0 ≤ i ∧ i < n) :
    intIdx n i = .ok [⟨i.toNat, by omega⟩] := by
  rw [intIdx_eq, normIdx_nonneg h]; rfl

theorem intIdx_neg {n : Nat} {i : Int} (h : -(n : Int) ≤ i ∧ i < 0) :
    intIdx n i = .ok [⟨(i + n).toNat, by omega⟩] := by
  rw [intIdx_eq, normIdx_neg h]; rfl

theorem intIdx_err {n : Nat} {i : Int} (h : i < -(n : Int) ∨ (n : Int) ≤ i) :
    intIdx n i = .error .indexRange := by
  rw [intIdx_eq, normIdx_err h]; rfl

/-- the three list branches of `processIdx` (empty, singleton → integer, longer) are one rule:
every entry is normalised like a Python list index, in order. -/
theorem processIdx_list {n : Nat} (l : List Int) :
    processIdx n (.list l) = l.mapM (normIdx n) := by
  match l with
  | [] => rfl
  | [i] =>
    show intIdx n i = _
    rw [intIdx_eq]
    cases h : normIdx n i with
    | error e => simp [List.mapM_cons, h, Except.map]
    | ok k => simp [List.mapM_cons, h, Except.map]
  | i :: j :: t => rfl

theorem processIdx_idx {n : Nat} (i : Int) : processIdx n (.idx i) = processIdx n (.list [i]) := rfl

/-! ### names -/

theorem labelIndex_unknown {n : Nat} (labels : Fin n → String) (s : String)
    (h : ∀ i, labels i ≠ s) : labelIndex labels s = .error .unknownName := by
  unfold labelIndex
  have : (List.finRange n).find? (fun i => labels i = s) = none := by
    rw [List.find?_eq_none]
    intro x _
    simpa using h x
  rw [this]

theorem labelIndex_ok {n : Nat} {labels : Fin n → String} {s : String} {k : Int}
    (h : labelIndex labels s = .ok k) : ∃ i : Fin n, k = (i.val : Int) ∧ labels i = s := by
  unfold labelIndex at h
  cases hf : (List.finRange n).find? (fun i => labels i = s) with
  | none => rw [hf] at h; cases h
  | some i =>
    rw [hf] at h
    cases h
    exact ⟨i, rfl, by simpa using List.find?_some hf⟩

theorem labelIndex_of_injective {n : Nat} (labels : Fin n → String)
    (hinj : Function.Injective labels) (i : Fin n) :
    labelIndex labels (labels i) = .ok (i.val : Int) := by
  cases h : labelIndex labels (labels i) with
  | error e =>
    exfalso
    unfold labelIndex at h
    cases hf : (List.finRange n).find? (fun j => labels j = labels i) with
    | none =>
      rw [List.find?_eq_none] at hf
      exact hf i (List.mem_finRange i) (by simp)
    | some j => rw [hf] at h; cases h
  | ok k =>
    obtain ⟨j, rfl, hj⟩ := labelIndex_ok h
    rw [hinj hj]

/-! ### `getitem` -/

/-- one axis: names to indices, then indices to channels. -/
def resolve {n : Nat} (labels : Fin n → String) (sel : Sel) : Except Err (List (Fin n)) := do
  let k ← parseSel labels sel
  processIdx n k

/-- `getitem` returns exactly when both selectors resolve and the class constructor accepts the
sub-arrays; the result is then fully determined. -/
theorem getitem_ok_iff {P : Nat → Nat → Type} (ctor : Ctor P) (cfg : Cfg) (S : Sys P)
    (kr kc : Sel) (R : Sys P) :
    getitem ctor cfg S kr kc = .ok R ↔
      ∃ rows cols body, resolve S.outs kr = .ok rows ∧ resolve S.ins kc = .ok cols ∧
        ctor rows cols S.body = .ok body ∧
        R = { p := rows.length, m := cols.length, body := body,
              outs := fun i => S.outs (rows.get i), ins := fun j => S.ins (cols.get j),
              dt := S.dt, name := cfg.pre ++ S.name ++ cfg.suf } := by
  unfold getitem resolve
  cases h1 : parseSel S.outs kr with
  | error e => simp [bind, Except.bind]
  | ok r =>
    cases h2 : parseSel S.ins kc with
    | error e => simp [bind, Except.bind]
    | ok c =>
      cases h3 : processIdx S.p r with
      | error e => simp [bind, Except.bind, h3]
      | ok rows =>
        cases h4 : processIdx S.m c with
        | error e => simp [bind, Except.bind, h3, h4]
        | ok cols =>
          cases h5 : ctor rows cols S.body with
          | error e => simp [bind, Except.bind, h3, h4, h5]
          | ok body =>
            simp only [bind, Except.bind, h3, h4, h5, pure, Except.pure]
            constructor
            · intro h
              cases h
              exact ⟨rows, cols, body, rfl, rfl, h5, rfl⟩
            · rintro ⟨rows', cols', body', hr, hc, hb, rfl⟩
              cases hr
              cases hc
              rw [h5] at hb
              cases hb
              rfl

/-- if either selector fails to resolve, `getitem` raises (it never returns a smaller system). -/
theorem getitem_raises {P : Nat → Nat → Type} (ctor : Ctor P) (cfg : Cfg) (S : Sys P)
    (kr kc : Sel)
    (h : (∃ e, resolve S.outs kr = .error e) ∨ (∃ e, resolve S.ins kc = .error e)) :
    ∃ e, getitem ctor cfg S kr kc = .error e := by
  cases hg : getitem ctor cfg S kr kc with
  | error e => exact ⟨e, rfl⟩
  | ok R =>
    exfalso
    obtain ⟨rows, cols, body, hr, hc, _, _⟩ := (getitem_ok_iff ctor cfg S kr kc R).mp hg
    rcases h with ⟨e, he⟩ | ⟨e, he⟩
    · rw [he] at hr; cases hr
    · rw [he] at hc; cases hc

end CtrlVerif.Index
