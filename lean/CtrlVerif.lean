import CtrlVerif.Driver.All
import CtrlVerif.Props.C01
