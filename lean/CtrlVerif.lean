-- This module serves as the root of the `CtrlVerif` library.
-- Import modules here that should be built as part of the library.
import CtrlVerif.Basic
