import CtrlVerif.Driver.All
import CtrlVerif.Props.C01
import CtrlVerif.Props.C02
