"""Mutation / refactoring experiments for the py2lean-convert tie (notes/NOTES-py2lean-convert.md).
usage: muts.py build <name> | full <name> | list     (scratch worktree /tmp/w/g18_repo of /repo)
build: regenerate Generated/Conv*.lean from the edited tree and `lake build` the three Props modules;
full : run `harness/check.py C03 --tier quick` with VERIF_REPO on the edited tree."""
import os, subprocess, sys
W = os.path.dirname(os.path.dirname(os.path.dirname(os.path.abspath(__file__))))
R = "/tmp/w/g18_repo"
SS, TF = "control/statesp.py", "control/xferfcn.py"
MUTS = {
 # semantic mutations
 "M1_static_gain_inverted": (SS, "D[i, j] = sys.num_array[i, j][0] / sys.den_array[i, j][0]",
                             "D[i, j] = sys.den_array[i, j][0] / sys.num_array[i, j][0]"),
 "M2_proper_check_swapped": (SS, "if any([[len(num) for num in col] for col in sys.num] >\n               [[len(num) for num in col] for col in sys.den]):",
                             "if any([[len(num) for num in col] for col in sys.den] >\n               [[len(num) for num in col] for col in sys.num]):"),
 "M3_siso_test_negated": (SS, "                if not issiso(sys):\n                    raise ControlMIMONotImplemented(",
                          "                if issiso(sys):\n                    raise ControlMIMONotImplemented("),
 "M4_ss2tf_transposed": (TF, "                        num[i][j] = num_j[i]", "                        num[i][j] = num_j[j]"),
 "M5_static_den_two": (TF, "            den = [[[1.] for j in range(sys.ninputs)]\n                   for i in range(sys.noutputs)]",
                       "            den = [[[2.] for j in range(sys.ninputs)]\n                   for i in range(sys.noutputs)]"),
 "M6_always_suffix": (SS, "prefix_suffix_name='converted' if use_prefix_suffix else None)", "prefix_suffix_name='converted')"),
 "M7_ssdata_wrong_matrix": (SS, "    return ss.A, ss.B, ss.C, ss.D", "    return ss.A, ss.B, ss.C, ss.C"),
 "M8_scalar_shape_swapped": (TF, "        num = [[[sys] for j in range(inputs)] for i in range(outputs)]",
                             "        num = [[[sys] for j in range(outputs)] for i in range(inputs)]"),
 "U1_unsupported_print": (SS, "                newsys = StateSpace([], [], [], D, sys.dt)", "                print(D)\n                newsys = StateSpace([], [], [], D, sys.dt)"),
 # meaning-preserving refactorings
 "R1_renamed_loop_vars": (SS, "                for i, j in itertools.product(range(sys.noutputs),\n                                              range(sys.ninputs)):\n                    D[i, j] = sys.num_array[i, j][0] / sys.den_array[i, j][0]",
                          "                for r, c in itertools.product(range(sys.noutputs),\n                                              range(sys.ninputs)):\n                    D[r, c] = sys.num_array[r, c][0] / sys.den_array[r, c][0]"),
 "R2_max_reordered": (SS, "            maxn = max(max(len(n) for n in nrow)\n                       for nrow in sys.num)\n            maxd = max(max(len(d) for d in drow)\n                       for drow in sys.den)",
                      "            maxd = max(max(len(d) for d in drow)\n                       for drow in sys.den)\n            maxn = max(max(len(n) for n in nrow)\n                       for nrow in sys.num)"),
 "R3_named_temporaries": (SS, "                    D[i, j] = sys.num_array[i, j][0] / sys.den_array[i, j][0]",
                          "                    n0 = sys.num_array[i, j][0]\n                    d0 = sys.den_array[i, j][0]\n                    D[i, j] = n0 / d0"),
 "R4_loop_stores_swapped": (TF, "                        num[i][j] = num_j[i]\n                        den[i][j] = den_j",
                            "                        den[i][j] = den_j\n                        num[i][j] = num_j[i]"),
 "R5_renamed_ss2tf_results": (TF, "                    num_j, den_j = sp.signal.ss2tf(\n                        sys.A, sys.B, sys.C, sys.D, input=j)\n                    for i in range(sys.noutputs):\n                        num[i][j] = num_j[i]\n                        den[i][j] = den_j",
                              "                    nj, dj = sp.signal.ss2tf(\n                        sys.A, sys.B, sys.C, sys.D, input=j)\n                    for i in range(sys.noutputs):\n                        num[i][j] = nj[i]\n                        den[i][j] = dj"),
 "R6_comparison_flipped": (TF, "        if 0 == sys.nstates:", "        if sys.nstates == 0:"),
 "R7_tf2ss_args_named": (SS, "                A, B, C, D = \\\n                    sp.signal.tf2ss(squeeze(sys.num), squeeze(sys.den))",
                         "                b = squeeze(sys.num)\n                a = squeeze(sys.den)\n                A, B, C, D = sp.signal.tf2ss(b, a)"),
}

def apply(name):
    subprocess.run(["git", "-C", R, "checkout", "--", "."], check=True)
    if name == "clean":
        return
    f, old, new = MUTS[name]
    p = os.path.join(R, f)
    s = open(p).read()
    assert s.count(old) == 1, (name, s.count(old))
    open(p, "w").write(s.replace(old, new))

if __name__ == "__main__":
    mode = sys.argv[1]
    if mode == "list":
        print("\n".join(MUTS)); sys.exit(0)
    name = sys.argv[2]
    apply(name)
    sys.path.insert(0, os.path.join(W, "harness"))
    if mode == "build":
        from core import py2lean_conv
        probs, _ = py2lean_conv.regenerate(R, os.path.join(W, "lean"))
        for p in probs: print("PROBLEM", p)
        r = subprocess.run(["lake", "build", "CtrlVerif.Props.C03GenSS", "CtrlVerif.Props.C03GenTF", "CtrlVerif.Props.C03GenData"],
                           cwd=os.path.join(W, "lean"), capture_output=True, text=True)
        errs = [l for l in r.stdout.splitlines() if l.startswith("error:")]
        print(name, "BUILD", "ok" if r.returncode == 0 else "FAILED", "; ".join(e[:110] for e in errs[:3]))
    else:
        env = dict(os.environ, VERIF_REPO=R, VERIF_NO_EVIDENCE="1", VERIF_SEED=sys.argv[3] if len(sys.argv) > 3 else "3")
        r = subprocess.run(["/venv/bin/python", "harness/check.py", "C03", "--tier", "quick"], cwd=W, env=env, capture_output=True, text=True)
        out = [l for l in r.stdout.splitlines() if l.startswith(("VIOLATION", "C03 tier", "KNOWN"))]
        print(name, "exit", r.returncode, " | ".join(out[:2] + out[-1:]))
    apply("clean")
