#!/usr/bin/env python3
"""Mutation / refactoring experiments for the source-text tie of C01 (notes/NOTES-py2lean-tf.md).

usage:  muts.py full  NAME...   apply one change to a scratch worktree of /repo, run the whole C01 quick check on it
        muts.py build NAME...   apply it, regenerate Generated/TF*.lean and build the Props/C01Gen* files only
        muts.py list
The scratch worktree must exist:  git -C /repo worktree add --detach <dir> HEAD   (default dir: $MUT_REPO or
/tmp/w/g3_repo); it is restored after every experiment; the Generated files are regenerated from /repo at the end.
Names starting with R_ are meaning-preserving refactorings (all obligations must stay discharged); the others are
semantic changes (an obligation must break and, where the sampled cases see the change, a VIOLATION is reported)."""
import os
import subprocess
import sys
import time

W = os.path.dirname(os.path.dirname(os.path.dirname(os.path.abspath(__file__))))
REPO = os.environ.get("MUT_REPO", "/tmp/w/g3_repo")
sys.path.insert(0, os.path.join(W, "harness"))
MODS = ["CtrlVerif.Props.C01GenNeg", "CtrlVerif.Props.C01GenAdd", "CtrlVerif.Props.C01GenMul",
        "CtrlVerif.Props.C01GenDiv", "CtrlVerif.Props.C01GenFb", "CtrlVerif.Props.C01GenCtor", "CtrlVerif.Props.C01Gen"]
MUTS = {
 # name: (old, new)
 "neg_sign":      ("                num[i, j] *= -1\n", "                num[i, j] *= 1\n"),
 "neg_bound":     ("        num = deepcopy(self.num_array)\n        for i in range(self.noutputs):\n            for j in range(self.ninputs):\n",
                   "        num = deepcopy(self.num_array)\n        for i in range(self.noutputs):\n            for j in range(self.ninputs - 1):\n"),
 "addsiso_cross": ("    num = polyadd(polymul(num1, den2), polymul(num2, den1))\n", "    num = polyadd(polymul(num1, den1), polymul(num2, den2))\n"),
 "add_promote":   ("            self = np.ones((other.noutputs, other.ninputs)) * self\n", "            self = np.ones((other.ninputs, other.noutputs)) * self\n"),
 "add_loopbound": ("        for i in range(self.noutputs):\n            for j in range(self.ninputs):\n                num[i, j], den[i, j] = _add_siso(\n",
                   "        for i in range(self.noutputs):\n            for j in range(self.ninputs - 1):\n                num[i, j], den[i, j] = _add_siso(\n"),
 "mul_index":     ("                        self.num_array[row, k], other.num_array[k, col])\n", "                        self.num_array[row, k], other.num_array[col, k])\n"),
 "mul_promote":   ("            self = bdalg.append(*([self] * other.noutputs))\n", "            self = bdalg.append(*([self] * other.ninputs))\n"),
 "rmul_promote":  ("            other = bdalg.append(*([other] * self.noutputs))\n", "            other = bdalg.append(*([other] * self.ninputs))\n"),
 "truediv_num":   ("        num = polymul(self.num_array[0, 0], other.den_array[0, 0])\n        den = polymul(self.den_array[0, 0], other.num_array[0, 0])\n\n        return TransferFunction(num, den, dt)\n\n    # TODO: Division of MIMO transfer function objects is not written yet.\n    def __rtruediv__",
                   "        num = polymul(self.num_array[0, 0], other.num_array[0, 0])\n        den = polymul(self.den_array[0, 0], other.den_array[0, 0])\n\n        return TransferFunction(num, den, dt)\n\n    # TODO: Division of MIMO transfer function objects is not written yet.\n    def __rtruediv__"),
 "pow_zero_dt":   ("            return TransferFunction([1], [1], self.dt)  # unity\n", "            return TransferFunction([1], [1])  # unity\n"),
 "pow_step":      ("            return self * (self**(other - 1))\n", "            return self * (self**(other - 2))\n"),
 "fb_sign":       ("        den = polyadd(polymul(den2, den1), -sign * polymul(num2, num1))\n", "        den = polyadd(polymul(den2, den1), sign * polymul(num2, num1))\n"),
 "fb_num":        ("        num = polymul(num1, den2)\n        den = polyadd(", "        num = polymul(num1, den1)\n        den = polyadd("),
 # meaning-preserving refactorings
 "R_rename":      ("        for i in range(self.noutputs):\n            for j in range(self.ninputs):\n                num[i, j], den[i, j] = _add_siso(\n                    self.num_array[i, j], self.den_array[i, j],\n                    other.num_array[i, j], other.den_array[i, j])\n",
                   "        for r in range(self.noutputs):\n            for c in range(self.ninputs):\n                num[r, c], den[r, c] = _add_siso(\n                    self.num_array[r, c], self.den_array[r, c],\n                    other.num_array[r, c], other.den_array[r, c])\n"),
 "R_reorder_add": ("        num = _create_poly_array((self.noutputs, self.ninputs))\n        den = _create_poly_array((self.noutputs, self.ninputs))\n\n        for i in range(self.noutputs):\n            for j in range(self.ninputs):\n                num[i, j], den[i, j] = _add_siso(",
                   "        den = _create_poly_array((self.noutputs, self.ninputs))\n        num = _create_poly_array((self.noutputs, self.ninputs))\n\n        for i in range(self.noutputs):\n            for j in range(self.ninputs):\n                num[i, j], den[i, j] = _add_siso("),
 "R_reorder_fb":  ("        num1 = self.num_array[0, 0]\n        den1 = self.den_array[0, 0]\n        num2 = other.num_array[0, 0]\n        den2 = other.den_array[0, 0]\n",
                   "        den2 = other.den_array[0, 0]\n        num2 = other.num_array[0, 0]\n        den1 = self.den_array[0, 0]\n        num1 = self.num_array[0, 0]\n"),
 "R_reorder_addsiso": ("    num = polyadd(polymul(num1, den2), polymul(num2, den1))\n    den = polymul(den1, den2)\n", "    den = polymul(den1, den2)\n    num = polyadd(polymul(num1, den2), polymul(num2, den1))\n"),
 "R_reorder_mul": ("        ninputs = other.ninputs\n        noutputs = self.noutputs\n\n        dt = common_timebase(self.dt, other.dt)\n\n        # Preallocate the numerator and denominator of the sum.\n        num = _create_poly_array((noutputs, ninputs), [0])\n        den = _create_poly_array((noutputs, ninputs), [1])\n\n        # Temporary storage for the summands needed to find the (i, j)th\n",
                   "        noutputs = self.noutputs\n        ninputs = other.ninputs\n\n        # Preallocate the numerator and denominator of the sum.\n        den = _create_poly_array((noutputs, ninputs), [1])\n        num = _create_poly_array((noutputs, ninputs), [0])\n        dt = common_timebase(self.dt, other.dt)\n\n        # Temporary storage for the summands needed to find the (i, j)th\n"),
 "R_mul_swap_summands": ("                    num_summand[k] = polymul(\n                        self.num_array[row, k], other.num_array[k, col])\n                    den_summand[k] = polymul(\n                        self.den_array[row, k], other.den_array[k, col])\n",
                   "                    den_summand[k] = polymul(\n                        self.den_array[row, k], other.den_array[k, col])\n                    num_summand[k] = polymul(\n                        self.num_array[row, k], other.num_array[k, col])\n"),
 "trunc_slice":   ("                        data[p][i][j] = data[p][i][j][nonzero:]\n", "                        data[p][i][j] = data[p][i][j][nonzero + 1:]\n"),
 "trunc_zeros":   ("                        data[p][i][j] = zeros(1)\n", "                        data[p][i][j] = zeros(2)\n"),
 "trunc_nobreak": ("                            nonzero = k\n                            break\n", "                            nonzero = k\n"),
 "trunc_onlynum": ("        for p in range(len(data)):\n", "        for p in range(len(data) - 1):\n"),
 "init_noones":   ("                if zeronum:\n                    den[i][j] = ones(1)\n", "                if zeronum:\n                    den[i][j] = ones(2)\n"),
 "init_zeroden":  ("                if zeroden:\n                    raise ValueError(", "                if not zeroden:\n                    raise ValueError("),
 "init_numscan":  ("                zeronum = True\n                for k in num[i, j]:\n", "                zeronum = True\n                for k in den[i, j]:\n"),
 "R_trunc_rename": ("""                    for k in range(data[p][i, j].size):
                        if data[p][i, j][k]:
                            nonzero = k
                            break
""", """                    for q in range(data[p][i, j].size):
                        if data[p][i, j][q]:
                            nonzero = q
                            break
"""),
 "R_trunc_index": ("                        data[p][i][j] = zeros(1)\n", "                        data[p][i, j] = zeros(1)\n"),
 "R_init_rename": ("""                zeroden = True
                for k in den[i, j]:
                    if np.any(k):
                        zeroden = False
                        break
                if zeroden:
""", """                allzero = True
                for coeff in den[i, j]:
                    if np.any(coeff):
                        allzero = False
                        break
                if allzero:
"""),
 "R_rename_mul":  ("""        for row in range(noutputs):
            for col in range(ninputs):
                for k in range(self.ninputs):
                    num_summand[k] = polymul(
                        self.num_array[row, k], other.num_array[k, col])
                    den_summand[k] = polymul(
                        self.den_array[row, k], other.den_array[k, col])
                    num[row, col], den[row, col] = _add_siso(
                        num[row, col], den[row, col],
                        num_summand[k], den_summand[k])
""", """        for a in range(noutputs):
            for b in range(ninputs):
                for c in range(self.ninputs):
                    num_summand[c] = polymul(
                        self.num_array[a, c], other.num_array[c, b])
                    den_summand[c] = polymul(
                        self.den_array[a, c], other.den_array[c, b])
                    num[a, b], den[a, b] = _add_siso(
                        num[a, b], den[a, b],
                        num_summand[c], den_summand[c])
"""),
 "R_swap_checks": ("""        if self.ninputs != other.ninputs:
            raise ValueError(
                "The first summand has %i input(s), but the second has %i."
                % (self.ninputs, other.ninputs))
        if self.noutputs != other.noutputs:
            raise ValueError(
                "The first summand has %i output(s), but the second has %i."
                % (self.noutputs, other.noutputs))
""", """        if self.noutputs != other.noutputs:
            raise ValueError(
                "The first summand has %i output(s), but the second has %i."
                % (self.noutputs, other.noutputs))
        if self.ninputs != other.ninputs:
            raise ValueError(
                "The first summand has %i input(s), but the second has %i."
                % (self.ninputs, other.ninputs))
"""),
 "R_rmul_index": ("                    num[i][j], den[i][j] = _add_siso(\n", "                    num[i, j], den[i, j] = _add_siso(\n"),
 "R_truediv_swap": ("""        num = polymul(self.num_array[0, 0], other.den_array[0, 0])
        den = polymul(self.den_array[0, 0], other.num_array[0, 0])
""", """        den = polymul(self.den_array[0, 0], other.num_array[0, 0])
        num = polymul(self.num_array[0, 0], other.den_array[0, 0])
"""),
 "R_fb_inline": ("""        num = polymul(num1, den2)
        den = polyadd(polymul(den2, den1), -sign * polymul(num2, num1))

        return TransferFunction(num, den, dt)
""", """        return TransferFunction(polymul(num1, den2), polyadd(polymul(den2, den1), -sign * polymul(num2, num1)), dt)
"""),
 "R_neg_temp": ("                num[i, j] *= -1\n", "                num[i, j] = num[i, j] * -1\n"),
 "R_pow_else": ("""        if other == 0:
            return TransferFunction([1], [1], self.dt)  # unity
        if other > 0:
            return self * (self**(other - 1))
        if other < 0:
            return (TransferFunction([1], [1]) / self) * (self**(other + 1))
""", """        if other == 0:
            return TransferFunction([1], [1], self.dt)  # unity
        elif other > 0:
            return self * (self**(other - 1))
        else:
            return (TransferFunction([1], [1]) / self) * (self**(other + 1))
"""),
}


def apply(name, path):
    subprocess.run(["git", "-C", REPO, "checkout", "-q", "control/xferfcn.py"], check=True)
    src = open(path).read()
    old, new = MUTS[name]
    if src.count(old) != 1:
        print("%s: pattern occurs %d times" % (name, src.count(old)))
        return False
    open(path, "w").write(src.replace(old, new))
    return True


def main():
    mode, names = (sys.argv[1:2] or ["list"])[0], sys.argv[2:]
    if mode == "list":
        print("\n".join(MUTS))
        return
    from core import py2lean_tf, leanproj
    path = os.path.join(REPO, "control/xferfcn.py")
    for name in names or list(MUTS):
        if not apply(name, path):
            continue
        t0 = time.time()
        if mode == "full":
            env = dict(os.environ, VERIF_REPO=REPO, VERIF_NO_EVIDENCE="1", VERIF_SEED=os.environ.get("VERIF_SEED", "3"))
            p = subprocess.run(["/venv/bin/python", "harness/check.py", "C01", "--tier", "quick"], cwd=W, env=env,
                               capture_output=True, text=True)
            out = [l for l in (p.stdout + p.stderr).split("\n") if l.startswith(("VIOLATION", "C01 tier", "INFRA"))]
            print("== %s rc=%d %.0fs" % (name, p.returncode, time.time() - t0))
            for l in out[:3] + out[-1:]:
                print("   ", l[:200])
        else:
            probs, _ = py2lean_tf.regenerate(REPO, leanproj.LEAN)
            p = subprocess.run(["lake", "build"] + MODS, cwd=leanproj.LEAN, capture_output=True, text=True)
            errs = [l for l in (p.stdout + p.stderr).split("\n") if l.startswith("error:") or "✖" in l]
            print("== %s: translation problems=%s build rc=%d" % (name, probs, p.returncode))
            for l in errs[:8]:
                print("    ", l[:220])
        sys.stdout.flush()
    subprocess.run(["git", "-C", REPO, "checkout", "-q", "control/xferfcn.py"], check=True)
    py2lean_tf.regenerate("/repo", leanproj.LEAN)


main()
